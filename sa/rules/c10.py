"""C10 — correlation queries carry every element of the correlation rule faithfully (structural clauses)."""
from __future__ import annotations

import ast
from typing import Any, Optional

from ..prog import AnalysisError, FuncInfo, call_name, short, stmt_head, unparse, walk_no_nested
from ..util import assignments_to, atomic_guards, cfg_of, const_eval, guards_at
from . import c01

B = "sigma.conversion.base.Backend"
TQ = "sigma.conversion.base.TextQueryBackend"
CORR = "sigma.correlations"


def run(ctx) -> None:
    r = ctx.r
    r.explanation = (
        "Name tables and pass-through structure of correlation conversion decided on the source: agreement of the correlation type "
        "enum, the type literal, the dispatch dict and the reflectively addressed template attributes; the embedding loops "
        "(referenced rules outer × all conversion results inner, tagged with name or id) and the single-rule shortcut guards of "
        "search and typing; the unit table of timespans against unit lengths derived in the checker and its case-sensitive unit "
        "letter; def-use from the rule's group-by, aliases, condition field/operator/count/percentile to the template arguments; "
        "the sub-query finalisation switch; coverage of every field-bearing attribute by the field-mapping transformation; field "
        "escaping and extended-condition grouping (shared with C01). The text of the assembled query is not parsed.")
    r1_name_tables(ctx)
    r2_embedding(ctx)
    r3_timespan(ctx)
    r4_field_mapping(ctx)
    r.rule("C10.R5", "every field argument of a correlation template is escaped (shared with C01.R8)")
    c01.r8_field_escaping(ctx, "C10.R5")
    r6_pass_through(ctx)
    r7_subquery_finalisation(ctx)
    # the sub-queries embedded are those of this conversion only if every referenced rule is converted before the
    # correlation rule that embeds it: the ordering step follows the resolved reference relation (shared with C09.R1)
    from . import c09
    from ..util import run_as
    run_as(ctx, c09.r1_ordering, "C09.R1", "C10.R8", "referenced rules are converted first (their sub-queries are those of this conversion): ")


def r1_name_tables(ctx) -> None:
    r, prog = ctx.r, ctx.prog
    r.rule("C10.R1", "correlation type tables agree: every enum member has a dispatch entry whose method passes its own literal; every literal has the three reflectively addressed template attributes on TextQueryBackend")
    cm = prog.module(CORR)
    enum = prog.cls(CORR + ".SigmaCorrelationType")
    members = [unparse(s.targets[0]) for s in enum.node.body if isinstance(s, ast.Assign)]
    lit_stmt = cm.assigns.get("SigmaCorrelationTypeLiteral")
    if not lit_stmt:
        raise AnalysisError("anchor vanished: SigmaCorrelationTypeLiteral")
    lits = [c.value for c in ast.walk(lit_stmt[-1]) if isinstance(c, ast.Constant) and isinstance(c.value, str)]
    base = [m.lower() for m in members]
    if set(base) <= set(lits):
        r.ok("C10.R1", CORR, f"every enum member {base} is a type literal")
    else:
        r.violation("C10.R1", CORR, f"enum {base} vs literals {lits}", f"members without literal: {sorted(set(base) - set(lits))}")
    cr = prog.func(B + ".convert_correlation_rule")
    # the dispatch of convert_correlation_rule, interpreted (sa.tabulate, Proxy) for every enum member with a plain and an
    # extended condition: which per-type method is called
    from .standins import run_per_rule_converter
    table: dict[str, list[str]] = {}
    for m in members:
        for ext in (False, True):
            o = run_per_rule_converter(ctx, "convert_correlation_rule", output=True, rule_type=m, extended_condition=ext)
            called = [t.split(":", 1)[1] for t in o.trace if isinstance(t, str) and t.startswith("dispatch:")]
            if o.raised is None and len(called) == 1:
                table.setdefault(m, [])
                if called[0] not in table[m]:
                    table[m].append(called[0])
                want_name = f"convert_correlation_{'extended_' if ext and m in ('TEMPORAL', 'TEMPORAL_ORDERED') else ''}{m.lower()}_rule"
                if called[0] != want_name:
                    r.violation("C10.R1", cr.qual, f"{m} ({'extended' if ext else 'plain'} condition) → {called[0]}", f"expected {want_name}: the query of another correlation type (or condition form) is emitted", cr.loc)
            elif o.raised is not None:
                r.violation("C10.R1", cr.qual, f"{m}: no dispatch entry ({'extended' if ext else 'plain'} condition: {o.raised})", f"correlation type {m} has no conversion method: such rules fail with NotImplementedError", cr.loc)
    for m in members:
        meths = table.get(m, [])
        loc = cr.loc
        if not meths:
            continue
        for meth in meths:
            f = prog.lookup_method(TQ, meth)
            if f is None:
                r.violation("C10.R1", cr.qual, f"{m} → {meth}", "dispatch target does not exist", loc)
                continue
            calls = [c for c in walk_no_nested(f.node) if isinstance(c, ast.Call) and call_name(c) == "self.convert_correlation_rule_from_template"]
            lit = const_eval(prog, f.module, calls[0].args[1]) if calls and len(calls[0].args) > 1 else None
            want = {m.lower(), m.lower() + "_extended"}
            if lit in want and ("extended" in meth) == (lit or "").endswith("_extended"):
                r.ok("C10.R1", f.qual, f"{m} → {meth} → template family {lit!r}", f.loc)
            else:
                r.violation("C10.R1", f.qual, f"{m} → {meth} → {lit!r}", f"method registered for {m} renders the template family {lit!r}: the query of another correlation type is emitted", f.loc)
    attrs = prog.all_class_attrs(TQ)
    for lit in lits:
        for suffix in ("correlation_query", "aggregation_expression", "condition_expression"):
            nm = f"{lit}_{suffix}"
            if nm in attrs:
                r.ok("C10.R1", TQ, f"template attribute {nm} declared")
            else:
                r.violation("C10.R1", TQ, f"template attribute {nm}", f"getattr(self, f'{{type}}_{suffix}') has no attribute for type {lit!r}: AttributeError instead of a query or a Sigma error")
    r.floor("C10.R1", 30)


def r2_embedding(ctx) -> None:
    r, prog = ctx.r, ctx.prog
    r.rule("C10.R2", "every query of every referenced rule is embedded: search and typing iterate referenced_rules (outer) × get_conversion_result() (inner) and tag with name or id; the single-rule shortcut requires exactly one referenced rule with exactly one query")
    # search phase, typing phase and the referenced-rule list interpreted (sa.tabulate, Proxy) on stand-in rules: two referenced
    # rules with two and one queries (one rule without name), and the single-rule case
    import types as _types
    from ..tabulate import Proxy, call_method, Raised

    def ref_(name, rid, queries):
        rule_ = _types.SimpleNamespace(name=name, id=rid, get_conversion_result=lambda: list(queries))
        return _types.SimpleNamespace(rule=rule_, reference=rid)  # referred to by id, also when the rule has a name

    def backend(**over):
        attrs = {"correlation_search_single_rule_expression": "SINGLE[{ruleid}|{query}|{normalization}]",
                 "correlation_search_multi_rule_expression": "MULTI({queries})", "correlation_search_multi_rule_query_expression": "[{ruleid}|{query}|{normalization}]",
                 "correlation_search_multi_rule_query_expression_joiner": " + ", "convert_correlation_search_multi_rule_query_postprocess": lambda q: f"pp({q})",
                 "convert_correlation_search_field_normalization_expression": lambda aliases, rr_: f"norm:{rr_.rule.name or rr_.rule.id}",
                 "typing_expression": "TYPING({queries})", "typing_rule_query_expression": "[{ruleid}|{query}]", "typing_rule_query_expression_joiner": " ; ",
                 "convert_correlation_typing_query_postprocess": lambda q: f"tp({q})",
                 "referenced_rules_expression": {"m": "<{ruleid}>"}, "referenced_rules_expression_joiner": {"m": ","}}
        attrs.update(over)
        return Proxy(prog, TQ, {}, attrs, interp_kwargs={"max_steps": 8000, "behaviours": (NotImplementedError,)})

    def run(meth, me, *args):
        try:
            return call_method(prog, TQ, meth, me, {}, *args, interp_kwargs={"max_steps": 8000, "behaviours": (NotImplementedError,)})
        except Raised as ex:
            return f"<raises {ex}>"

    two = _types.SimpleNamespace(referenced_rules=[ref_("ra", "id-a", ["qa1", "qa2"]), ref_(None, "id-b", ["qb1"])], aliases=[])
    one_one = _types.SimpleNamespace(referenced_rules=[ref_("ra", "id-a", ["qa1"])], aliases=[])
    one_two = _types.SimpleNamespace(referenced_rules=[ref_("ra", "id-a", ["qa1", "qa2"])], aliases=[])
    fs = prog.func(TQ + ".convert_correlation_search")
    ft = prog.func(TQ + ".convert_correlation_typing")
    got = {"multi": run("convert_correlation_search", backend(), two), "single": run("convert_correlation_search", backend(), one_one),
           "one rule, two queries": run("convert_correlation_search", backend(), one_two),
           "single without single-rule template": run("convert_correlation_search", backend(correlation_search_single_rule_expression=None), one_one),
           "multi without multi-rule templates": run("convert_correlation_search", backend(correlation_search_multi_rule_expression=None), two)}
    want = {"multi": "MULTI([ra|pp(qa1)|norm:ra] + [ra|pp(qa2)|norm:ra] + [id-b|pp(qb1)|norm:id-b])", "single": "SINGLE[ra|qa1|norm:ra]",
            "one rule, two queries": "MULTI([ra|pp(qa1)|norm:ra] + [ra|pp(qa2)|norm:ra])",
            "single without single-rule template": "MULTI([ra|pp(qa1)|norm:ra])"}
    bad = [f"{k}: {got[k]!r} instead of {want[k]!r}" for k in want if got[k] != want[k]]
    if "NotImplementedError" not in str(got["multi without multi-rule templates"]):
        bad.append(f"multi-rule search on a backend without the templates: {got['multi without multi-rule templates']!r} instead of NotImplementedError")
    if not bad:
        r.ok("C10.R2", fs.qual, "search phase: every query of every referenced rule is embedded in reference order, tagged with name or id, with its normalisation; the single-rule shortcut only for exactly one referenced rule with exactly one query and with the same arguments (interpreted)", fs.loc)
        r.ok("C10.R2", fs.qual, "single-rule shortcut only for exactly one referenced rule with exactly one query", fs.loc)
    else:
        r.violation("C10.R2", fs.qual, f"search phase: {bad[0]}",
                    f"{len(bad)} interpreted cases deviate: the multi-rule branch must embed every query of every referenced rule in reference order tagged with `name or id`; the shortcut embeds queries[0] only and must require len(referenced_rules) == 1 and len(queries) == 1 — otherwise further conditions of the referenced rule are dropped silently; the single-rule template gets the same rule/ruleid/normalization arguments as the multi-rule query template", fs.loc)
    gt = run("convert_correlation_typing", backend(), two)
    gt0 = run("convert_correlation_typing", backend(typing_expression=None), two)
    if gt == "TYPING([ra|tp(qa1)] ; [ra|tp(qa2)] ; [id-b|tp(qb1)])" and gt0 == "":
        r.ok("C10.R2", ft.qual, "typing phase: every query of every referenced rule, in reference order, tagged with name or id; no typing template → empty text (interpreted)", ft.loc)
    else:
        r.violation("C10.R2", ft.qual, f"typing phase: {gt!r} (without template: {gt0!r})", "the typing phase does not embed every query of every referenced rule in reference order tagged with `name or id`", ft.loc)
    cr = prog.func(TQ + ".convert_referenced_rules")
    gr = run("convert_referenced_rules", backend(), two.referenced_rules, "m")
    gr0 = run("convert_referenced_rules", backend(referenced_rules_expression=None), two.referenced_rules, "m")
    if gr == "<ra>,<id-b>" and gr0 is None:
        r.ok("C10.R2", cr.qual, "referenced rule list rendered in reference order with name or id", cr.loc)
    else:
        r.violation("C10.R2", cr.qual, f"convert_referenced_rules: {gr!r}", "referenced rules are not rendered in order with `name or id`", cr.loc)
    # which rules are embedded, and in which order: the explicit rules list wins, the condition text is only the fallback
    rr = prog.func("sigma.correlations.SigmaCorrelationRule.resolve_rule_references")
    from .c09 import correlation_resolution_table
    tbl = correlation_resolution_table(ctx)["the reference list is taken from the rules list or the extended condition"]
    with_list = [t for t in tbl if t.startswith("rules list")]
    from_cond = [t for t in tbl if not t.startswith("rules list")]
    if not with_list:
        r.ok("C10.R2", rr.qual, "referenced_rules = the explicit rules list whenever one is given, in its order (its order is the order of {referenced_rules} and of the sub-queries) — interpreted, also with an extended condition that names the rules in another order", rr.loc)
    else:
        r.violation("C10.R2", rr.qual, f"self.referenced_rules = self.rules: {with_list[0]}", "the explicit rules list is not used whenever it is given: for an extended condition the order of first mention in the condition text replaces the order of `rules:`, so eventtype_order / the sub-query order of a temporal_ordered correlation changes (rule references derived from the condition text take precedence over the explicit rules list)", rr.loc)
    if not from_cond:
        r.ok("C10.R2", rr.qual, "rule names from the extended condition only when no rules list is given; none otherwise", rr.loc)
    else:
        r.violation("C10.R2", rr.qual, f"references without a rules list: {from_cond[0]}", "without a rules list the references are those the extended condition names (none for a plain condition)", rr.loc)
    r.floor("C10.R2", 6)


def r3_timespan(ctx) -> None:
    r, prog = ctx.r, ctx.prog
    r.rule("C10.R3", "timespan: count = int(spec[:-1]), unit = spec[-1] (case-sensitive: 'm' minutes, 'M' months), seconds = count × unit length with the unit table {s:1, m:60, h:3600, d:86400, w:604800, M:365.2425/12 days, y:365.2425 days}; convert_timespan returns seconds / count+mapped unit / the spec")
    f = prog.func(CORR + ".SigmaCorrelationTimespan.__post_init__")
    # both functions interpreted (sa.tabulate, Proxy) on sample specs / stand-in timespans
    import types as _types
    from ..tabulate import Proxy, call_method, Raised
    TS = CORR + ".SigmaCorrelationTimespan"

    class SigmaTimespanError(Exception):
        def __init__(self, *a, **k): super().__init__(*a)

    env = {"sigma_exceptions": _types.SimpleNamespace(SigmaTimespanError=SigmaTimespanError), "SigmaTimespanError": SigmaTimespanError}
    IK = {"behaviours": (SigmaTimespanError, ValueError, TypeError, AttributeError), "max_steps": 4000}
    year = int(365.2425 * 86400)
    want = {"s": 1, "m": 60, "h": 3600, "d": 86400, "w": 604800, "M": year // 12, "y": year}

    def parse(spec):
        me = Proxy(prog, TS, env, {"spec": spec}, interp_kwargs=IK)
        try:
            call_method(prog, TS, "__post_init__", me, env, interp_kwargs=IK)
        except Raised as ex:
            return f"<raises {'SigmaTimespanError' if 'SigmaTimespanError' in str(ex) else ex}>"
        a = me.attrs()
        return (a.get("count"), a.get("unit"), a.get("seconds"), a.get("spec"))

    bad_units, bad_parse, bad_refuse = [], [], []
    for u, length in want.items():
        for cnt in (1, 5, 90):
            got = parse(f"{cnt}{u}")
            if got != (cnt, u, cnt * length, f"{cnt}{u}"):
                (bad_units if isinstance(got, tuple) and got[:2] == (cnt, u) else bad_parse).append(f"{cnt}{u} → (count, unit, seconds, spec) = {got}, expected {(cnt, u, cnt * length, f'{cnt}{u}')}")
    for spec in ("5", "m", "", "5x", "5S", "5H", "5D", "m5", "1.5h", None, 5, "5mm"):
        got = parse(spec)
        if got != "<raises SigmaTimespanError>":
            bad_refuse.append(f"{spec!r} → {got} instead of SigmaTimespanError")
    if not bad_units:
        r.ok("C10.R3", f.qual, f"unit table {want}: seconds = count × unit length (interpreted on 3 counts per unit)", f.loc)
    else:
        r.violation("C10.R3", f.qual, f"unit table differs: {bad_units[0]}", "unit lengths in seconds: a backend that emits seconds would search another time window", f.loc)
    if not bad_parse:
        r.ok("C10.R3", f.qual, "count = int(spec[:-1]); unit = spec[-1] — parsed from the spec as given (case-sensitive: 'm' minutes, 'M' months)", f.loc)
    else:
        r.violation("C10.R3", f.qual, f"count/unit: {bad_parse[0]}",
                    "count and unit must be taken from the spec as written: normalising the text (lower-casing/stripping) turns months 'M' into minutes 'm'; seconds must be count × unit length", f.loc)
    if not bad_refuse:
        r.ok("C10.R3", f.qual, "texts that are no count followed by one of the seven units are refused with SigmaTimespanError (12 samples incl. upper-case variants, no text at all)", f.loc)
    else:
        r.violation("C10.R3", f.qual, f"invalid timespan: {bad_refuse[0]}", "case folding of the timespan text merges the units 'm' (minutes) and 'M' (months); an invalid timespan must be a Sigma error", f.loc)
    ct = prog.func(TQ + ".convert_timespan")
    wrong = []
    ts = _types.SimpleNamespace(spec="5M", count=5, unit="M", seconds=5 * want["M"])
    for seconds_flag in (False, True):
        for mapping in (None, {}, {"M": "mon"}, {"m": "min"}, {"M": "mon", "m": "min"}):
            me = Proxy(prog, TQ, {}, {"timespan_seconds": seconds_flag, "timespan_mapping": mapping}, interp_kwargs={"max_steps": 2000})
            try:
                got = call_method(prog, TQ, "convert_timespan", me, {}, ts, None, None, interp_kwargs={"max_steps": 2000})
            except Raised as ex:
                got = f"<raises {ex}>"
            wantv = str(ts.seconds) if seconds_flag else ("5" + mapping["M"] if mapping and "M" in mapping else "5M")
            if got != wantv:
                wrong.append(f"timespan_seconds={seconds_flag}, timespan_mapping={mapping}: {got!r} instead of {wantv!r}")
    if not wrong:
        r.ok("C10.R3", ct.qual, "seconds if timespan_seconds; count + mapped unit if the unit is mapped; else the spec (10 interpreted configurations)", ct.loc)
    else:
        r.violation("C10.R3", ct.qual, f"convert_timespan: {wrong[0]}", "convert_timespan must return seconds / count+mapped unit (only for mapped units) / the spec under the documented guards", ct.loc)
    r.floor("C10.R3", 4)


def r4_field_mapping(ctx) -> None:
    r, prog = ctx.r, ctx.prog
    r.rule("C10.R4", "field-name pipelines cover every field-bearing attribute of a correlation rule: fields, group-by (alias names kept), alias mapping targets (only for referred rules the item's rule conditions match) and the condition field reference (string and list form; alias names kept) — FieldMappingTransformationBase.apply interpreted on stand-in correlation rules (sa.tabulate)")
    f = prog.func("sigma.processing.transformations.base.FieldMappingTransformationBase.apply")
    from ..tabulate import Interp, Raised, Proxy, call_method
    MAP = {"user": ["U"], "ip": ["IP"], "u": ["ALIAS_U"], "other": ["other"]}

    class _Corr:
        pass

    class _Cond:
        pass

    class _Ref:
        def __init__(self, name, matches):
            self.reference = name
            self.rule = type("Rule", (), {"matches": matches})()

        def __hash__(self):
            return hash(self.reference)

        def __eq__(self, o):
            return isinstance(o, _Ref) and o.reference == self.reference

    class _Alias:
        def __init__(self, alias, mapping):
            self.alias, self.mapping = alias, mapping

    def make(group_by, fieldref, with_aliases=True):
        rule = _Corr()
        ra, rb = _Ref("a", True), _Ref("b", False)
        rule.fields = ["user", "other"]
        rule.group_by = group_by
        rule.aliases = [_Alias("u", {ra: "user", rb: "user"})] if with_aliases else []
        rule.referenced_rules = [ra, rb]
        rule.condition = _Cond()
        rule.condition.fieldref = fieldref
        return rule, ra, rb

    def run_case(rule):
        calls = []
        base = type("B", (), {"apply": lambda self_, rr: calls.append(rr)})()
        env = {"SigmaCorrelationRule": _Corr, "SigmaCorrelationCondition": _Cond, "super": lambda: base,
               "SigmaConfigurationError": type("SigmaConfigurationError", (Exception,), {}), "next": next}
        FM = "sigma.processing.transformations.base.FieldMappingTransformationBase"
        me = Proxy(prog, FM, env, {"_apply_field_name": lambda fn: list(MAP.get(fn, [fn])),
                                   "processing_item": type("PI", (), {"match_rule_conditions": lambda self_, rr: rr.matches})()}, interp_kwargs={"max_steps": 20000})
        call_method(prog, FM, "apply", me, env, rule, interp_kwargs={"max_steps": 20000})
        return calls

    cases = []
    try:
        rule, ra, rb = make(["user", "u"], "ip")
        calls = run_case(rule)
        cases += [
            ("rule.fields are mapped", rule.fields, ["U", "other"]),
            ("group-by: event fields mapped, alias names kept", rule.group_by, ["U", "u"]),
            ("alias target of a referred rule the rule conditions match is mapped", rule.aliases[0].mapping[ra], "U"),
            ("alias target of a referred rule the rule conditions do not match keeps its name (that rule's own query keeps it too)", rule.aliases[0].mapping[rb], "user"),
            ("condition field (event field) is mapped", rule.condition.fieldref, "IP"),
            ("detection items are mapped afterwards through the base class", len(calls), 1),
        ]
        rule, ra, rb = make(["user"], "u")
        run_case(rule)
        cases.append(("a condition field that names an alias is kept", rule.condition.fieldref, "u"))
        rule, ra, rb = make(["user"], ["ip", "u"])
        run_case(rule)
        cases.append(("condition field list: event fields mapped, alias names kept", rule.condition.fieldref, ["IP", "u"]))
        rule, ra, rb = make(None, "u")
        run_case(rule)
        cases.append(("without group-by a condition field that names an alias is kept as well", rule.condition.fieldref, "u"))
        rule, ra, rb = make(["u", "ip"], None, with_aliases=False)
        run_case(rule)
        cases.append(("without aliases every group-by field is mapped", rule.group_by, ["ALIAS_U", "IP"]))
        # an alias target is an event field of the referred rule, also when it is spelled like an alias name of the correlation
        rule, ra, rb = make(["u"], None)
        rule.aliases = [_Alias("u", {ra: "u", rb: "u"})]
        run_case(rule)
        cases.append(("an alias target spelled like an alias name is an event field of the referred rule and is mapped", rule.aliases[0].mapping[ra], "ALIAS_U"))
        cases.append(("…while the alias name in group-by is kept", rule.group_by, ["u"]))
    except Raised as ex:
        r.violation("C10.R4", f.qual, "apply() on a correlation rule", f"the tabulated application raises {ex}", f.loc)
        cases = []
    for what, got, want in cases:
        if got == want:
            r.ok("C10.R4", f.qual, what, f.loc)
        else:
            r.violation("C10.R4", f.qual, what, f"tabulated application gives {got!r}, specified {want!r}: a field-bearing attribute of the correlation rule is not renamed consistently with the referenced rules (the correlation would group/aggregate on a field the sub-queries do not produce)", f.loc)
    r.floor("C10.R4", 6)


def _r6_condition_numbers(ctx) -> None:
    """'as given' starts at the loader: SigmaCorrelationCondition.from_dict interpreted on sample condition maps."""
    from ..tabulate import Interp, Raised
    r, prog = ctx.r, ctx.prog
    CQ = "sigma.correlations.SigmaCorrelationCondition"
    f = prog.func(CQ + ".from_dict")

    class _Op:
        names = ("lt", "lte", "gt", "gte", "eq", "neq")

        @classmethod
        def operators(cls):
            return set(cls.names)

        def __class_getitem__(cls, k):
            return k

    class _Exc:
        def __getattr__(self, n):
            return type(n, (Exception,), {})

    samples = [({"gt": 0.5, "field": "f"}, 0.5, None), ({"gte": 2}, 2, None), ({"gt": 2.0}, 2, None), ({"lt": 2.75}, 2.75, None),
               ({"gte": 1, "field": "f", "percentile": 99.9}, 1, 99.9), ({"gte": 1, "field": "f", "percentile": 95}, 1, 95), ({"eq": "3"}, 3, None),
               ({"gte": 9007199254740993}, 9007199254740993, None), ({"lt": 10 ** 17 + 1}, 10 ** 17 + 1, None),
               ({"gte": "2.5"}, "<refused>", None), ({"gte": "x"}, "<refused>", None)]
    bad = []
    for d, want_count, want_pct in samples:
        got = {}

        from ..tabulate import ClassProxy, call_method
        fields_ = [st.target.id for st in prog.cls(CQ).node.body if isinstance(st, ast.AnnAssign) and isinstance(st.target, ast.Name)]

        def ctor(*a, **kw):
            got.update(dict(zip(fields_, a)))
            got.update(kw)
            return kw
        env6 = {"SigmaCorrelationConditionOperator": _Op, "sigma_exceptions": _Exc()}
        IK6 = {"max_steps": 5000, "behaviours": (ValueError, TypeError, OverflowError, KeyError)}
        klass = ClassProxy(prog, CQ, env6, ctor=ctor, interp_kwargs=IK6)
        try:
            call_method(prog, CQ, "from_dict", klass, env6, dict(d), None, interp_kwargs=IK6)
        except Raised as ex:
            if want_count != "<refused>":
                bad.append((d, f"refused ({ex})"))
            continue
        if want_count == "<refused>":
            bad.append((d, f"accepted as count={got.get('count')!r}; text that is no integer must be refused, not truncated"))
            continue
        if got.get("count") != want_count or type(got.get("count")) is not type(want_count) or got.get("percentile") != want_pct:
            bad.append((d, f"count={got.get('count')!r}, percentile={got.get('percentile')!r}; given {want_count!r} / {want_pct!r}"))
    if bad:
        d, why = bad[0]
        r.violation("C10.R6", f.qual, f"condition {d}", f"{why} (+{len(bad) - 1} more sample(s)): a threshold or percentile that is not integral is truncated on loading, e.g. `gt: 0.5` becomes `> 0`", f.loc)
    else:
        r.ok("C10.R6", f.qual, f"from_dict interpreted on {len(samples)} condition maps: count and percentile are stored as given (integral values as int)", f.loc)


def r6_pass_through(ctx) -> None:
    r, prog = ctx.r, ctx.prog
    # a log-source conditioned field mapping must reach a correlation through nested correlations
    lm = prog.func("sigma.processing.conditions.rule.LogsourceCondition.match")
    rec = [c for c in walk_no_nested(lm.node) if isinstance(c, ast.Call) and call_name(c) == "self.match"]
    okrec = False
    for c in rec:
        gs = atomic_guards(guards_at(prog, lm, c))
        if ("isinstance(rule, SigmaCorrelationRule)", True) in gs and any("SigmaCorrelationRule" in g and "ref.rule" in g and p for g, p in gs) and unparse(c.args[0]) == "ref.rule":
            okrec = True
    if okrec:
        r.ok("C10.R4", lm.qual, "a correlation rule matches a log source condition through its referenced rules, recursively through referenced correlation rules", lm.loc)
    else:
        r.violation("C10.R4", lm.qual, "self.match(ref.rule) for SigmaRule and SigmaCorrelationRule references", "the log source condition no longer descends into referenced correlation rules: a log-source conditioned field mapping renames the base rules and inner correlations but leaves group-by, alias targets and the condition field of the outer correlation unmapped", lm.loc)
    r.rule("C10.R6", "condition operator, count, field and percentile reach the templates unchanged: op=correlation_condition_mapping[cond.op], count=cond.count, field=escape_and_quote_fieldref(cond.fieldref / rule.condition.fieldref), percentile=rule.condition.percentile; the operator table maps lt,lte,gt,gte,eq,neq to <,<=,>,>=,==,!=; the correlation template receives search, typing, timespan, aggregate, condition and group-by")
    _r6_condition_numbers(ctx)
    # the three template functions interpreted (sa.tabulate, Proxy): every converter they call is a recorder that answers with
    # a marker naming itself and its arguments; _format_template / str.format record what the template receives
    import types as _types
    from ..tabulate import Proxy as _Pt, call_method as _cmt, Raised as _Rt

    class SigmaCorrelationCondition:
        def __init__(self, **k): self.__dict__.update(k)
    class SigmaConversionError(Exception):
        def __init__(self, *a, **k): super().__init__(*[str(x) for x in a[2:3]])
    env_t = {"SigmaCorrelationCondition": SigmaCorrelationCondition, "SigmaConversionError": SigmaConversionError, "__import_stub__": True}
    IKt = {"max_steps": 6000, "behaviours": (NotImplementedError, SigmaConversionError, KeyError)}

    class _Tmpl(str):
        """a template text that reports what it is formatted with"""
        def format(self, *a, **k):  # noqa: A003
            received.setdefault(str(self), []).append(k)
            return f"FORMATTED[{self}]"
    received: dict = {}

    def marker(name):
        return lambda *a, **k: f"{name}({', '.join(map(repr, a))})"
    def backend(extra=None):
        attrs = {n_: marker(n_) for n_ in ("escape_and_quote_fieldref", "escape_and_quote_field", "convert_referenced_rules", "convert_timespan", "convert_correlation_search",
                                           "convert_correlation_typing", "convert_correlation_aggregation_fields_from_template", "convert_correlation_aggregation_groupby_from_template",
                                           "convert_extended_correlation_condition")}
        attrs["_format_template"] = lambda template, **k: (received.setdefault(str(template), []).append(k), f"FORMATTED[{template}]")[1]
        attrs["correlation_condition_mapping"] = {"OP-GTE": ">=!", "OP-LT": "<!"}
        for ct in ("event_count", "value_percentile"):
            attrs[f"{ct}_condition_expression"] = {"m": _Tmpl(f"{ct}-condition")}
            attrs[f"{ct}_aggregation_expression"] = {"m": _Tmpl(f"{ct}-aggregation")}
            attrs[f"{ct}_correlation_query"] = {"m": _Tmpl(f"{ct}-query")}
        attrs["default_correlation_query"] = None
        attrs.update(extra or {})
        return _Pt(prog, TQ, env_t, attrs, interp_kwargs=IKt)
    cond_ = SigmaCorrelationCondition(op="OP-GTE", count=7, fieldref="fr", percentile=95)
    rule_ = _types.SimpleNamespace(condition=cond_, referenced_rules=["RR"], fields=["F"], group_by=["G"], timespan="TS", source=None, rules=[])
    f = prog.func(TQ + ".convert_correlation_condition_from_template")
    received.clear()
    try:
        _cmt(prog, TQ, f.name, backend(), env_t, cond_, ["RR"], "event_count", "m", interp_kwargs=IKt)
        kw = (received.get("event_count-condition") or [{}])[0]
    except _Rt as ex:
        kw = {"<raised>": str(ex)}
    want = {"field": "escape_and_quote_fieldref('fr')", "op": ">=!", "count": 7}
    for k, v in want.items():
        if kw.get(k) == v:
            r.ok("C10.R6", f.qual, f"{k}: the condition template receives {v!r} for the condition (gte, 7, field fr) (interpreted)", f.loc)
        else:
            r.violation("C10.R6", f.qual, f"{k}={kw.get(k, kw.get('<raised>'))!r}", f"condition template must receive {k}={v!r} for the condition (op gte → the mapped operator, count 7, field fr escaped)", f.loc)
    a = prog.lookup_class_attr(TQ, "correlation_condition_mapping")
    if a:
        table = {unparse(k).split(".")[-1]: const_eval(prog, a[0].module, v) for k, v in zip(a[1].value.keys, a[1].value.values)}  # type: ignore[union-attr]
        want_t = {"LT": "<", "LTE": "<=", "GT": ">", "GTE": ">=", "EQ": "==", "NEQ": "!="}
        if table == want_t:
            r.ok("C10.R6", TQ, f"correlation_condition_mapping {table}")
        else:
            r.violation("C10.R6", TQ, f"correlation_condition_mapping {table}", f"expected {want_t}")
    g = prog.func(TQ + ".convert_correlation_aggregation_from_template")
    for cond_g, want_field, want_pct in ((cond_, "escape_and_quote_fieldref('fr')", 95), (SigmaCorrelationCondition(op="OP-LT", count=1, fieldref="x", percentile=None), "escape_and_quote_fieldref('x')", ""),
                                         (_types.SimpleNamespace(parsed="EXT"), "", "")):
        received.clear()
        rule_g = _types.SimpleNamespace(condition=cond_g, referenced_rules=["RR"], fields=["F"], group_by=["G"], timespan="TS", source=None, rules=[])
        try:
            _cmt(prog, TQ, g.name, backend(), env_t, rule_g, "event_count", "m", "SEARCH", interp_kwargs=IKt)
            kw = (received.get("event_count-aggregation") or [{}])[0]
        except _Rt as ex:
            kw = {"<raised>": str(ex)}
        want = {"field": want_field, "percentile": want_pct, "timespan": "convert_timespan('TS', 'm')", "search": "SEARCH",
                "groupby": "convert_correlation_aggregation_groupby_from_template(['G'], 'm')"}
        kind = "a basic condition" if isinstance(cond_g, SigmaCorrelationCondition) else "an extended condition"
        for k, v in want.items():
            if kw.get(k) == v:
                r.ok("C10.R6", g.qual, f"{k} passed through ({kind}{', no percentile' if want_pct == '' and kind.startswith('a basic') else ''})", g.loc)
            else:
                r.violation("C10.R6", g.qual, f"{k}={kw.get(k, kw.get('<raised>'))!r}", f"aggregation template must receive {k}={v!r} for {kind}", g.loc)
    h = prog.func(TQ + ".convert_correlation_rule_from_template")
    received.clear()
    try:
        out_h = _cmt(prog, TQ, h.name, backend({"convert_correlation_aggregation_from_template": marker("aggregation"), "convert_correlation_condition_from_template": marker("condition")}),
                     env_t, rule_, "event_count", "m", interp_kwargs=IKt)
        kw = (received.get("event_count-query") or [{}])[0]
    except _Rt as ex:
        out_h, kw = None, {"<raised>": str(ex)}
    want = {"search": "convert_correlation_search(" + repr(rule_) + ")", "typing": "convert_correlation_typing(" + repr(rule_) + ")", "timespan": "convert_timespan('TS', 'm')",
            "condition": "condition(" + ", ".join(map(repr, (cond_, ["RR"], "event_count", "m"))) + ")",
            "groupby": "convert_correlation_aggregation_groupby_from_template(['G'], 'm')",
            "aggregate": "aggregation(" + ", ".join(map(repr, (rule_, "event_count", "m", "convert_correlation_search(" + repr(rule_) + ")"))) + ")"}
    if out_h != ["FORMATTED[event_count-query]"] and "<raised>" not in kw:
        r.violation("C10.R6", h.qual, "template[method].format(...)", f"the correlation query is {out_h!r} instead of the one formatted query template", h.loc)
    for k, v in want.items():
        if kw.get(k) == v:
            r.ok("C10.R6", h.qual, f"{k} passed to the correlation query template", h.loc)
        else:
            r.violation("C10.R6", h.qual, f"{k}={str(kw.get(k, kw.get('<raised>')))[:80]!r}", f"correlation query template must receive {k} = the result of its converter for this rule", h.loc)
    gb = prog.func(TQ + ".convert_correlation_aggregation_groupby_from_template")
    # interpreted (sa.tabulate, Proxy) with marker templates: every field, in order, escaped; the no-field form without a list
    from ..tabulate import Proxy as _Pb, call_method as _cmb, Raised as _Rb
    IKb = {"max_steps": 4000, "behaviours": (NotImplementedError, KeyError, TypeError)}
    tmpl = {"groupby_expression": {"m": "BY({fields})", "other": "XX{fields}"}, "groupby_field_expression": {"m": "[{field}]", "other": "YY{field}"},
            "groupby_field_expression_joiner": {"m": ",", "other": ";"}, "groupby_expression_nofield": {"m": "NOFIELD", "other": "ZZ"}}
    bad_b = []
    for cfg, gby, want in ((tmpl, ["a", "b c", "a"], "BY([<a>],[<b c>],[<a>])"), (tmpl, ["x"], "BY([<x>])"), (tmpl, [], "BY()"), (tmpl, None, "NOFIELD"),
                           (dict(tmpl, groupby_expression_nofield=None), None, ""), (dict(tmpl, groupby_field_expression=None), ["a"], "NotImplementedError"),
                           (dict(tmpl, groupby_expression=None), ["a"], "NotImplementedError"), (dict(tmpl, groupby_field_expression_joiner=None), ["a"], "NotImplementedError")):
        me_b = _Pb(prog, TQ, {}, dict(cfg, escape_and_quote_field=lambda f_: f"<{f_}>"), interp_kwargs=IKb)
        try:
            got_b = _cmb(prog, TQ, gb.name, me_b, {}, gby, "m", interp_kwargs=IKb)
        except _Rb as ex:
            got_b = "NotImplementedError" if "NotImplementedError" in str(ex) else f"raises {ex}"
        if got_b != want:
            bad_b.append(f"group-by {gby!r} → {got_b!r} instead of {want!r}")
    if not bad_b:
        r.ok("C10.R6", gb.qual, "every group-by field, in order, escaped; the no-field form only without a list (interpreted on 8 configurations)", gb.loc)
    else:
        r.violation("C10.R6", gb.qual, "group-by rendering", f"group-by fields are not all rendered in order: {bad_b[0]}", gb.loc)
    r.floor("C10.R6", 14)


def r7_subquery_finalisation(ctx) -> None:
    r, prog = ctx.r, ctx.prog
    r.rule("C10.R7", "what is embedded and what is emitted, in both per-rule converters (plain and correlation rules alike): the stored conversion result is the raw query list iff the backend does not finalise sub-queries and the rule is referenced (embed_raw), the finalised list otherwise; the returned queries are always the finalised ones, and they are computed whenever the rule emits output")
    # both per-rule converters interpreted (sa.tabulate, Proxy) on a stand-in rule with two queries, for every combination of
    # (backend finalises sub-queries?, rule is referenced?, rule emits output?): what is stored and what is returned
    from .standins import run_per_rule_converter
    for fn in ("convert_rule", "convert_correlation_rule"):
        f = prog.func(f"{B}.{fn}")
        loc = f.loc
        wrong = {"stored": [], "returned": [], "computed": []}
        for fin_sub in (False, True):
            for referenced in (False, True):
                for output in (False, True):
                    o = run_per_rule_converter(ctx, fn, fin_sub, referenced, output)
                    if o.raised is not None:
                        wrong["returned"].append(f"(finalises sub-queries={fin_sub}, referenced={referenced}, output={output}): raises {o.raised}")
                        continue
                    stored, ret, finalised_calls = o.stored, o.ret, o.finalised_calls
                    raw = ["fin(c0)", "fin(c1)"]
                    final = [f"FINAL({q})" for q in raw]
                    embed_raw = (not fin_sub) and referenced
                    case = f"(backend finalises sub-queries={fin_sub}, rule referenced={referenced}, emits output={output})"
                    if stored != [raw if embed_raw else final]:
                        wrong["stored"].append(f"{case}: stored {stored}, expected {[raw if embed_raw else final]}")
                    if list(ret or []) != (final if output else []):
                        wrong["returned"].append(f"{case}: returned {ret}, expected {final if output else []}")
                    if (output or not embed_raw) and finalised_calls != raw:
                        wrong["computed"].append(f"{case}: finalize_query called with {finalised_calls}, expected {raw}")
        if not wrong["stored"]:
            r.ok("C10.R7", f.qual, "stored result: raw iff the backend does not finalise sub-queries and the rule is referenced (8 interpreted cases)", loc)
        else:
            r.violation("C10.R7", f.qual, f"rule.set_conversion_result(queries if embed_raw else finalized_queries): {wrong['stored'][0]}",
                        "the stored (embedded) result is not the raw list exactly when embed_raw: whether a referenced rule's queries are embedded raw must depend on the backend switch and on being referenced — for plain and for correlation rules alike (a nested correlation that is always finalised is embedded already wrapped by post-processing)", loc)
        if not wrong["returned"]:
            r.ok("C10.R7", f.qual, "returns the finalised queries exactly when the rule emits output", loc)
        else:
            r.violation("C10.R7", f.qual, f"return finalized_queries: {wrong['returned'][0]}", "a rule that emits output (generate: true) returns its raw query: no finalize_query_<format>, no post-processing items (or a rule without output emits queries)", loc)
        if not wrong["computed"]:
            r.ok("C10.R7", f.qual, "finalised queries are computed whenever they are stored or emitted", loc)
        else:
            r.violation("C10.R7", f.qual, f"finalized_queries = [...] if not embed_raw or rule._output else []: {wrong['computed'][0]}", "finalised queries are not computed for every case in which they are stored or emitted", loc)
    a = prog.lookup_class_attr(B, "finalize_correlation_subqueries")
    if a and unparse(a[1].value) == "False":
        r.ok("C10.R7", B, "finalize_correlation_subqueries defaults to False")
    else:
        r.violation("C10.R7", B, "finalize_correlation_subqueries default", "sub-query finalisation must be opt-in")
    r.floor("C10.R7", 7)
