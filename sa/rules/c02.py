"""C02 — condition text parses to the boolean function it spells (grammar read as data)."""
from __future__ import annotations

import ast
import string
from typing import Optional

from ..prog import AnalysisError, FuncInfo, call_name, short, stmt_head, unparse, walk_no_nested
from ..util import atomic_guards, const_eval, guards_at

MOD = "sigma.conditions"
REGEX_META = set(".^$+?{}[]\\|()")


def _module_assign(m, name: str) -> ast.AST:
    if name not in m.assigns:
        raise AnalysisError(f"anchor vanished: {m.name}.{name}")
    st = m.assigns[name][-1]
    return st.value  # type: ignore[attr-defined]


def _resolve_alias(m, e: ast.AST, depth: int = 0) -> ast.AST:
    """Follow module-level name aliases (not_op = Keyword(...))."""
    while isinstance(e, ast.Name) and e.id in m.assigns and depth < 5:
        e = m.assigns[e.id][-1].value  # type: ignore[attr-defined]
        depth += 1
    return e


def grammar_operator_check(ctx, rid: str, m, scope_node: ast.AST, ident_alphabet: str, where: str, local_assigns=None) -> int:
    """Check the operator table of the infix_notation call(s) below scope_node.  Returns #levels."""
    r, prog = ctx.r, ctx.prog
    n = 0

    def resolve(e: ast.AST) -> ast.AST:
        if local_assigns is not None:
            d = 0
            while isinstance(e, ast.Name) and e.id in local_assigns and d < 5:
                e = local_assigns[e.id]
                d += 1
            return e
        return _resolve_alias(m, e)

    for c in (x for x in ast.walk(scope_node) if isinstance(x, ast.Call) and call_name(x).split(".")[-1] in ("infix_notation", "infixNotation")):
        if len(c.args) < 2 or not isinstance(c.args[1], (ast.List, ast.Tuple)):
            raise AnalysisError(f"{where}: infix_notation operator table is not a literal list")
        for lvl in c.args[1].elts:
            if not isinstance(lvl, ast.Tuple) or len(lvl.elts) < 3:
                raise AnalysisError(f"{where}: operator level is not a literal tuple")
            n += 1
            op = resolve(lvl.elts[0])
            loc = f"{m.relpath}:{lvl.lineno}"
            if isinstance(op, ast.Constant) and isinstance(op.value, str):
                tok = op.value
                if set(tok) <= set(ident_alphabet):
                    r.violation(rid, where, f"operator {tok!r} given as bare string",
                                f"pyparsing turns the bare string {tok!r} into Literal, which matches a *prefix*: an identifier that begins with "
                                f"{tok!r} (e.g. '{tok}epad') is split into operator + rest instead of being read as a whole word", loc)
                else:
                    r.ok(rid, where, f"operator {tok!r} is not made of identifier characters", loc)
                continue
            if isinstance(op, ast.Call):
                kind = call_name(op).split(".")[-1]
                tok = None
                try:
                    tok = const_eval(prog, m, op.args[0]) if op.args else None
                except ValueError:
                    pass
                if kind in ("Literal", "CaselessLiteral", "Suppress"):
                    r.violation(rid, where, f"operator {tok!r} as {kind}", f"{kind} matches a prefix of longer identifiers (no word boundary)", loc)
                    continue
                if kind in ("Keyword", "CaselessKeyword"):
                    if kind == "CaselessKeyword":
                        r.violation(rid, where, f"operator {tok!r} as CaselessKeyword", "Sigma operators are lower-case keywords; a detection named 'AND' or 'Not' would be taken as operator", loc)
                        continue
                    ic = None
                    for kw in op.keywords:
                        if kw.arg in ("ident_chars", "identChars"):
                            ic = kw.value
                    if ic is None and len(op.args) > 1:
                        ic = op.args[1]
                    chars = string.ascii_letters + string.digits + "_$"
                    if ic is not None:
                        try:
                            chars = const_eval(prog, m, resolve(ic)) if not isinstance(resolve(ic), ast.Name) else const_eval(prog, m, ic)
                        except ValueError:
                            if local_assigns is not None and isinstance(ic, ast.Name) and ic.id in local_assigns:
                                chars = const_eval(prog, m, local_assigns[ic.id])
                            else:
                                raise AnalysisError(f"{where}: ident_chars of Keyword({tok!r}) is not a constant")
                    missing = set(ident_alphabet) - set(chars)
                    if missing:
                        r.violation(rid, where, f"Keyword({tok!r}) word boundary",
                                    f"identifier characters {sorted(missing)} do not count as word characters for this keyword: "
                                    f"a name such as '{tok}{sorted(missing)[0]}x' is split into operator + rest", loc)
                    else:
                        r.ok(rid, where, f"Keyword({tok!r}) with word characters ⊇ identifier alphabet", loc)
                    continue
            raise AnalysisError(f"{where}: operator element {short(op, 60)} not recognised")
    return n


def run(ctx) -> None:
    r, prog = ctx.r, ctx.prog
    m = prog.module(MOD)
    r.explanation = (
        "The condition grammar is data: the pyparsing objects in sigma/conditions.py are extracted and evaluated (alphabets, "
        "keyword word-boundaries, the infix_notation precedence table, operand alternative order, parse_all), the parse actions' "
        "token arithmetic is matched against the arity constants of the classes they build, the selector resolver is checked for "
        "regex-safe alphabet, fullmatch, the underscore predicate and the quantifier table, and every call site of the cached "
        "parser copies deeply. Evaluation of parsed trees over truth assignments is not performed.")
    try:
        ident_alpha = const_eval(prog, m, _resolve_alias(m, _module_assign(m, "identifier")).args[0])  # type: ignore[attr-defined]
        pat_alpha = const_eval(prog, m, _resolve_alias(m, _module_assign(m, "identifier_pattern")).args[0])  # type: ignore[attr-defined]
    except (ValueError, AttributeError, IndexError) as e:
        raise AnalysisError(f"{MOD}: identifier alphabets are not Word(<constant>): {e}")
    r.analysed["C02.identifier_alphabet"] = "".join(sorted(set(ident_alpha)))
    r.analysed["C02.pattern_alphabet"] = "".join(sorted(set(pat_alpha)))

    # ---- R1
    r.rule("C02.R1", "every operator/quantifier token of the condition grammar is a case-sensitive Keyword whose word characters include the whole identifier alphabet")
    cond_expr = _module_assign(m, "condition")
    n = grammar_operator_check(ctx, "C02.R1", m, cond_expr, ident_alpha, MOD + ".condition")
    q = _module_assign(m, "quantifier")
    sel = _module_assign(m, "selector")
    for e, nm in ((q, "quantifier"), (sel, "selector")):
        for c in (x for x in ast.walk(e) if isinstance(x, (ast.Call, ast.Constant))):
            loc = f"{m.relpath}:{e.lineno}"
            if isinstance(c, ast.Call) and call_name(c).split(".")[-1] in ("Keyword",):
                r.ok("C02.R1", f"{MOD}.{nm}", unparse(c), loc)
            elif isinstance(c, ast.Call) and call_name(c).split(".")[-1] in ("Literal", "CaselessKeyword", "CaselessLiteral", "oneOf", "one_of"):
                r.violation("C02.R1", f"{MOD}.{nm}", unparse(c), "quantifier/'of' token is not a case-sensitive Keyword", loc)
            elif isinstance(c, ast.Constant) and isinstance(c.value, str) and not isinstance(prog.parent(c), ast.Call):
                r.violation("C02.R1", f"{MOD}.{nm}", repr(c.value), "bare string in the selector grammar becomes a prefix-matching Literal", loc)
    r.floor("C02.R1", 7)

    # ---- R2 precedence table
    r.rule("C02.R2", "infix_notation levels are (not, unary, RIGHT, ConditionNOT), (and, binary, LEFT, ConditionAND), (or, binary, LEFT, ConditionOR) in this order; operand tries selector before identifier; the parse site uses parse_all=True")
    call = next((x for x in ast.walk(cond_expr) if isinstance(x, ast.Call) and call_name(x).split(".")[-1] == "infix_notation"), None)
    if call is None:
        raise AnalysisError(f"{MOD}.condition is not an infix_notation(...) expression")
    want = [("not", 1, "RIGHT", "ConditionNOT"), ("and", 2, "LEFT", "ConditionAND"), ("or", 2, "LEFT", "ConditionOR")]
    got = []
    for lvl in call.args[1].elts:  # type: ignore[attr-defined]
        op = _resolve_alias(m, lvl.elts[0])
        tok = op.value if isinstance(op, ast.Constant) else (const_eval(prog, m, op.args[0]) if isinstance(op, ast.Call) and op.args else None)
        arity = const_eval(prog, m, lvl.elts[1])
        assoc = unparse(lvl.elts[2]).split(".")[-1]
        action = unparse(lvl.elts[3]).split(".")[0] if len(lvl.elts) > 3 else None
        actm = unparse(lvl.elts[3]).split(".")[-1] if len(lvl.elts) > 3 else None
        got.append((tok, arity, assoc, action))
        if actm != "from_parsed":
            r.violation("C02.R2", MOD + ".condition", unparse(lvl), "parse action is not <class>.from_parsed", f"{m.relpath}:{lvl.lineno}")
    loc = f"{m.relpath}:{call.lineno}"
    if got == want:
        r.ok("C02.R2", MOD + ".condition", f"levels {got}", loc)
    else:
        for i, (g, w) in enumerate(zip(got + [None] * 3, want)):
            if g != w:
                r.violation("C02.R2", MOD + ".condition", f"level {i + 1}: {g}", f"expected {w}: NOT binds tighter than AND, AND tighter than OR, binary operators associate left", loc)
        if len(got) != 3:
            r.violation("C02.R2", MOD + ".condition", f"{len(got)} levels", "exactly three precedence levels expected", loc)
    operand = _resolve_alias(m, call.args[0])
    if isinstance(operand, ast.BinOp) and isinstance(operand.op, (ast.BitOr, ast.BitXor)):
        l, rr = unparse(operand.left), unparse(operand.right)
        if isinstance(operand.op, ast.BitOr) and (l, rr) == ("selector", "identifier"):
            r.ok("C02.R2", MOD + ".operand", "selector | identifier (selector tried first)", f"{m.relpath}:{operand.lineno}")
        else:
            r.violation("C02.R2", MOD + ".operand", unparse(operand),
                        "the operand alternative must try `selector` before `identifier` (first match wins): with identifier first, '1 of x' is read as the identifier '1'", f"{m.relpath}:{operand.lineno}")
    else:
        raise AnalysisError(f"{MOD}.operand shape not recognised: {short(operand, 80)}")
    sel_e = _resolve_alias(m, sel)
    if unparse(sel_e).replace(" ", "") == "quantifier+Keyword('of')+identifier_pattern":
        r.ok("C02.R2", MOD + ".selector", unparse(sel_e), f"{m.relpath}:{sel_e.lineno}")
    else:
        raise AnalysisError(f"{MOD}.selector shape not recognised: {short(sel_e, 80)}")
    qtoks = sorted(const_eval(prog, m, c.args[0]) for c in ast.walk(q) if isinstance(c, ast.Call) and c.args)
    if qtoks == ["1", "all", "any"]:
        r.ok("C02.R2", MOD + ".quantifier", f"quantifiers {qtoks}", f"{m.relpath}:{q.lineno}")
    else:
        r.violation("C02.R2", MOD + ".quantifier", str(qtoks), "quantifier set differs from {1, any, all}", f"{m.relpath}:{q.lineno}")
    # parse actions attached to the right elements
    acts = {}
    for st in m.tree.body:
        if isinstance(st, ast.Expr) and isinstance(st.value, ast.Call) and call_name(st.value).endswith(".set_parse_action"):
            acts[call_name(st.value).split(".")[0]] = unparse(st.value.args[0])
    for el, act in (("identifier", "ConditionIdentifier.from_parsed"), ("selector", "ConditionSelector.from_parsed")):
        if acts.get(el) == act:
            r.ok("C02.R2", f"{MOD}.{el}", f"parse action {act}")
        else:
            r.violation("C02.R2", f"{MOD}.{el}", f"parse action {acts.get(el)}", f"expected {act}")
    pf = prog.func(MOD + "._parse_condition_string")
    pcs = [c for c in walk_no_nested(pf.node) if isinstance(c, ast.Call) and call_name(c).endswith(("parse_string", "parseString"))]
    if len(pcs) != 1:
        raise AnalysisError(f"{pf.qual}: expected exactly one parse_string call")
    pa = [kw for kw in pcs[0].keywords if kw.arg in ("parse_all", "parseAll")]
    if pa and isinstance(pa[0].value, ast.Constant) and pa[0].value.value is True and call_name(pcs[0]).split(".")[0] == "condition":
        r.ok("C02.R2", pf.qual, unparse(pcs[0]), pf.loc)
    else:
        r.violation("C02.R2", pf.qual, unparse(pcs[0]), "the whole condition string must be consumed (parse_all=True) by the `condition` grammar: trailing garbage would be ignored", pf.loc)
    r.floor("C02.R2", 7)

    r3_parse_actions(ctx, m)
    r4_selector(ctx, m, pat_alpha)
    r5_cache(ctx)
    r6_filter_condition_rewrite(ctx)
    r7_detection_names_whole(ctx)


def r3_parse_actions(ctx, m) -> None:
    r, prog = ctx.r, ctx.prog
    r.rule("C02.R3", "ConditionItem.from_parsed takes the last token for unary and every second token for n-ary levels, builds exactly [cls(args)], and the arity constants of the classes match the grammar element they are attached to")
    fp = prog.func(MOD + ".ConditionItem.from_parsed")
    canonical = {
        ("cls.arg_count == 1", "cls.token_list"): "[t[0]]",
        ("cls.arg_count == 1", "isinstance(t, ParseResults)"): "[t[0][-1]]",
        ("cls.arg_count > 1", "cls.token_list"): "t[0::2]",
        ("cls.arg_count > 1", "isinstance(t, ParseResults)"): "t[0][0::2]",
    }
    seen = set()
    for n in walk_no_nested(fp.node):
        loc = f"{m.relpath}:{getattr(n, 'lineno', fp.node.lineno)}"
        is_args_store = isinstance(n, ast.Assign) and any(unparse(t) == "args" for t in n.targets)
        is_args_mut = (isinstance(n, ast.Call) and isinstance(n.func, ast.Attribute) and unparse(n.func.value) == "args"
                       and n.func.attr in ("append", "extend", "insert", "pop", "remove", "clear", "reverse", "sort")) \
            or (isinstance(n, ast.AugAssign) and unparse(n.target) == "args") \
            or (isinstance(n, ast.Subscript) and isinstance(n.ctx, (ast.Store, ast.Del)) and unparse(n.value) == "args")
        if not (is_args_store or is_args_mut):
            continue
        gs = atomic_guards(guards_at(prog, fp, n))
        gtrue = {t for t, p in gs if p}
        if is_args_store:
            val = unparse(n.value).replace(" ", "")
            key = None
            for (g1, g2), expr in canonical.items():
                if g1 in gtrue and g2 in gtrue:
                    key = (g1, g2)
            if key is not None:
                seen.add(key)
                if val == canonical[key].replace(" ", ""):
                    r.ok("C02.R3", fp.qual, f"{' and '.join(key)}: args = {unparse(n.value)}", loc)
                else:
                    r.violation("C02.R3", fp.qual, f"{' and '.join(key)}: args = {unparse(n.value)}",
                                f"expected args = {canonical[key]} (unary operator: last token; n-ary: every second token, skipping the operator tokens)", loc)
                continue
            if val in ("list()", "[]") and not (gtrue & {"cls.arg_count == 1", "cls.arg_count > 1"}):
                r.ok("C02.R3", fp.qual, "fallback args = list() for classes without arguments", loc)
                continue
        # any other rewrite of args: must be confined to n-ary classes (flattening AND/OR keeps the function; for NOT it drops a negation)
        if "cls.arg_count > 1" in gtrue or "cls.arg_count == 2" in gtrue or ("cls.arg_count == 1", False) in gs:
            r.ok("C02.R3", fp.qual, f"{short(n, 80)} rewrites args for n-ary classes only", loc)
        else:
            r.violation("C02.R3", fp.qual, short(n, 120),
                        "the extracted arguments are rewritten for unary classes too: merging/flattening the argument of a NOT node changes the boolean function (not not a ≠ not a)", loc)
    for key in canonical:
        if key not in seen:
            r.violation("C02.R3", fp.qual, " and ".join(key), f"branch extracting {canonical[key]} not found", fp.loc)
    rets = [x for x in walk_no_nested(fp.node) if isinstance(x, ast.Return)]
    if len(rets) == 1 and unparse(rets[0].value).replace(" ", "") == "[cls(args)]":
        r.ok("C02.R3", fp.qual, "return [cls(args)]", f"{m.relpath}:{rets[0].lineno}")
    else:
        for rt in rets:
            if unparse(rt.value).replace(" ", "") != "[cls(args)]":
                r.violation("C02.R3", fp.qual, stmt_head(rt), "parse action must build exactly one node of its own class from the extracted arguments", f"{m.relpath}:{rt.lineno}")
    # overrides of from_parsed in subclasses
    for sub in prog.subclasses(MOD + ".ConditionItem", strict=True):
        if "from_parsed" in prog.classes[sub].methods:
            r.violation("C02.R3", sub, "def from_parsed", "parse action overridden in a subclass; arity table no longer applies", prog.classes[sub].methods["from_parsed"].loc)
    consts = {"ConditionNOT": (1, False), "ConditionAND": (2, False), "ConditionOR": (2, False), "ConditionIdentifier": (1, True), "ConditionSelector": (2, True)}
    for cn, (ac, tl) in consts.items():
        c = prog.cls(f"{MOD}.{cn}")
        a = prog.lookup_class_attr(c.qual, "arg_count")
        t = prog.lookup_class_attr(c.qual, "token_list")
        av = const_eval(prog, m, a[1].value) if a and getattr(a[1], "value", None) is not None else None
        tv = const_eval(prog, m, t[1].value) if t and getattr(t[1], "value", None) is not None else False
        loc = f"{m.relpath}:{c.node.lineno}"
        if (av, bool(tv)) == (ac, tl):
            r.ok("C02.R3", c.qual, f"arg_count={av}, token_list={tv}", loc)
        else:
            r.violation("C02.R3", c.qual, f"arg_count={av}, token_list={tv}", f"expected arg_count={ac}, token_list={tl} for the grammar element this class is attached to", loc)
    # postprocess keeps the operator structure: tabulated over operator arity x surviving arguments x argument kind
    from ..tabulate import Interp, Raised
    pp = prog.func(MOD + ".ConditionItem.postprocess")

    class _Leaf:
        parent = None

        def postprocess(self, detections, parent, source=None):
            self.parent = parent
            return self

    class ConditionNOT:  # stand-ins named like the real classes (the body may test isinstance)
        arg_count = 1

        parent = None

        def __init__(self, args):
            self.args = args

        def postprocess(self, detections, parent, source=None):
            self.parent = parent
            return self

    class ConditionAND(ConditionNOT):
        arg_count = 2

    class ConditionOR(ConditionNOT):
        arg_count = 2

    class _Super:
        def postprocess(self, *a, **k):
            return None

    wrong = []
    ncase = 0
    for cls_ in (ConditionNOT, ConditionAND, ConditionOR):
        for args in ([], [None], [_Leaf()], [ConditionNOT([_Leaf()])], [_Leaf(), _Leaf()], [None, _Leaf()], [ConditionNOT([_Leaf()]), ConditionNOT([_Leaf()])]):
            me = cls_(list(args))
            live = [a for a in args if a is not None]
            if cls_.arg_count == 1 and len(args) > 1:
                continue
            outer = object()
            it = Interp({"self": me, "detections": None, "parent": outer, "source": None, "super": lambda: _Super(),
                         "ConditionNOT": ConditionNOT, "ConditionAND": ConditionAND, "ConditionOR": ConditionOR})
            try:
                got = it.call(pp.node.body)
            except Raised as e:
                got = f"<raises {e}>"
            if cls_.arg_count > 1 and len(live) == 1:
                want = live[0]
            elif len(live) == 0:
                want = None
            else:
                want = me
            ncase += 1
            if got is want and want is not me and want is not None and getattr(got, "parent", None) is not outer:
                wrong.append(f"{cls_.__name__} with arguments {[type(a).__name__ for a in args]}: the returned argument still has the vanished operator as parent (parent-chain decisions — grouping, negation — see an operator that is not in the tree)")
            if got is not want:
                wrong.append(f"{cls_.__name__} with arguments {[type(a).__name__ for a in args]}: returns {type(got).__name__ if not isinstance(got, str) else got}{' (its argument)' if got in live else ''} instead of {'itself' if want is me else type(want).__name__}")
    if wrong:
        r.violation("C02.R3", pp.qual, f"postprocess table: {wrong[0]}", f"{len(wrong)} of {ncase} tabulated cases deviate: postprocess may only collapse an n-ary operator with a single surviving argument (to that argument) or an operator without arguments (to None); any other rewrite changes the boolean function (e.g. returning the inner NOT of a double negation negates once instead of twice)", pp.loc)
    else:
        r.ok("C02.R3", pp.qual, f"postprocess tabulated over {ncase} cases (NOT/AND/OR x 0/1/2 surviving arguments x leaf/NOT arguments): collapses only single-argument n-ary operators and empty operators", pp.loc)
    r.floor("C02.R3", 11)


SEL_NAMES = ["sel", "sel_1", "sel-2", "selection", "_a", "_b", "_filt_abcdefghij_flt", "_filt_abcdefghij_sel_1", "_cond_xyz", "filter", "Sel"]
SEL_PATTERNS = ["them", "sel*", "sel_*", "*_1", "sel", "_*", "_f*", "_filt*", "_filt_abcdefghij_*", "_filt_abcdefghij_sel*", "*", "s*n", "*l*", "nomatch*", "_a", "sel_*_1", "s*l*n"]


def _r4_selection_table(ctx, fi: FuncInfo) -> None:
    """Which detections a selector pattern denotes, tabulated: resolve_referenced_detections is interpreted (sa.tabulate, the
    real `re` module as the only library) for each pattern over a map of detection names; the result must be exactly the
    names that (1) match the pattern as a whole with '*' as the only wildcard ('them' = every name), (2) start with '_' only
    if the pattern does, (3) carry the filter prefix '_filt_' only if the pattern carries it (filter-internal patterns)."""
    import re as _re
    from ..tabulate import Interp, Raised
    r, prog = ctx.r, ctx.prog

    class _CI:
        def __init__(self, args):
            self.name = args[0]

    dets = type("D", (), {})()
    dets.detections = {n: object() for n in SEL_NAMES}
    bad = []
    for pat in SEL_PATTERNS:
        me = type("S", (), {})()
        me.pattern = pat
        it = Interp({"self": me, "detections": dets, "re": _re, "ConditionIdentifier": _CI}, max_steps=5000)
        try:
            out = it.call(fi.node.body)
        except Raised as ex:
            bad.append((pat, f"raises {ex}"))
            continue
        got = [x.name for x in out]
        rx = _re.compile(".*" if pat == "them" else ".*".join(_re.escape(x) for x in pat.split("*")))
        want = [n for n in SEL_NAMES if rx.fullmatch(n) and (pat.startswith("_") or not n.startswith("_")) and (pat.startswith("_filt_") or not n.startswith("_filt_"))]
        if got != want:
            extra, missing = [n for n in got if n not in want], [n for n in want if n not in got]
            bad.append((pat, f"selects {got}, denoted are {want}" + (f" — captured: {extra}" if extra else "") + (f" — missed: {missing}" if missing else "")))
    if bad:
        pat, why = bad[0]
        r.violation("C02.R4", fi.qual, f"selector pattern {pat!r}", f"{why} (+{len(bad) - 1} more pattern(s)): a pattern denotes the detection names it matches as a whole ('*' the only wildcard); tool-injected '_…' names belong to patterns that start with '_', and the renamed detections of an applied filter ('_filt_<random>_…') only to that filter's own patterns — captured by a rule pattern such as '1 of _*' the rule fires on every event the filter matches", fi.loc)
    else:
        r.ok("C02.R4", fi.qual, f"selection table: {len(SEL_PATTERNS)} patterns x {len(SEL_NAMES)} detection names interpreted — whole-name match, underscore and filter-prefix predicates as specified", fi.loc)


def r4_selector(ctx, m, pat_alpha: str) -> None:
    r, prog = ctx.r, ctx.prog
    r.rule("C02.R4", "selector resolution: pattern alphabet has no regex metacharacter besides '*', the pattern is compiled from replace('*', '.*') and applied with fullmatch over all detection names, 'them' matches all, '_…' names only for '_…' patterns and '_filt_…' names only for '_filt_…' patterns (selection table interpreted over sample names), quantifiers map 1|any→OR and all→AND")
    loc = f"{m.relpath}:{_module_assign(m, 'identifier_pattern').lineno}"
    meta = (set(pat_alpha) - {"*"}) & REGEX_META
    if meta:
        r.violation("C02.R4", MOD + ".identifier_pattern", f"alphabet {''.join(sorted(set(pat_alpha)))!r}", f"pattern alphabet contains regex metacharacters {sorted(meta)} that reach re.compile unescaped", loc)
    else:
        r.ok("C02.R4", MOD + ".identifier_pattern", "pattern alphabet minus '*' contains no regex metacharacter", loc)
    # every detection name must be reachable by a pattern: pattern alphabet ⊇ identifier alphabet
    try:
        ident_alpha = const_eval(prog, m, _resolve_alias(m, _module_assign(m, "identifier")).args[0])
    except Exception:
        ident_alpha = None
    if ident_alpha is not None:
        missing = set(ident_alpha) - set(pat_alpha)
        if missing:
            r.violation("C02.R4", MOD + ".identifier_pattern", f"pattern alphabet lacks {''.join(sorted(missing))!r}", f"detection names may contain {sorted(missing)} but no selector pattern can: '1 of sel-*' is a syntax error although 'sel-1 or sel-2' parses", loc)
        else:
            r.ok("C02.R4", MOD + ".identifier_pattern", "pattern alphabet ⊇ identifier alphabet", loc)
    sp = prog.func(MOD + ".ConditionSelector.postprocess")
    ctor = [c for c in walk_no_nested(sp.node) if isinstance(c, ast.Call) and call_name(c) == "self.cond_class"]
    if ctor and any(g.replace(" ", "") in ("len(ids)==0", "notids") and not p or g.replace(" ", "") in ("ids", "len(ids)>0") and p for g, p in atomic_guards(guards_at(prog, sp, ctor[0]))) \
            and any(isinstance(x, ast.Raise) and "SigmaConditionError" in unparse(x) for x in walk_no_nested(sp.node)):
        r.ok("C02.R4", sp.qual, "a selector that matches no detection is a SigmaConditionError (no operator without operands is built)", sp.loc)
    else:
        r.violation("C02.R4", sp.qual, "self.cond_class(ids) for an empty match", "a selector that matches no detection builds an operator without operands, which the n-ary converters drop: 'a or 1 of x*' and 'a and 1 of x*' both convert to a, 'not 1 of x*' to nothing — the condition no longer denotes the function it spells", sp.loc)
    if "*" not in pat_alpha or "_" not in pat_alpha:
        r.violation("C02.R4", MOD + ".identifier_pattern", f"alphabet {''.join(sorted(set(pat_alpha)))!r}", "pattern alphabet must contain '*' and '_'", loc)
    fi = prog.func(MOD + ".ConditionSelector.resolve_referenced_detections")
    _r4_selection_table(ctx, fi)
    # quantifier table
    pi = prog.func(MOD + ".ConditionSelector.__post_init__")
    table = {}
    for n in walk_no_nested(pi.node):
        if isinstance(n, ast.Assign) and unparse(n.targets[0]) == "self.cond_class":
            for t, p in atomic_guards(guards_at(prog, pi, n)):
                if p and t.startswith("self.args[0]"):
                    table[t.replace('"', "'")] = unparse(n.value)
    want = {"self.args[0] in ['1', 'any']": "ConditionOR", "self.args[0] == 'all'": "ConditionAND"}
    if table == want:
        r.ok("C02.R4", pi.qual, "1|any → ConditionOR, all → ConditionAND", pi.loc)
    else:
        r.violation("C02.R4", pi.qual, str(table), f"quantifier table differs from {want}", pi.loc)
    pat = [n for n in walk_no_nested(pi.node) if isinstance(n, ast.Assign) and unparse(n.targets[0]) == "self.pattern"]
    if pat and unparse(pat[0].value) == "self.args[1]":
        r.ok("C02.R4", pi.qual, "pattern = args[1]", pi.loc)
    else:
        r.violation("C02.R4", pi.qual, "self.pattern = self.args[1]", "selector pattern is not the second token", pi.loc)
    # postprocess builds cond_class(ids) and recurses
    pp = prog.func(MOD + ".ConditionSelector.postprocess")
    src = unparse(pp.node)
    if "self.resolve_referenced_detections(detections)" in src and "self.cond_class(" in src and "cond.postprocess(detections, parent, source)" in src:
        r.ok("C02.R4", pp.qual, "selector → cond_class(resolved identifiers).postprocess(...)", pp.loc)
    else:
        r.violation("C02.R4", pp.qual, "ConditionSelector.postprocess", "selector is no longer replaced by cond_class over exactly the resolved identifiers", pp.loc)
    r.floor("C02.R4", 7)


def r5_cache(ctx) -> None:
    from . import c15
    ctx.r.rule("C02.R5", "results of the lru_cache'd condition parser are deep-copied at every call site")
    before = len(ctx.r.obligations)
    c15.r2_cache_copies(ctx)
    # re-label the obligations produced by the shared rule
    for o in ctx.r.obligations[before:]:
        o["rule"] = "C02.R5"
    for f in ctx.r.findings:
        if f.rule == "C15.R2":
            f.rule = "C02.R5"
    ctx.r.rule_counts["C02.R5"] = ctx.r.rule_counts.pop("C15.R2", 0)
    ctx.r.rule_text.pop("C15.R2", None)


# ---------------------------------------------------------------------------------------------------------------------
FILTER_SAMPLES = [  # filter condition -> the same condition over the renamed detections (P = the drawn prefix)
    ("not ex", "not P_ex"),
    ("not all", "not P_all"),
    ("not any and not of", "not P_any and not P_of"),
    ("not them", "not P_them"),
    ("not 1", "not P_1"),
    ("all of ex*", "all of P_ex*"),
    ("1 of them", "1 of P_*"),
    ("not (1 of all*)", "not (1 of P_all*)"),
    ("any of them and not all", "any of P_* and not P_all"),
    ("not (ex or all of of*)", "not (P_ex or all of P_of*)"),
    ("1 of *_allow", "1 of P_*_allow"),
    ("not (  flt )", "not (  P_flt )"),
    ("not ex-1 or not_x", "not P_ex-1 or P_not_x"),
    ("1 of 1", "1 of P_1"),
]


def interpret_filter_application(ctx, cond: str, rule_detections=None, draws=("x",)):
    """Interpret SigmaFilter.apply_on_rule (sa.tabulate; nothing of pySigma runs) for a filter with condition ``cond`` whose
    detections are the plain names in it, applied to a stand-in rule (detections ``rule_detections``, condition 'sel').
    ``draws`` are the letters the stand-in random module returns for successive draws. Returns (rule stand-in, filter names)."""
    from ..tabulate import Interp
    import re as _re
    prog = ctx.prog
    f = prog.func("sigma.filters.SigmaFilter.apply_on_rule")
    cls = prog.cls("sigma.filters.SigmaFilter")
    consts = {}
    for name, sts in cls.assigns.items():
        for st in sts:
            v = getattr(st, "value", None)
            if v is not None and name.startswith("_CONDITION"):
                try:
                    consts[name] = const_eval(prog, f.module, v)
                except Exception:
                    pass

    class _Corr:
        pass

    class _Det:
        def __init__(self):
            self.detections = dict(rule_detections or {"sel": "D(sel)"})
            self.condition = ["sel"]

        def __post_init__(self):
            return None

    class _Rule:
        def __init__(self):
            self.detection = _Det()

    state = {"n": 0}

    class _Rand:
        @staticmethod
        def choices(pop, k=1, **kw):
            c = draws[min(state["n"], len(draws) - 1)]
            state["n"] += 1
            return [c] * k

        @staticmethod
        def choice(pop):
            c = draws[min(state["n"] // 10, len(draws) - 1)]
            state["n"] += 1
            return c

    names = sorted(set(_re.findall(r"[A-Za-z0-9_*-]+", cond)) - {"not", "and", "or"})
    filt = type("F", (), {})()
    filt.detections = {n: f"D({n})" for n in names if "*" not in n}
    filt.condition = [cond]
    me = type("S", (), {})()
    me.filter = filt
    me._should_apply_on_rule = lambda rule: True
    for k, v in consts.items():
        setattr(me, k, v)
    rule = _Rule()
    env = {"self": me, "rule": rule, "SigmaCorrelationRule": _Corr, "random": _Rand, "re": _re,
           "string": type("string", (), {"ascii_lowercase": "abcdefghijklmnopqrstuvwxyz"}),
           "copy": type("copy", (), {"deepcopy": staticmethod(lambda x: x), "copy": staticmethod(lambda x: x)})}
    it = Interp(env, max_steps=20000)
    it.call(f.node.body)
    return rule, filt


def filter_rewrite_failures(ctx, samples) -> list[tuple[str, str]]:
    from ..tabulate import Raised
    bad = []
    for cond, want in samples:
        try:
            rule, filt = interpret_filter_application(ctx, cond)
        except Raised as ex:
            bad.append((cond, f"raises {ex}"))
            continue
        got = rule.detection.condition[0]
        prefixes = {k[:-len("_" + n)] for k in rule.detection.detections for n in filt.detections if k.endswith("_" + n) and k != n}
        if len(prefixes) != 1:
            bad.append((cond, f"detections renamed inconsistently: {sorted(rule.detection.detections)}"))
            continue
        P = prefixes.pop()
        exp = "(sel) and (" + want.replace("P_", P + "_") + ")"
        if not P.startswith("_filt_"):
            bad.append((cond, f"the drawn prefix is {P!r}: it must start with the reserved '_filt_' (rule selectors keep away from exactly these names)"))
        elif got != exp:
            bad.append((cond, f"is rewritten to {got!r}, the grammar reads it as {exp!r}"))
    return bad


def prefix_redraw_failures(ctx) -> list[str]:
    """The drawn prefix must not be one that names of the rule's detection map already start with: such a name would be
    overwritten (same name) or captured by the filter's own patterns (`them` → `<prefix>_*`). apply_on_rule is interpreted
    with a random stand-in that returns x…x first and y…y afterwards."""
    from ..tabulate import Raised
    problems = []
    scenarios = [
        ("the rule owns a detection with the drawn prefix and the filter detection's name", "flt", {"sel": "D(sel)", "_filt_xxxxxxxxxx_flt": "D(own)"}),
        ("the rule owns a detection with the drawn prefix under another name (an earlier filter drew the same prefix)", "1 of them", {"sel": "D(sel)", "_filt_xxxxxxxxxx_other": "D(own)"}),
        ("another name, filter condition by pattern", "not 1 of f*", {"sel": "D(sel)", "_filt_xxxxxxxxxx_f0": "D(own)"}),
    ]
    for what, cond, dets in scenarios:
        try:
            rule_, filt_ = interpret_filter_application(ctx, cond, rule_detections=dets, draws=("x", "y"))
        except Raised as ex:
            problems.append(f"{what}: raises {ex}")
            continue
        got = rule_.detection.detections
        own = [k for k in dets if k.startswith("_filt_")][0]
        new = [k for k in got if k not in dets]
        if got.get(own) != "D(own)":
            problems.append(f"{what}: the rule's detection {own} is overwritten ({got.get(own)})")
        elif any(k.startswith("_filt_xxxxxxxxxx_") for k in new):
            problems.append(f"{what}: the colliding prefix is kept (new detections {new}); the filter's patterns '_filt_xxxxxxxxxx_*' then capture {own}, which is not a detection of this filter — the converted query depends on the random draw")
    return problems


def r6_filter_condition_rewrite(ctx) -> None:
    """A filter's condition is spliced into the rule's condition as text: its detections are renamed with a drawn prefix
    and the condition text is rewritten token by token. The rewriting must classify the words like the grammar does:
    not/and/or are operators, 1|any|all are quantifiers only in front of `of`, `of` only behind a quantifier, `them` only
    as the pattern of a selector — everything else is a detection name (whole word) and gets the prefix."""
    r, prog = ctx.r, ctx.prog
    r.rule("C02.R6", "filter condition rewriting reads words like the condition grammar: SigmaFilter.apply_on_rule, interpreted on sample conditions (sa.tabulate; stand-ins for rule, filter and the random module), renames every detection name — also one called all/any/of/them/1 — and leaves operators and selector keywords alone")
    f = prog.func("sigma.filters.SigmaFilter.apply_on_rule")
    bad = filter_rewrite_failures(ctx, FILTER_SAMPLES)
    if bad:
        cond, why = bad[0]
        r.violation("C02.R6", f.qual, f"filter condition {cond!r}", f"{why} (+{len(bad) - 1} more sample(s)): a detection name is a whole word wherever the grammar expects an operand; a keyword left unprefixed refers to a detection that was renamed (error) or to a detection of the rule itself (silently another function)", f.loc)
    else:
        r.ok("C02.R6", f.qual, f"apply_on_rule interpreted on {len(FILTER_SAMPLES)} filter conditions: operators and selector keywords kept, every detection name prefixed", f.loc)
    r.floor("C02.R6", 1)


def r7_detection_names_whole(ctx) -> None:
    """Every key of the detection section except the reserved ones is a detection, whatever its name: the loaders are
    interpreted (sa.tabulate) on a section whose detections are called like fragments of the reserved words."""
    from ..tabulate import Interp, Raised
    r, prog = ctx.r, ctx.prog
    r.rule("C02.R7", "detection names are whole words for the loader too: SigmaDetections.from_dict and SigmaGlobalFilter.from_dict, interpreted on a detection section with detections named c, on, it, cond, rule, les, sel, keep exactly these as detections (reserved keys are compared as whole keys, not as substrings)")
    names = ["c", "on", "it", "cond", "ion", "rule", "les", "sel", "1", "conditions"]

    class _Exc:
        def __getattr__(self, n):
            return type(n, (Exception,), {})
    for q, reserved in (("sigma.rule.detection.SigmaDetections.from_dict", {"condition": "sel"}),
                        ("sigma.filters.SigmaGlobalFilter.from_dict", {"condition": "sel", "rules": "any"})):
        if not prog.has_func(q):
            continue
        f = prog.func(q)
        got = {}

        def cls(**kw):
            got.update(kw)
            return "obj"
        section = {n: {"f": n} for n in names}
        section.update(reserved)
        det = type("SigmaDetection", (), {"from_definition": staticmethod(lambda definition, source=None: ("D", definition["f"]))})
        it = Interp({"cls": cls, "detections": section, "source": None, "SigmaDetection": det, "sigma_exceptions": _Exc(), "KeyError": KeyError,
                     "SigmaRuleReference": lambda x: ("ref", x)}, max_steps=5000)
        try:
            it.call(f.node.body)
        except Raised as ex:
            r.violation("C02.R7", q, "from_dict on a section with short detection names", f"raises {ex}", f.loc)
            continue
        kept = sorted((got.get("detections") or {}).keys())
        if kept == sorted(names):
            r.ok("C02.R7", q, f"{len(names)} detections with names like fragments of the reserved keys are all kept", f.loc)
        else:
            lost = sorted(set(names) - set(kept))
            r.violation("C02.R7", q, f"detections kept: {kept}", f"lost: {lost} — the reserved keys are tested with a substring test (`name not in (\"condition\")` is a test against a string, not a one-element tuple): a detection called c, on, it or cond silently disappears, so `1 of them` covers fewer detections than the rule lists and a direct reference is 'not defined'", f.loc)
    r.floor("C02.R7", 2)
