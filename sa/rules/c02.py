"""C02 — condition text parses to the boolean function it spells (grammar read as data)."""
from __future__ import annotations

import ast
import string
from typing import Optional

from ..prog import AnalysisError, FuncInfo, call_name, short, stmt_head, unparse, walk_no_nested
from ..util import assignments_to, atomic_guards, const_eval, guards_at

MOD = "sigma.conditions"
REGEX_META = set(".^$+?{}[]\\|()")


def _module_assign(m, name: str) -> ast.AST:
    if name not in m.assigns:
        raise AnalysisError(f"anchor vanished: {m.name}.{name}")
    st = m.assigns[name][-1]
    return st.value  # type: ignore[attr-defined]


def _resolve_alias(m, e: ast.AST, depth: int = 0) -> ast.AST:
    """Follow module-level name aliases (not_op = Keyword(...))."""
    while isinstance(e, ast.Name) and e.id in m.assigns and depth < 5:
        e = m.assigns[e.id][-1].value  # type: ignore[attr-defined]
        depth += 1
    return e


def _line_of(m, name: str) -> int:
    st = m.assigns.get(name)
    return st[-1].lineno if st else 1


def check_operator_element(r, rid: str, where: str, op, ident_alphabet: str, loc: str) -> None:
    """One operator / quantifier token of a grammar (an element of the abstract model, sa.grammar.G)."""
    tok = getattr(op, "match", None)
    if op.kind == "Literal" and getattr(op, "implicit", False):
        if set(tok) <= set(ident_alphabet):
            r.violation(rid, where, f"operator {tok!r} given as bare string",
                        f"pyparsing turns the bare string {tok!r} into Literal, which matches a *prefix*: an identifier that begins with "
                        f"{tok!r} (e.g. '{tok}epad') is split into operator + rest instead of being read as a whole word", loc)
        else:
            r.ok(rid, where, f"operator {tok!r} is not made of identifier characters", loc)
    elif op.kind in ("Literal", "CaselessLiteral", "Suppress"):
        r.violation(rid, where, f"operator {tok!r} as {op.kind}", f"{op.kind} matches a prefix of longer identifiers (no word boundary)", loc)
    elif op.kind == "CaselessKeyword":
        r.violation(rid, where, f"operator {tok!r} as CaselessKeyword", "Sigma operators are lower-case keywords; a detection named 'AND' or 'Not' would be taken as operator", loc)
    elif op.kind == "Keyword":
        if not isinstance(op.ident_chars, str):
            raise AnalysisError(f"{where}: ident_chars of Keyword({tok!r}) is not a constant")
        missing = set(ident_alphabet) - set(op.ident_chars)
        if missing:
            r.violation(rid, where, f"Keyword({tok!r}) word boundary",
                        f"identifier characters {sorted(missing)} do not count as word characters for this keyword: "
                        f"a name such as '{tok}{sorted(missing)[0]}x' is split into operator + rest", loc)
        else:
            r.ok(rid, where, f"Keyword({tok!r}) with word characters ⊇ identifier alphabet", loc)
    else:
        raise AnalysisError(f"{where}: operator element {op!r} not recognised")


def grammar_operator_check(ctx, rid: str, m, scope_node: ast.AST, ident_alphabet: str, where: str, local_assigns=None) -> int:
    """Check the operator table of the infix_notation call(s) built by the statements of scope_node (a function): the body
    is interpreted over the abstract pyparsing model (sa.grammar) and every infix element it builds is examined."""
    from ..grammar import G, interpret_statements
    r = ctx.r
    body = scope_node.body if isinstance(scope_node, ast.FunctionDef) else [scope_node]
    env, skipped = interpret_statements(ctx.prog, m, [st for st in body if not isinstance(st, ast.Return)], extra={"self": None, "cls": None})
    infix = []
    seen: set[int] = set()
    for v in list(env.values()):
        if isinstance(v, G):
            for g in v.walk():
                if g.kind == "infix" and id(g) not in seen:
                    seen.add(id(g))
                    infix.append(g)
    n = 0
    for g in infix:
        for op, arity, assoc, action in g.levels:
            n += 1
            check_operator_element(r, rid, where, op, ident_alphabet, f"{m.relpath}:{scope_node.lineno}")
    if not infix and skipped:
        raise AnalysisError(f"{where}: no infix_notation grammar could be read ({list(skipped.items())[0]})")
    return n


def condition_grammar(ctx, m):
    """The condition grammar of sigma/conditions.py as data: its module-level statements interpreted over the abstract
    pyparsing model. Cached per run."""
    if getattr(ctx, "_c02_grammar", None) is None:
        from ..grammar import interpret_statements
        env, skipped = interpret_statements(ctx.prog, m, m.tree.body)
        ctx._c02_grammar = (env, skipped)
    return ctx._c02_grammar


def grammar_alphabets(ctx, m) -> tuple[str, str]:
    """(identifier alphabet, selector pattern alphabet) — the Word elements reached from the grammar's operand."""
    from ..grammar import G
    env, skipped = condition_grammar(ctx, m)
    cond = env.get("condition")
    if not isinstance(cond, G) or cond.kind != "infix":
        raise AnalysisError(f"{MOD}.condition is not an infix_notation(...) grammar ({skipped})")
    alts = cond.operand.parts if cond.operand.kind in ("MatchFirst", "Or") else [cond.operand]
    ident = [a for a in alts if a.kind == "Word"]
    sels = [a for a in alts if a.kind == "And" and a.parts and a.parts[-1].kind == "Word"]
    if len(ident) != 1 or len(sels) != 1:
        raise AnalysisError(f"{MOD}: identifier alphabets are not Word(<constant>): operand alternatives {alts!r}")
    return ident[0].alphabet, sels[0].parts[-1].alphabet


def run(ctx) -> None:
    from ..grammar import G
    r, prog = ctx.r, ctx.prog
    m = prog.module(MOD)
    r.explanation = (
        "The condition grammar is data: the statements of sigma/conditions.py that build the pyparsing objects are interpreted "
        "over an abstract model of pyparsing (sa.grammar: alphabets, keyword word-boundaries, the infix_notation precedence table, "
        "operand alternative order, parse actions; nothing is parsed), the parse actions' "
        "token arithmetic is interpreted against the arity constants of the classes they build, the selector resolver is checked for "
        "regex-safe alphabet, fullmatch, the underscore predicate and the quantifier table, and every call site of the cached "
        "parser copies deeply. Evaluation of parsed trees over truth assignments is not performed.")
    ident_alpha, pat_alpha = grammar_alphabets(ctx, m)
    env, _skipped = condition_grammar(ctx, m)
    cond = env["condition"]
    r.analysed["C02.identifier_alphabet"] = "".join(sorted(set(ident_alpha)))
    r.analysed["C02.pattern_alphabet"] = "".join(sorted(set(pat_alpha)))
    cloc = f"{m.relpath}:{_line_of(m, 'condition')}"
    alts = cond.operand.parts if cond.operand.kind in ("MatchFirst", "Or") else [cond.operand]
    sel = next(a for a in alts if a.kind == "And")
    ident = next(a for a in alts if a.kind == "Word")

    # ---- R1
    r.rule("C02.R1", "every operator/quantifier token of the condition grammar is a case-sensitive Keyword whose word characters include the whole identifier alphabet")
    for op, arity, assoc, action in cond.levels:
        check_operator_element(r, "C02.R1", MOD + ".condition", op, ident_alpha, cloc)
    sloc = f"{m.relpath}:{_line_of(m, 'selector')}"
    for part in sel.parts[:-1]:
        for tokel in (part.parts if part.kind in ("MatchFirst", "Or") else [part]):
            nm = "quantifier" if part.kind in ("MatchFirst", "Or") else "selector"
            if tokel.kind == "Keyword":
                r.ok("C02.R1", f"{MOD}.{nm}", repr(tokel), sloc)
            elif tokel.kind == "Literal" and getattr(tokel, "implicit", False):
                r.violation("C02.R1", f"{MOD}.{nm}", repr(tokel.match), "bare string in the selector grammar becomes a prefix-matching Literal", sloc)
            elif tokel.kind in ("Literal", "CaselessKeyword", "CaselessLiteral"):
                r.violation("C02.R1", f"{MOD}.{nm}", repr(tokel), "quantifier/'of' token is not a case-sensitive Keyword", sloc)
            else:
                raise AnalysisError(f"{MOD}.selector: element {tokel!r} not recognised")
    r.floor("C02.R1", 7)

    # ---- R2 precedence table
    r.rule("C02.R2", "infix_notation levels are (not, unary, RIGHT, ConditionNOT), (and, binary, LEFT, ConditionAND), (or, binary, LEFT, ConditionOR) in this order; operand tries selector before identifier; the parse site uses parse_all=True")
    want = [("not", 1, "RIGHT", "ConditionNOT"), ("and", 2, "LEFT", "ConditionAND"), ("or", 2, "LEFT", "ConditionOR")]
    got = []
    for op, arity, assoc, action in cond.levels:
        act = str(action) if action is not None else None
        got.append((getattr(op, "match", None), arity, assoc, act.split(".")[0] if act else None))
        if act is None or act.split(".")[-1] != "from_parsed":
            r.violation("C02.R2", MOD + ".condition", f"level {getattr(op, 'match', None)!r}: action {act}", "parse action is not <class>.from_parsed", cloc)
    if got == want:
        r.ok("C02.R2", MOD + ".condition", f"levels {got}", cloc)
    else:
        for i, (g, w) in enumerate(zip(got + [None] * 3, want)):
            if g != w:
                r.violation("C02.R2", MOD + ".condition", f"level {i + 1}: {g}", f"expected {w}: NOT binds tighter than AND, AND tighter than OR, binary operators associate left", cloc)
        if len(got) != 3:
            r.violation("C02.R2", MOD + ".condition", f"{len(got)} levels", "exactly three precedence levels expected", cloc)
    oloc = f"{m.relpath}:{_line_of(m, 'operand')}"
    if cond.operand.kind == "MatchFirst" and len(alts) == 2 and alts[0] is sel and alts[1] is ident:
        r.ok("C02.R2", MOD + ".operand", "selector | identifier (selector tried first)", oloc)
    else:
        r.violation("C02.R2", MOD + ".operand", f"{cond.operand.kind} of {['selector' if a is sel else 'identifier' if a is ident else repr(a) for a in alts]}",
                    "the operand alternative must try `selector` before `identifier` (first match wins): with identifier first, '1 of x' is read as the identifier '1'", oloc)
    shape = [p.kind for p in sel.parts]
    if shape == ["MatchFirst", "Keyword", "Word"] and sel.parts[1].match == "of":
        r.ok("C02.R2", MOD + ".selector", "quantifier + Keyword('of') + identifier_pattern", sloc)
    else:
        raise AnalysisError(f"{MOD}.selector shape not recognised: {sel!r}")
    qtoks = sorted(str(p.match) for p in sel.parts[0].parts)
    if qtoks == ["1", "all", "any"]:
        r.ok("C02.R2", MOD + ".quantifier", f"quantifiers {qtoks}", sloc)
    else:
        r.violation("C02.R2", MOD + ".quantifier", str(qtoks), "quantifier set differs from {1, any, all}", sloc)
    # parse actions attached to the right elements
    for el, g, act in (("identifier", ident, "ConditionIdentifier.from_parsed"), ("selector", sel, "ConditionSelector.from_parsed")):
        if str(g.action) == act:
            r.ok("C02.R2", f"{MOD}.{el}", f"parse action {act}")
        else:
            r.violation("C02.R2", f"{MOD}.{el}", f"parse action {g.action}", f"expected {act}")
    pf = prog.func(MOD + "._parse_condition_string")
    pcs = [c for c in walk_no_nested(pf.node) if isinstance(c, ast.Call) and call_name(c).endswith(("parse_string", "parseString"))]
    if len(pcs) != 1:
        raise AnalysisError(f"{pf.qual}: expected exactly one parse_string call")
    pa = [kw for kw in pcs[0].keywords if kw.arg in ("parse_all", "parseAll")]
    recv = call_name(pcs[0]).split(".")[0]
    if pa and isinstance(pa[0].value, ast.Constant) and pa[0].value.value is True and env.get(recv) is cond:
        r.ok("C02.R2", pf.qual, unparse(pcs[0]), pf.loc)
    else:
        r.violation("C02.R2", pf.qual, unparse(pcs[0]), "the whole condition string must be consumed (parse_all=True) by the `condition` grammar: trailing garbage would be ignored", pf.loc)
    # the grammar is the only producer of parse trees: every value the parse function hands out is (a cast / subscript / local
    # alias of) the result of that one parse call — a second path (a shortcut for "simple" conditions) is a second grammar
    def from_parse(e: ast.AST, depth: int = 0) -> bool:
        if e is pcs[0]:
            return True
        if depth > 6:
            return False
        if isinstance(e, ast.Call) and call_name(e).split(".")[-1] == "cast" and len(e.args) == 2:
            return from_parse(e.args[1], depth + 1)
        if isinstance(e, ast.Subscript):
            return from_parse(e.value, depth + 1)
        if isinstance(e, ast.Name):
            vals = [v for v in assignments_to(pf.node, e.id) if isinstance(v, ast.expr)]
            return bool(vals) and all(from_parse(v, depth + 1) for v in vals) and len(vals) == len(assignments_to(pf.node, e.id))
        return False
    rets = [x for x in walk_no_nested(pf.node) if isinstance(x, ast.Return)]
    other = [x for x in rets if x.value is None or not from_parse(x.value)]
    if rets and not other:
        r.ok("C02.R2", pf.qual, f"all {len(rets)} return(s) hand out the result of the grammar's parse call", pf.loc)
    else:
        bad_ = other[0] if other else pf.node
        r.violation("C02.R2", pf.qual, short(bad_, 100), "the parse function hands out a tree that does not come from the `condition` grammar: whatever builds it decides keywords, names and nesting by rules of its own (word boundaries, precedence), next to the grammar", f"{pf.module.relpath}:{bad_.lineno}")
    r.floor("C02.R2", 7)

    r3_parse_actions(ctx, m)
    r4_selector(ctx, m, pat_alpha)
    r5_cache(ctx)
    r6_filter_condition_rewrite(ctx)
    r7_detection_names_whole(ctx)


def r3_parse_actions(ctx, m) -> None:
    r, prog = ctx.r, ctx.prog
    r.rule("C02.R3", "ConditionItem.from_parsed takes the last token for unary and every second token for n-ary levels, builds exactly [cls(args)], and the arity constants of the classes match the grammar element they are attached to")
    fp = prog.func(MOD + ".ConditionItem.from_parsed")
    # the parse action interpreted (sa.tabulate) on token lists of the shapes the grammar produces
    from ..tabulate import call_method, Raised

    class ParseResults(list):
        pass

    def mkcls(name, arg_count, token_list):
        class K:
            def __init__(self, args):
                self.args = args
        K.__name__, K.arg_count, K.token_list = name, arg_count, token_list
        return K

    KNOT = mkcls("NOT", 1, False)
    inner_not = KNOT(["x"])
    cases = [
        ("unary operator level (not x)", KNOT, ParseResults([ParseResults(["not", "x"])]), ["x"]),
        ("unary operator level around another NOT (not not x)", KNOT, ParseResults([ParseResults(["not", inner_not])]), [inner_not]),
        ("identifier token", mkcls("ID", 1, True), ParseResults(["sel"]), ["sel"]),
        ("n-ary operator level (a and b and c)", mkcls("AND", 2, False), ParseResults([ParseResults(["a", "and", "b", "and", "c"])]), ["a", "b", "c"]),
        ("n-ary operator level (a or b)", mkcls("OR", 2, False), ParseResults([ParseResults(["a", "or", "b"])]), ["a", "b"]),
        ("selector tokens (1 of sel*)", mkcls("SEL", 2, True), ParseResults(["1", "of", "sel*"]), ["1", "sel*"]),
    ]
    wrong = []
    for what, K, toks, want in cases:
        try:
            got = call_method(prog, MOD + ".ConditionItem", "from_parsed", K, {"ParseResults": ParseResults}, "src", 0, toks)
        except Raised as ex:
            wrong.append(f"{what}: raises {ex}")
            continue
        okv = isinstance(got, list) and len(got) == 1 and type(got[0]) is K and len(list(got[0].args)) == len(want) and all(a is b or a == b for a, b in zip(list(got[0].args), want))
        if not okv:
            shown = [type(x).__name__ + repr(list(getattr(x, "args", []))) for x in got] if isinstance(got, list) else repr(got)
            wrong.append(f"{what}: {shown} instead of one {K.__name__} node with arguments {want}")
    if wrong:
        r.violation("C02.R3", fp.qual, f"from_parsed: {wrong[0]}", f"{len(wrong)} of {len(cases)} interpreted cases deviate: the parse action must build exactly one node of its own class; unary operator: last token; n-ary: every second token, skipping the operator tokens; merging/flattening the argument of a NOT node changes the boolean function (not not a ≠ not a)", fp.loc)
    else:
        for what, K, toks, want in cases:
            r.ok("C02.R3", fp.qual, f"{what} → [{K.__name__}({want})] (interpreted)", fp.loc)
    # overrides of from_parsed in subclasses
    for sub in prog.subclasses(MOD + ".ConditionItem", strict=True):
        if "from_parsed" in prog.classes[sub].methods:
            r.violation("C02.R3", sub, "def from_parsed", "parse action overridden in a subclass; arity table no longer applies", prog.classes[sub].methods["from_parsed"].loc)
    consts = {"ConditionNOT": (1, False), "ConditionAND": (2, False), "ConditionOR": (2, False), "ConditionIdentifier": (1, True), "ConditionSelector": (2, True)}
    for cn, (ac, tl) in consts.items():
        c = prog.cls(f"{MOD}.{cn}")
        a = prog.lookup_class_attr(c.qual, "arg_count")
        t = prog.lookup_class_attr(c.qual, "token_list")
        av = const_eval(prog, m, a[1].value) if a and getattr(a[1], "value", None) is not None else None
        tv = const_eval(prog, m, t[1].value) if t and getattr(t[1], "value", None) is not None else False
        loc = f"{m.relpath}:{c.node.lineno}"
        if (av, bool(tv)) == (ac, tl):
            r.ok("C02.R3", c.qual, f"arg_count={av}, token_list={tv}", loc)
        else:
            r.violation("C02.R3", c.qual, f"arg_count={av}, token_list={tv}", f"expected arg_count={ac}, token_list={tl} for the grammar element this class is attached to", loc)
    # postprocess keeps the operator structure: tabulated over operator arity x surviving arguments x argument kind
    from ..tabulate import Interp, Raised
    pp = prog.func(MOD + ".ConditionItem.postprocess")

    class _Leaf:
        parent = None

        def postprocess(self, detections, parent, source=None):
            self.parent = parent
            return self

    class ConditionNOT:  # stand-ins named like the real classes (the body may test isinstance)
        arg_count = 1

        parent = None

        def __init__(self, args):
            self.args = args

        def postprocess(self, detections, parent, source=None):
            self.parent = parent
            return self

    class ConditionAND(ConditionNOT):
        arg_count = 2

    class ConditionOR(ConditionNOT):
        arg_count = 2

    class _Super:
        def postprocess(self, *a, **k):
            return None

    wrong = []
    ncase = 0
    for cls_ in (ConditionNOT, ConditionAND, ConditionOR):
        for args in ([], [None], [_Leaf()], [ConditionNOT([_Leaf()])], [_Leaf(), _Leaf()], [None, _Leaf()], [ConditionNOT([_Leaf()]), ConditionNOT([_Leaf()])]):
            me = cls_(list(args))
            live = [a for a in args if a is not None]
            if cls_.arg_count == 1 and len(args) > 1:
                continue
            outer = object()
            it = Interp({"self": me, "detections": None, "parent": outer, "source": None, "super": lambda: _Super(),
                         "ConditionNOT": ConditionNOT, "ConditionAND": ConditionAND, "ConditionOR": ConditionOR})
            try:
                got = it.call(pp.node.body)
            except Raised as e:
                got = f"<raises {e}>"
            if cls_.arg_count > 1 and len(live) == 1:
                want = live[0]
            elif len(live) == 0:
                want = None
            else:
                want = me
            ncase += 1
            if got is want and want is not me and want is not None and getattr(got, "parent", None) is not outer:
                wrong.append(f"{cls_.__name__} with arguments {[type(a).__name__ for a in args]}: the returned argument still has the vanished operator as parent (parent-chain decisions — grouping, negation — see an operator that is not in the tree)")
            if got is not want:
                wrong.append(f"{cls_.__name__} with arguments {[type(a).__name__ for a in args]}: returns {type(got).__name__ if not isinstance(got, str) else got}{' (its argument)' if got in live else ''} instead of {'itself' if want is me else type(want).__name__}")
    if wrong:
        r.violation("C02.R3", pp.qual, f"postprocess table: {wrong[0]}", f"{len(wrong)} of {ncase} tabulated cases deviate: postprocess may only collapse an n-ary operator with a single surviving argument (to that argument) or an operator without arguments (to None); any other rewrite changes the boolean function (e.g. returning the inner NOT of a double negation negates once instead of twice)", pp.loc)
    else:
        r.ok("C02.R3", pp.qual, f"postprocess tabulated over {ncase} cases (NOT/AND/OR x 0/1/2 surviving arguments x leaf/NOT arguments): collapses only single-argument n-ary operators and empty operators", pp.loc)
    r.floor("C02.R3", 11)


SEL_NAMES = ["sel", "sel_1", "sel-2", "selection", "_a", "_b", "_filt_abcdefghij_flt", "_filt_abcdefghij_sel_1", "_cond_xyz", "filter", "Sel"]
SEL_PATTERNS = ["them", "sel*", "sel_*", "*_1", "sel", "_*", "_f*", "_filt*", "_filt_abcdefghij_*", "_filt_abcdefghij_sel*", "*", "s*n", "*l*", "nomatch*", "_a", "sel_*_1", "s*l*n"]


def _r4_selection_table(ctx, fi: FuncInfo) -> None:
    """Which detections a selector pattern denotes, tabulated: resolve_referenced_detections is interpreted (sa.tabulate, the
    real `re` module as the only library) for each pattern over a map of detection names; the result must be exactly the
    names that (1) match the pattern as a whole with '*' as the only wildcard ('them' = every name), (2) start with '_' only
    if the pattern does, (3) carry the filter prefix '_filt_' only if the pattern carries it (filter-internal patterns)."""
    import re as _re
    from ..tabulate import Proxy, call_method, Raised
    r, prog = ctx.r, ctx.prog

    class _CI:
        def __init__(self, args):
            self.name = args[0]

    dets = type("D", (), {})()
    dets.detections = {n: object() for n in SEL_NAMES}
    bad = []
    for pat in SEL_PATTERNS:
        env = {"re": _re, "ConditionIdentifier": _CI}
        me = Proxy(prog, fi.cls.qual, env, {"pattern": pat}, interp_kwargs={"max_steps": 5000})
        try:
            out = call_method(prog, fi.cls.qual, fi.name, me, env, dets, interp_kwargs={"max_steps": 5000})
        except Raised as ex:
            bad.append((pat, f"raises {ex}"))
            continue
        got = [x.name for x in out]
        rx = _re.compile(".*" if pat == "them" else ".*".join(_re.escape(x) for x in pat.split("*")))
        want = [n for n in SEL_NAMES if rx.fullmatch(n) and (pat.startswith("_") or not n.startswith("_")) and (pat.startswith("_filt_") or not n.startswith("_filt_"))]
        if got != want:
            extra, missing = [n for n in got if n not in want], [n for n in want if n not in got]
            bad.append((pat, f"selects {got}, denoted are {want}" + (f" — captured: {extra}" if extra else "") + (f" — missed: {missing}" if missing else "")))
    if bad:
        pat, why = bad[0]
        r.violation("C02.R4", fi.qual, f"selector pattern {pat!r}", f"{why} (+{len(bad) - 1} more pattern(s)): a pattern denotes the detection names it matches as a whole ('*' the only wildcard); tool-injected '_…' names belong to patterns that start with '_', and the renamed detections of an applied filter ('_filt_<random>_…') only to that filter's own patterns — captured by a rule pattern such as '1 of _*' the rule fires on every event the filter matches", fi.loc)
    else:
        r.ok("C02.R4", fi.qual, f"selection table: {len(SEL_PATTERNS)} patterns x {len(SEL_NAMES)} detection names interpreted — whole-name match, underscore and filter-prefix predicates as specified", fi.loc)


def r4_selector(ctx, m, pat_alpha: str) -> None:
    r, prog = ctx.r, ctx.prog
    r.rule("C02.R4", "selector resolution: pattern alphabet has no regex metacharacter besides '*', the pattern is compiled from replace('*', '.*') and applied with fullmatch over all detection names, 'them' matches all, '_…' names only for '_…' patterns and '_filt_…' names only for '_filt_…' patterns (selection table interpreted over sample names), quantifiers map 1|any→OR and all→AND")
    loc = f"{m.relpath}:{_line_of(m, 'identifier_pattern')}"
    meta = (set(pat_alpha) - {"*"}) & REGEX_META
    if meta:
        r.violation("C02.R4", MOD + ".identifier_pattern", f"alphabet {''.join(sorted(set(pat_alpha)))!r}", f"pattern alphabet contains regex metacharacters {sorted(meta)} that reach re.compile unescaped", loc)
    else:
        r.ok("C02.R4", MOD + ".identifier_pattern", "pattern alphabet minus '*' contains no regex metacharacter", loc)
    # every detection name must be reachable by a pattern: pattern alphabet ⊇ identifier alphabet
    ident_alpha = grammar_alphabets(ctx, m)[0]
    if ident_alpha is not None:
        missing = set(ident_alpha) - set(pat_alpha)
        if missing:
            r.violation("C02.R4", MOD + ".identifier_pattern", f"pattern alphabet lacks {''.join(sorted(missing))!r}", f"detection names may contain {sorted(missing)} but no selector pattern can: '1 of sel-*' is a syntax error although 'sel-1 or sel-2' parses", loc)
        else:
            r.ok("C02.R4", MOD + ".identifier_pattern", "pattern alphabet ⊇ identifier alphabet", loc)
    if "*" not in pat_alpha or "_" not in pat_alpha:
        r.violation("C02.R4", MOD + ".identifier_pattern", f"alphabet {''.join(sorted(set(pat_alpha)))!r}", "pattern alphabet must contain '*' and '_'", loc)
    fi = prog.func(MOD + ".ConditionSelector.resolve_referenced_detections")
    _r4_selection_table(ctx, fi)
    # quantifier table and replacement: __post_init__ and postprocess interpreted (sa.tabulate, Proxy) on stand-in operator
    # classes and a stand-in resolution of the pattern
    from ..tabulate import Proxy, call_method, Raised
    SEL = MOD + ".ConditionSelector"
    pi = prog.func(SEL + ".__post_init__")
    pp = prog.func(SEL + ".postprocess")

    class _Op:
        def __init__(self, args, *a, **k):
            self.args, self.extra = args, (a, k)
            self.pp_calls = []
        def postprocess(self, *a, **k):
            self.pp_calls.append((a, k))
            return ("POSTPROCESSED", self)
    class ConditionOR(_Op): pass
    class ConditionAND(_Op): pass
    class ConditionNOT(_Op): pass
    env = {"ConditionOR": ConditionOR, "ConditionAND": ConditionAND, "ConditionNOT": ConditionNOT}
    IK = {"max_steps": 6000}
    table, problems = {}, []
    for q in ("1", "any", "all", "2", "none", "ALL", ""):
        me = Proxy(prog, SEL, env, {"args": [q, "sel*"], "source": None}, interp_kwargs=IK)
        try:
            call_method(prog, SEL, "__post_init__", me, env, interp_kwargs=IK)
            cc = me.attrs().get("cond_class")
            table[q] = getattr(cc, "__name__", repr(cc))
            if me.attrs().get("pattern") != "sel*":
                problems.append(f"pattern of '{q} of sel*' is {me.attrs().get('pattern')!r}: the selector pattern is not the second token")
        except Raised as ex:
            table[q] = "error" if "SigmaConditionError" in str(ex) else f"raises {ex}"
    want = {"1": "ConditionOR", "any": "ConditionOR", "all": "ConditionAND", "2": "error", "none": "error", "ALL": "error", "": "error"}
    if table == want and not problems:
        r.ok("C02.R4", pi.qual, "1|any → ConditionOR, all → ConditionAND, anything else is a condition error; pattern = second token (interpreted)", pi.loc)
    elif table != want:
        r.violation("C02.R4", pi.qual, str({k: v for k, v in table.items() if want[k] != v}), f"quantifier table differs from {want}", pi.loc)
    else:
        r.violation("C02.R4", pi.qual, "self.pattern = self.args[1]", problems[0], pi.loc)
    for q, klass in (("1", ConditionOR), ("all", ConditionAND)):
        # the position of the selector (top level, below NOT, AND, OR) does not change what it stands for
        for ids, parent in [(i_, p_) for i_ in (["I1", "I2", "I3"], ["I1"], []) for p_ in (object(), ConditionNOT([]), ConditionAND([]), ConditionOR([]), None)]:
            dets, src = object(), object()
            me = Proxy(prog, SEL, env, {"args": [q, "sel*"], "source": None, "cond_class": klass, "pattern": "sel*", "parent": None,
                                       "resolve_referenced_detections": lambda d_, _ids=ids: list(_ids)}, interp_kwargs=IK)
            try:
                ret = call_method(prog, SEL, "postprocess", me, env, dets, parent, src, interp_kwargs=IK)
            except Raised as ex:
                if ids or "SigmaConditionError" not in str(ex):
                    r.violation("C02.R4", pp.qual, "ConditionSelector.postprocess", f"'{q} of sel*' over the matches {ids}: raises {ex}", pp.loc)
                else:
                    r.ok("C02.R4", pp.qual, f"'{q} of …': a selector that matches no detection is a SigmaConditionError (no operator without operands is built)", pp.loc)
                continue
            if not ids:
                r.violation("C02.R4", pp.qual, "self.cond_class(ids) for an empty match", "a selector that matches no detection builds an operator without operands, which the n-ary converters drop: 'a or 1 of x*' and 'a and 1 of x*' both convert to a, 'not 1 of x*' to nothing — the condition no longer denotes the function it spells", pp.loc)
                continue
            op = ret[1] if isinstance(ret, tuple) and len(ret) == 2 and ret[0] == "POSTPROCESSED" else None
            if op is None or type(op) is not klass or list(op.args) != ids or len(op.pp_calls) != 1 or op.pp_calls[0][0][:1] != (dets,) \
                    or (list(op.pp_calls[0][0][1:2]) + [op.pp_calls[0][1].get("parent")])[0] is not parent or me.attrs().get("parent") is not parent:
                got = f"{type(op).__name__}({getattr(op, 'args', None)}), postprocess calls {len(getattr(op, 'pp_calls', []))}" if op is not None else repr(ret)
                r.violation("C02.R4", pp.qual, "ConditionSelector.postprocess", f"selector is no longer replaced by cond_class over exactly the resolved identifiers: '{q} of sel*' over {ids} gives {got}", pp.loc)
            else:
                r.ok("C02.R4", pp.qual, f"'{q} of sel*' over {len(ids)} match(es) → {klass.__name__}(the matches, in order).postprocess(detections, parent, …) (interpreted)", pp.loc)
    r.floor("C02.R4", 7)


def r5_cache(ctx) -> None:
    from . import c15
    ctx.r.rule("C02.R5", "results of the lru_cache'd condition parser are deep-copied at every call site")
    before = len(ctx.r.obligations)
    c15.r2_cache_copies(ctx)
    # re-label the obligations produced by the shared rule
    for o in ctx.r.obligations[before:]:
        o["rule"] = "C02.R5"
    for f in ctx.r.findings:
        if f.rule == "C15.R2":
            f.rule = "C02.R5"
    ctx.r.rule_counts["C02.R5"] = ctx.r.rule_counts.pop("C15.R2", 0)
    ctx.r.rule_text.pop("C15.R2", None)


# ---------------------------------------------------------------------------------------------------------------------
FILTER_SAMPLES = [  # filter condition -> the same condition over the renamed detections (P = the drawn prefix)
    ("not ex", "not P_ex"),
    ("not all", "not P_all"),
    ("not any and not of", "not P_any and not P_of"),
    ("not them", "not P_them"),
    ("not 1", "not P_1"),
    ("all of ex*", "all of P_ex*"),
    ("1 of them", "1 of P_*"),
    ("not (1 of all*)", "not (1 of P_all*)"),
    ("any of them and not all", "any of P_* and not P_all"),
    ("not (ex or all of of*)", "not (P_ex or all of P_of*)"),
    ("1 of *_allow", "1 of P_*_allow"),
    ("not (  flt )", "not (  P_flt )"),
    ("not ex-1 or not_x", "not P_ex-1 or P_not_x"),
    ("1 of 1", "1 of P_1"),
]


def interpret_filter_application(ctx, cond: str, rule_detections=None, draws=("x",), rule_conditions=("sel",), should_apply=True, correlation=False):
    """Interpret SigmaFilter.apply_on_rule (sa.tabulate; nothing of pySigma runs) for a filter with condition ``cond`` whose
    detections are the plain names in it, applied to a stand-in rule (detections ``rule_detections``, condition 'sel').
    ``draws`` are the letters the stand-in random module returns for successive draws. Returns (rule stand-in, filter names)."""
    from ..tabulate import Proxy, call_method
    import re as _re
    prog = ctx.prog
    FQ = "sigma.filters.SigmaFilter"

    class _Corr:
        pass

    class _Det:
        def __init__(self):
            self.detections = dict(rule_detections or {"sel": "D(sel)"})
            self.condition = list(rule_conditions)

        def __post_init__(self):
            self.reparsed = getattr(self, "reparsed", 0) + 1

    class _Rule(_Corr if correlation else object):
        def __init__(self):
            self.detection = _Det()

    state = {"n": 0}

    class _Rand:
        @staticmethod
        def choices(pop, k=1, **kw):
            c = draws[min(state["n"], len(draws) - 1)]
            state["n"] += 1
            return [c] * k

        @staticmethod
        def choice(pop):
            c = draws[min(state["n"] // 10, len(draws) - 1)]
            state["n"] += 1
            return c

    names = sorted(set(_re.findall(r"[A-Za-z0-9_*-]+", cond)) - {"not", "and", "or"})
    filt = type("F", (), {})()
    filt.detections = {n: f"D({n})" for n in names if "*" not in n}
    filt.condition = [cond]
    rule = _Rule()
    env = {"SigmaCorrelationRule": _Corr, "random": _Rand, "re": _re,
           "string": type("string", (), {"ascii_lowercase": "abcdefghijklmnopqrstuvwxyz"}),
           "copy": type("copy", (), {"deepcopy": staticmethod(lambda x: x), "copy": staticmethod(lambda x: x)})}
    me = Proxy(prog, FQ, env, {"filter": filt, "_should_apply_on_rule": (lambda rule_: should_apply), "source": None}, interp_kwargs={"max_steps": 200000})
    rule.returned = call_method(prog, FQ, "apply_on_rule", me, env, rule, interp_kwargs={"max_steps": 200000})
    return rule, filt


def filter_rewrite_failures(ctx, samples) -> list[tuple[str, str]]:
    from ..tabulate import Raised
    bad = []
    for cond, want in samples:
        try:
            rule, filt = interpret_filter_application(ctx, cond)
        except Raised as ex:
            bad.append((cond, f"raises {ex}"))
            continue
        got = rule.detection.condition[0]
        prefixes = {k[:-len("_" + n)] for k in rule.detection.detections for n in filt.detections if k.endswith("_" + n) and k != n}
        if len(prefixes) != 1:
            bad.append((cond, f"detections renamed inconsistently: {sorted(rule.detection.detections)}"))
            continue
        P = prefixes.pop()
        exp = "(sel) and (" + want.replace("P_", P + "_") + ")"
        if not P.startswith("_filt_"):
            bad.append((cond, f"the drawn prefix is {P!r}: it must start with the reserved '_filt_' (rule selectors keep away from exactly these names)"))
        elif got != exp:
            bad.append((cond, f"is rewritten to {got!r}, the grammar reads it as {exp!r}"))
    return bad


def prefix_redraw_failures(ctx) -> list[str]:
    """The drawn prefix must not be one that names of the rule's detection map already start with: such a name would be
    overwritten (same name) or captured by the filter's own patterns (`them` → `<prefix>_*`). apply_on_rule is interpreted
    with a random stand-in that returns x…x first and y…y afterwards."""
    from ..tabulate import Raised
    problems = []
    scenarios = [
        ("the rule owns a detection with the drawn prefix and the filter detection's name", "flt", {"sel": "D(sel)", "_filt_xxxxxxxxxx_flt": "D(own)"}),
        ("the rule owns a detection with the drawn prefix under another name (an earlier filter drew the same prefix)", "1 of them", {"sel": "D(sel)", "_filt_xxxxxxxxxx_other": "D(own)"}),
        ("another name, filter condition by pattern", "not 1 of f*", {"sel": "D(sel)", "_filt_xxxxxxxxxx_f0": "D(own)"}),
    ]
    for what, cond, dets in scenarios:
        try:
            rule_, filt_ = interpret_filter_application(ctx, cond, rule_detections=dets, draws=("x", "y"))
        except Raised as ex:
            problems.append(f"{what}: raises {ex}")
            continue
        got = rule_.detection.detections
        own = [k for k in dets if k.startswith("_filt_")][0]
        new = [k for k in got if k not in dets]
        if got.get(own) != "D(own)":
            problems.append(f"{what}: the rule's detection {own} is overwritten ({got.get(own)})")
        elif any(k.startswith("_filt_xxxxxxxxxx_") for k in new):
            problems.append(f"{what}: the colliding prefix is kept (new detections {new}); the filter's patterns '_filt_xxxxxxxxxx_*' then capture {own}, which is not a detection of this filter — the converted query depends on the random draw")
    return problems


def r6_filter_condition_rewrite(ctx) -> None:
    """A filter's condition is spliced into the rule's condition as text: its detections are renamed with a drawn prefix
    and the condition text is rewritten token by token. The rewriting must classify the words like the grammar does:
    not/and/or are operators, 1|any|all are quantifiers only in front of `of`, `of` only behind a quantifier, `them` only
    as the pattern of a selector — everything else is a detection name (whole word) and gets the prefix."""
    r, prog = ctx.r, ctx.prog
    r.rule("C02.R6", "filter condition rewriting reads words like the condition grammar: SigmaFilter.apply_on_rule, interpreted on sample conditions (sa.tabulate; stand-ins for rule, filter and the random module), renames every detection name — also one called all/any/of/them/1 — and leaves operators and selector keywords alone")
    f = prog.func("sigma.filters.SigmaFilter.apply_on_rule")
    bad = filter_rewrite_failures(ctx, FILTER_SAMPLES)
    if bad:
        cond, why = bad[0]
        r.violation("C02.R6", f.qual, f"filter condition {cond!r}", f"{why} (+{len(bad) - 1} more sample(s)): a detection name is a whole word wherever the grammar expects an operand; a keyword left unprefixed refers to a detection that was renamed (error) or to a detection of the rule itself (silently another function)", f.loc)
    else:
        r.ok("C02.R6", f.qual, f"apply_on_rule interpreted on {len(FILTER_SAMPLES)} filter conditions: operators and selector keywords kept, every detection name prefixed", f.loc)
    r.floor("C02.R6", 1)


def r7_detection_names_whole(ctx) -> None:
    """Every key of the detection section except the reserved ones is a detection, whatever its name: the loaders are
    interpreted (sa.tabulate) on a section whose detections are called like fragments of the reserved words."""
    from ..tabulate import Interp, Raised
    r, prog = ctx.r, ctx.prog
    r.rule("C02.R7", "detection names are whole words for the loader too: SigmaDetections.from_dict and SigmaGlobalFilter.from_dict, interpreted on a detection section with detections named c, on, it, cond, rule, les, sel, keep exactly these as detections (reserved keys are compared as whole keys, not as substrings)")
    names = ["c", "on", "it", "cond", "ion", "rule", "les", "sel", "1", "conditions"]

    class _Exc:
        def __getattr__(self, n):
            return type(n, (Exception,), {})
    for q, reserved in (("sigma.rule.detection.SigmaDetections.from_dict", {"condition": "sel"}),
                        ("sigma.filters.SigmaGlobalFilter.from_dict", {"condition": "sel", "rules": "any"})):
        if not prog.has_func(q):
            continue
        f = prog.func(q)
        got = {}

        def cls(**kw):
            got.update(kw)
            return "obj"
        section = {n: {"f": n} for n in names}
        section.update(reserved)
        det = type("SigmaDetection", (), {"from_definition": staticmethod(lambda definition, source=None: ("D", definition["f"]))})
        it = Interp({"cls": cls, "detections": section, "source": None, "SigmaDetection": det, "sigma_exceptions": _Exc(), "KeyError": KeyError,
                     "SigmaRuleReference": lambda x: ("ref", x)}, max_steps=5000)
        try:
            it.call(f.node.body)
        except Raised as ex:
            r.violation("C02.R7", q, "from_dict on a section with short detection names", f"raises {ex}", f.loc)
            continue
        kept = sorted((got.get("detections") or {}).keys())
        if kept == sorted(names):
            r.ok("C02.R7", q, f"{len(names)} detections with names like fragments of the reserved keys are all kept", f.loc)
        else:
            lost = sorted(set(names) - set(kept))
            r.violation("C02.R7", q, f"detections kept: {kept}", f"lost: {lost} — the reserved keys are tested with a substring test (`name not in (\"condition\")` is a test against a string, not a one-element tuple): a detection called c, on, it or cond silently disappears, so `1 of them` covers fewer detections than the rule lists and a direct reference is 'not defined'", f.loc)
    r.floor("C02.R7", 2)
