"""C05 — string values keep their exact characters and wildcards in every rendering (structural clauses)."""
from __future__ import annotations

import ast
import itertools
from typing import Optional

from ..prog import AnalysisError, FuncInfo, call_name, short, stmt_head, unparse, walk_no_nested
from ..util import assignments_to, atomic_guards, cfg_of, const_eval, guards_at
from ..tabulate import Interp, Raised, char_dependencies
from . import c01

T = "sigma.types"
TQ = "sigma.conversion.base.TextQueryBackend"
REGEX_META = set(".^$*+?{}[]\\|()")

# sites that re-parse a printed string (each inherits C05.R2 as an obligation), confirmed by reading
REPARSE_SITES = {
    ("sigma.processing.transformations.values.ReplaceStringTransformation.apply_string_value", "str(val)"):
        "prints the value, substitutes with re.sub and re-parses the result (the documented semantics: special characters take part in the replacement)",
    ("sigma.processing.transformations.values.MapStringTransformation.apply_string_value", "str(val)"):
        "the printed form is only the lookup key of the mapping; what is parsed is the configured replacement text",
    ("sigma.types.SigmaRegularExpression.replace_placeholders", "str(sigmastr)"):
        "regular expression text (parsed without escaping) is printed and re-parsed without escaping: no escape round trip involved; handed-back placeholders are restored with insert_placeholders()",
}


def run(ctx) -> None:
    r = ctx.r
    r.explanation = (
        "Escape-set completeness and printer/parser agreement decided on the source: the character set escaped by SigmaString.convert "
        "against the wildcard tokens, the extra escaped characters and the escape character itself; that every string part passes "
        "the filter/escape loop (fast paths only for empty sets); the parser's transition table (extracted from the branch "
        "structure of SigmaString.__init__) against the printer's replacement table; the metacharacter set and wildcard mapping of "
        "the regex renderings; the position-set construction of field escaping and the escaping of field arguments; the sites "
        "that print and re-parse a value. Decoding by a concrete target language and regex/wildcard equivalence on subject "
        "strings are not decided.")
    r1_target_escaping(ctx)
    r2_r6_parser_printer(ctx)
    r3_regex(ctx)
    r4_field_names(ctx)
    r5_reparse_sites(ctx)
    r9_names_from_values(ctx)
    r.rule("C05.R8", "renderings and the quoting decision look at the value, never at the unparsed `original` text (empty or stale for every derived value: slices for startswith/endswith/contains, concatenations, case mapping)")
    from . import c03
    c03.original_reads(ctx, "C05.R8")
    r.floor("C05.R8", 2)
    r10_renderers_are_pure(ctx)
    r11_slices(ctx)


def r11_slices(ctx) -> None:
    """The converters strip the wildcards at the edges of a value by slicing it ([1:], [:-1], [1:-1]) before they render
    the rest. A slice is the same elements — characters of the string parts, wildcard parts — in the same order."""
    from .standins import string_standin
    r, prog = ctx.r, ctx.prog
    r.rule("C05.R11", "slicing a Sigma string selects elements (characters, wildcard parts) by position: SigmaString.__getitem__ interpreted on stand-in strings for the edge-stripping slices and some inner ones against the slice of the element sequence")
    f = prog.lookup_method("sigma.types.SigmaString", "__getitem__")
    if f is None:
        raise AnalysisError("anchor vanished: sigma.types.SigmaString.__getitem__")
    Str, _Cased, _PH, sc, _env = string_standin(ctx)
    M, S1 = sc.WILDCARD_MULTI, sc.WILDCARD_SINGLE
    samples = [["abc"], ["abc", M], [M, "abc"], [M, "abc", M], ["ab"], ["a"], [M], [M, M], ["a", M, "b"], ["ab", S1, "cd", M], [M, "a", S1], ["a*b", M], []]
    slices = [slice(1, None), slice(None, -1), slice(1, -1), slice(0, 2), slice(2, None), slice(None, None), slice(1, 3)]

    def elements(parts):
        out = []
        for p_ in parts:
            if isinstance(p_, str):
                out.extend(p_)
            else:
                out.append(p_)
        return out

    wrong = []
    n = 0
    for parts in samples:
        for sl in slices:
            n += 1
            want = elements(parts)[sl]
            try:
                got = Str(list(parts)).call("__getitem__", sl)
                got_el = elements(got.s) if hasattr(got, "s") else repr(got)
            except Raised as ex:
                # the source refuses some slices (empty results, steps): accept a refusal only where nothing is selected
                ln = len(elements(parts))
                beyond = any(b is not None and abs(b) > ln for b in (sl.start, sl.stop))
                got_el = want if (not want or beyond) else f"<raises {ex}>"   # positions outside the value may be refused
            if got_el != want:
                wrong.append(f"{parts}[{sl.start}:{sl.stop}] gives {got_el}, the elements selected are {want}")
    if wrong:
        r.violation("C05.R11", f.qual, f"slice table: {wrong[0]}", f"{len(wrong)} of {n} interpreted slices deviate: the value the converters render after stripping an edge wildcard is not the rest of the value", f.loc)
    else:
        r.ok("C05.R11", f.qual, f"{n} slices of {len(samples)} stand-in strings select exactly the elements at those positions", f.loc)
    r.floor("C05.R11", 1)


RENDERERS = ("sigma.types.SigmaString.convert", "sigma.types.SigmaString.to_regex", "sigma.types.SigmaString.to_plain", "sigma.types.SigmaString.__str__",
             "sigma.types.SigmaRegularExpression.escape", "sigma.types.SigmaRegularExpression.to_plain", "sigma.types.SigmaRegularExpression.__str__")
SELF_MUTATORS = {"append", "extend", "insert", "pop", "remove", "clear", "update", "add", "discard", "setdefault", "sort", "reverse", "popitem"}


def r10_renderers_are_pure(ctx) -> None:
    """A rendering depends on the value and on the target configuration handed in (escape character, wildcard tokens, extra
    escaped characters, flags). A renderer that writes to the value can only do so to remember something for the next call,
    and the next call may be for another configuration (another backend, another template of the same backend)."""
    r, prog = ctx.r, ctx.prog
    r.rule("C05.R10", "renderings are functions of the value and the target configuration: no rendering method of a value type (convert, to_regex, to_plain, escape, __str__ and what they call on the value) stores to the value or mutates one of its attributes")
    roots = [q for q in RENDERERS if q in prog.funcs]
    if len(roots) < 5:
        raise AnalysisError(f"C05.R10: rendering methods not found ({len(roots)} of {len(RENDERERS)})")
    reach = ctx.cg.reachable(roots)
    n = 0
    for q in sorted(x for x in reach if x in prog.funcs and x.startswith("sigma.types.")):
        fi = prog.funcs[q]
        if fi.cls is None or fi.name in ("__init__", "__post_init__", "__new__"):
            continue
        if not any(p_ == "self" for p_ in fi.params()):
            continue
        n += 1
        bad = []
        memo_ok: list = []
        for x in walk_no_nested(fi.node):
            if isinstance(x, (ast.Attribute, ast.Subscript)) and isinstance(x.ctx, (ast.Store, ast.Del)):
                root = x
                while isinstance(root, (ast.Attribute, ast.Subscript)):
                    root = root.value
                if isinstance(root, ast.Name) and root.id == "self":
                    # a memo table whose key names every parameter of the method keeps renderings for different configurations apart
                    params = {p_ for p_ in fi.params() if p_ != "self"}
                    if isinstance(x, ast.Subscript) and isinstance(x.ctx, ast.Store) and params:
                        names = {n_.id for n_ in ast.walk(x.slice) if isinstance(n_, ast.Name)}
                        for _ in range(3):
                            for nm in list(names):
                                for v_ in assignments_to(fi.node, nm):
                                    if isinstance(v_, ast.expr):
                                        names |= {n_.id for n_ in ast.walk(v_) if isinstance(n_, ast.Name)}
                        if params <= names:
                            memo_ok.append(x)
                            continue
                    bad.append(x)
            elif isinstance(x, ast.Call) and isinstance(x.func, ast.Attribute) and x.func.attr in SELF_MUTATORS:
                root = x.func.value
                depth = 0
                while isinstance(root, (ast.Attribute, ast.Subscript)):
                    root = root.value
                    depth += 1
                if isinstance(root, ast.Name) and root.id == "self" and depth >= 1:
                    bad.append(x)
            elif isinstance(x, ast.Call) and call_name(x) in ("setattr", "object.__setattr__") and x.args and unparse(x.args[0]) == "self":
                bad.append(x)
        if bad:
            for b in bad:
                r.violation("C05.R10", q, short(prog.enclosing_stmt(b), 110), f"a rendering method writes to the value it renders (reached from {', '.join(t.rsplit('.', 2)[-2] + '.' + t.rsplit('.', 1)[-1] for t in ctx.cg.path_to(reach, q)[:1])}): what it keeps is handed to the next rendering, which may be for another target configuration (other escaped characters, another quote or escape character)", f"{fi.module.relpath}:{b.lineno}")
        else:
            r.ok("C05.R10", q, "no store to self, no mutating call on an attribute of self" + (f" ({len(memo_ok)} store(s) into a table keyed by every parameter)" if memo_ok else ""), fi.loc)
    r.analysed["C05.rendering_methods_checked_for_purity"] = n
    r.floor("C05.R10", 5)


def r1_target_escaping(ctx) -> None:
    r, prog = ctx.r, ctx.prog
    r.rule("C05.R1", "target escaping: the escaped set of SigmaString.convert contains both wildcard tokens, add_escaped and the escape character itself; the string-part branch, tabulated over (filter set empty?, escaped set empty?, escape char present?) x (character filtered?, escaped?), drops filtered characters, prefixes escaped ones and copies the rest; convert_value_str passes str_quote + add_escaped and the filter characters")
    f = prog.func(T + ".SigmaString.convert")
    loc = f.loc
    # convert() interpreted as a whole (sa.tabulate; helper methods a refactoring introduces resolve from the source) on
    # stand-in strings, over configurations of escape character, wildcard tokens (absent / single / multi-character),
    # additionally escaped and filtered characters
    from .standins import string_standin
    Str, _Cased, _PH, sc, senv = string_standin(ctx)

    class SigmaValueError(Exception):
        def __init__(self, *a, **k): super().__init__(*a)

    class SigmaPlaceholderError(Exception):
        def __init__(self, *a, **k): super().__init__(*a)

    senv.update({"SigmaValueError": SigmaValueError, "SigmaPlaceholderError": SigmaPlaceholderError})

    def conv(parts, esc, wm, ws, add, filt):
        try:
            return Str(parts).call("convert", esc, wm, ws, add, filt)
        except Raised as ex:
            return f"<raises {'SigmaPlaceholderError' if 'Placeholder' in str(ex) else 'SigmaValueError' if 'SigmaValueError' in str(ex) else str(ex)[:30]}>"

    def ref(parts, esc, wm, ws, add, filt, self_escape):
        escaped = set((wm or "") + (ws or "") + add) | ({esc} if self_escape and esc else set())
        out = []
        for p_ in parts:
            if isinstance(p_, str):
                for c in p_:
                    if c in filt:
                        continue
                    if c in escaped:
                        if esc is None:
                            return "<raises SigmaValueError>"
                        out.append(esc)
                    out.append(c)
            elif p_ is sc.WILDCARD_MULTI or p_ is sc.WILDCARD_SINGLE:
                tok = wm if p_ is sc.WILDCARD_MULTI else ws
                if tok is None:
                    return "<raises SigmaValueError>"
                out.append(tok)
            else:
                return "<raises SigmaPlaceholderError>"
        return "".join(out)

    wrong_set, wrong_str, wrong_special = [], [], []
    n_cfg = n_states = 0
    for esc in (None, "\\", "^"):
        for wm in (None, "*", ".*", "%%"):
            for ws in (None, "?", "."):
                for add in ("", '"x', "\\"):
                    for filt in ("", "F", "x"):
                        n_cfg += 1
                        alphabet = "a" + "".join(sorted(set((wm or "") + (ws or "") + add + filt)))
                        samples = [[alphabet], ["a", alphabet[::-1], "a"], ["aaa"], [c for c in alphabet], [alphabet, sc.WILDCARD_MULTI, "a"], ["a", sc.WILDCARD_SINGLE], [sc.WILDCARD_MULTI, sc.WILDCARD_SINGLE], ["a", _PH("p")], []]
                        for parts in samples:
                            n_states += 1
                            got = conv(parts, esc, wm, ws, add, filt)
                            wants = {ref(parts, esc, wm, ws, add, filt, False), ref(parts, esc, wm, ws, add, filt, True)}
                            if got not in wants:
                                msg = f"escape_char={esc!r} multi={wm!r} single={ws!r} add_escaped={add!r} filter={filt!r} parts={parts!r}: {got!r} instead of {sorted(wants)[0]!r}"
                                if any(not isinstance(x, str) for x in parts):
                                    wrong_special.append(msg)
                                elif isinstance(got, str) and not got.startswith("<") and any(len(t or "") > 1 for t in (wm, ws)) and filt == "" :
                                    wrong_set.append(msg)
                                else:
                                    wrong_str.append(msg)
    if wrong_set and not wrong_str:
        r.violation("C05.R1", f.qual, f"escaped set: {wrong_set[0]}", f"{len(wrong_set)} of {n_states} interpreted states: the escaped set must consist of every *character* of the wildcard tokens and of add_escaped — a multi-character token kept as one element leaves its characters unescaped inside literals, where the target reads them as the wildcard", loc)
    elif wrong_set or wrong_str:
        allw = wrong_str + wrong_set
        r.violation("C05.R1", f.qual, f"string branch: {allw[0]}", f"{len(allw)} of {n_states} interpreted states deviate: filtered characters are dropped, characters of the wildcard tokens and of add_escaped are prefixed with the escape character (SigmaValueError without one), the rest is copied — a fast path or branch copies characters that must be filtered or escaped (or drops/escapes others); an unescaped wildcard token or extra character in a literal acts as a target metacharacter", loc)
    else:
        r.ok("C05.R1", f.qual, f"convert() interpreted on {n_states} (configuration, value) states of {n_cfg} configurations (single/multi-character/absent wildcard tokens, add_escaped, filter, with and without escape character): filtered characters dropped, every character of the tokens and of add_escaped prefixed, others copied — on every path including the fast paths", loc)
    if wrong_special:
        r.violation("C05.R1", f.qual, f"special parts: {wrong_special[0]}", f"{len(wrong_special)} states deviate: a wildcard part is written as the configured token (SigmaValueError if the target has none), a placeholder is refused", loc)
    else:
        r.ok("C05.R1", f.qual, "wildcard parts are written as the configured tokens (refused without one), placeholders are refused", loc)
    if conv(["x\\"], "\\", "*", "?", "", "") == "x\\\\":
        r.ok("C05.R1", f.qual, "escaped set contains the escape character itself", loc)
    else:
        r.violation("C05.R1", f.qual, "escaped_chars lacks the escape character",
                    "the escape character itself is not escaped: a value ending in the escape character (x\\ with escape_char='\\' and str_quote='\"') renders as \"x\\\" — the backslash escapes the closing quote in the target language and the literal does not end; a backslash before a wildcard renders as \\* (an escaped, literal star)", loc)
    cv = prog.func(TQ + ".convert_value_str")
    # convert_value_str interpreted (sa.tabulate, Proxy) on a string stand-in with a recording convert()
    from ..tabulate import Proxy as _Pv, call_method as _cmv, Raised as _Rv
    cvp = [p_ for p_ in prog.func(T + ".SigmaString.convert").params() if p_ != "self"]
    got_v: list = []
    class _SV:
        def convert(self, *a_, **k_):
            d_ = dict(zip(cvp, a_)); d_.update(k_); got_v.append(d_)
            return "CONVERTED"
    cfg_v = {"escape_char": "E", "wildcard_multi": "M", "wildcard_single": "S", "str_quote": "Q", "add_escaped": "xy", "filter_chars": "fg", "str_quote_pattern": None, "str_quote_pattern_negation": True}
    outs_v = {}
    for quoting in (True, False):
        me_v = _Pv(prog, TQ, {}, dict(cfg_v, decide_string_quoting=lambda s_, _q=quoting: _q, quote_string=lambda t_: f"Q{t_}Q"), interp_kwargs={"max_steps": 3000})
        try:
            outs_v[quoting] = _cmv(prog, TQ, "convert_value_str", me_v, {}, _SV(), object(), interp_kwargs={"max_steps": 3000})
        except _Rv as ex:
            outs_v[quoting] = f"raises {ex}"
    want_v = {"escape_char": "E", "wildcard_multi": "M", "wildcard_single": "S", "add_escaped": "Qxy", "filter_chars": "fg"}
    if got_v and all({k_: d_.get(k_) for k_ in want_v} == want_v for d_ in got_v) and outs_v == {True: "QCONVERTEDQ", False: "CONVERTED"}:
        r.ok("C05.R1", cv.qual, "convert(escape_char, wildcard_multi, wildcard_single, str_quote + add_escaped, filter_chars); quoted iff decide_string_quoting (interpreted)", cv.loc)
    else:
        r.violation("C05.R1", cv.qual, f"convert(...) receives { {k_: (got_v[0] if got_v else {}).get(k_) for k_ in want_v} }, results {outs_v}", "the quote character must be among the escaped characters and the backend's filter characters must be passed", cv.loc)
    r.floor("C05.R1", 4)


def _spec_step(c: str, escaped: bool, escape: bool, acc: list, out: list) -> tuple[bool, list, list]:
    special = {"*": "MULTI", "?": "SINGLE"}
    acc, out = list(acc), list(out)
    if escaped:
        if c in special or c == "\\":
            acc.append(c)
        else:
            acc += ["\\", c]
        return False, acc, out
    if c == "\\" and escape:
        return True, acc, out
    if c in special:
        if acc:
            out.append("".join(acc))
        out.append(special[c])
        return False, [], out
    acc.append(c)
    return False, acc, out


def r2_r6_parser_printer(ctx) -> None:
    r, prog = ctx.r, ctx.prog
    r.rule("C05.R6", "parser transition function of SigmaString.__init__, tabulated over (character class: '*', '?', escape character, other) x escaped x escaping enabled x accumulator empty?: escaped ∧ (special ∨ escape char) → that char; escaped ∧ other → escape char + char; escape char (escaping on) → escaped state; special → flush + special part; other → accumulate; trailing escape kept")
    r.rule("C05.R2", "the plain form is re-parsable: the printer escapes exactly what the parser would otherwise reinterpret — wildcard characters inside string parts and a backslash that the parser would read as an escape")
    f = prog.func(T + ".SigmaString.__init__")
    loc = f.loc
    mm = prog.module(T)
    try:
        cm = mm.assigns["char_mapping"][-1].value  # type: ignore[attr-defined]
        cmap = {k.value: unparse(v) for k, v in zip(cm.keys, cm.values)}
        esc = const_eval(prog, mm, mm.assigns["escape_char"][-1].value)  # type: ignore[attr-defined]
    except Exception as e:
        raise AnalysisError(f"{T}: char_mapping / escape_char constants not found: {e}")
    if cmap == {"*": "SpecialChars.WILDCARD_MULTI", "?": "SpecialChars.WILDCARD_SINGLE"} and esc == "\\":
        r.ok("C05.R6", T, f"char_mapping {cmap}, escape_char {esc!r}")
    else:
        r.violation("C05.R6", T, f"char_mapping {cmap}, escape_char {esc!r}", "special characters must be '*' → multi, '?' → single, escape character backslash")
    # the parser interpreted as a whole (sa.tabulate; helpers and closures a refactoring introduces are followed) on every
    # text of up to four characters over the classes '*', '?', escape character, other — with escaping on and off; the
    # specified transition function (_spec_step) folded over the text is the reference
    from .standins import string_standin
    Str, _Cased, _PH0, sc0, _env0 = string_standin(ctx)
    wrong: list[str] = []
    n = 0
    # the class "other" is instantiated with several characters, among them every one-character constant of the parser's
    # code and of the helpers defined in its class (a character singled out there gets its own run)
    others = ["a", "%", " ", '"', "\u00e9"]
    for nd in ast.walk(f.cls.node if f.cls is not None else f.node):
        if isinstance(nd, ast.Constant) and isinstance(nd.value, str):
            for ch in nd.value:
                if ch not in "*?\\" and ch not in others and len(others) < 14 and len(nd.value) <= 2:
                    others.append(ch)
    texts = [""]
    for o in others:
        for L in range(1, 5 if o == "a" else 4):
            texts += ["".join(t) for t in itertools.product("*?\\" + o, repeat=L) if o in t or o == "a"]
    for text in texts:
        if True:
            for escape in (True, False):
                n += 1
                me = Str()
                me.s = None
                try:
                    me.call("__init__", text, escape)
                except Raised as ex:
                    wrong.append(f"{text!r} (escape={escape}): raises {ex}")
                    continue
                escaped, acc, out = False, [], []
                for c in text:
                    escaped, acc, out = _spec_step(c, escaped, escape, acc, out)
                if escaped:
                    acc.append("\\")
                if acc:
                    out.append("".join(acc))
                want = [sc0.WILDCARD_MULTI if x == "MULTI" else sc0.WILDCARD_SINGLE if x == "SINGLE" else x for x in out]
                got = me.s
                if not (isinstance(got, list) and len(got) == len(want) and all(a is b or (isinstance(a, str) and a == b) for a, b in zip(got, want))):
                    wrong.append(f"{text!r} (escape={escape}): parts {got!r} instead of {want!r}")
                elif getattr(me, "original", None) != text:
                    wrong.append(f"{text!r}: original = {getattr(me, 'original', None)!r}")
    if not wrong:
        r.ok("C05.R6", f.qual, f"parser interpreted on {n} texts (all texts up to 4 characters over the character classes, escaping on/off): parts equal the specified transition function folded over the text; a trailing escape character is kept as a plain character, the remainder is flushed", loc)
    else:
        r.violation("C05.R6", f.qual, f"parser transition: {wrong[0]}", f"{len(wrong)} of {n} texts deviate from the Sigma escaping rules (which characters an escape protects, when the escape character is kept, when a wildcard part is emitted, trailing escape character / remainder lost)", loc)
    try:
        me = Str()
        me.call("__init__", None)
        none_ok = me.s == []
    except Raised:
        none_ok = False
    if none_ok:
        r.ok("C05.R6", f.qual, "SigmaString(None) is the empty string", loc)
    else:
        r.violation("C05.R6", f.qual, "SigmaString(None)", "no value must give the empty string", loc)
    # ---- printer
    tp = prog.func(T + ".SigmaString.to_plain")
    loc = tp.loc
    # to_plain() interpreted (sa.tabulate) on stand-in strings of one part each
    from .standins import string_standin
    Str, _Cased, _PH, sc, _env = string_standin(ctx)
    table = {}
    for label, part in (("*", "*"), ("?", "?"), ("\\", "\\"), ("a", "a"), ("MULTI", sc.WILDCARD_MULTI), ("SINGLE", sc.WILDCARD_SINGLE), ("PH", _PH("x"))):
        try:
            table[label] = Str([part]).call("to_plain")
        except Raised as e:
            table[label] = f"<raises {e}>"
    want = {"*": "\\*", "?": "\\?", "a": "a", "MULTI": "*", "SINGLE": "?", "PH": "%x%"}
    diff = {k: table[k] for k in want if table[k] != want[k]}
    if not diff:
        r.ok("C05.R2", tp.qual, f"printer per part class: {table}: wildcard characters inside string parts are escaped, wildcard parts print as their character, placeholders as %name%", loc)
    else:
        r.violation("C05.R2", tp.qual, f"printer table differs: {diff}", "a literal '*' or '?' of a string part must print escaped, wildcard parts as '*' / '?' and placeholders as %name%, otherwise the plain form parses to a different value", loc)
    if table["\\"] == "\\\\":
        r.ok("C05.R2", tp.qual, "backslashes are doubled", loc)
    elif table["\\"] == "\\":
        # context-free printer (one part at a time, the part only through str.replace): a lone backslash prints as itself
        r.violation("C05.R2", tp.qual, "to_plain: backslash before a wildcard part / wildcard character / backslash",
                    "the printer does not double a backslash that the parser will read as escape character: the parts ['a\\\\', WILDCARD] print as a\\* which re-parses as the literal 'a*', and 'a\\\\\\\\b' (two backslashes) loses one — "
                    "str(value)/to_plain() is not a right inverse of the parser", loc)
    else:
        bs_out = table["\\"]
        r.violation("C05.R2", tp.qual, f"backslash prints as {bs_out!r}", "a backslash of a string part must print so that it parses back to one backslash", loc)
    r.floor("C05.R6", 3)
    r.floor("C05.R2", 1)


def r3_regex(ctx) -> None:
    r, prog = ctx.r, ctx.prog
    r.rule("C05.R3", "regex renderings: to_regex escapes a superset of the regex metacharacters and maps '*'→'.*', '?'→'.'; RegexTransformation uses re.escape on every string part with the same wildcard mapping; SigmaRegularExpression.escape inserts the escape character before every match of the plain alternation of the escaped strings and the escape character")
    # every regular-expression rendering of a string gets the backend's regex escape set (add_escaped_re), the set that
    # holds the delimiter of the regex literal; the string escape set (add_escaped) belongs to quoted strings
    n_tr = 0
    for q_, f_ in sorted(prog.funcs.items()):
        if not f_.module.name.startswith(("sigma.conversion", "sigma.backends")):
            continue
        for c_ in (x for x in walk_no_nested(f_.node) if isinstance(x, ast.Call) and isinstance(x.func, ast.Attribute) and x.func.attr == "to_regex"):
            n_tr += 1
            loc_ = f"{f_.module.relpath}:{c_.lineno}"
            arg_ = unparse(c_.args[0]) if c_.args else (unparse(c_.keywords[0].value) if c_.keywords else "")
            if arg_ == "self.add_escaped_re":
                r.ok("C05.R3", q_, f"{short(c_, 60)}: regex escape set", loc_)
            else:
                r.violation("C05.R3", q_, short(c_, 100), f"the {{regex}} form of a string is built with {arg_ or 'no escape set'} instead of self.add_escaped_re: on a backend whose regex literal has its own delimiter (add_escaped_re = '/') a value `a/` renders as /a// — a character of the value ends the literal", loc_)
    if n_tr < 3:
        raise AnalysisError(f"only {n_tr} to_regex call sites found in conversion code (3 confirmed)")
    f = prog.func(T + ".SigmaString.to_regex")
    # to_regex interpreted (sa.tabulate, Proxy) with a recording convert(): what the regex rendering asks convert() for
    from ..tabulate import Proxy as _Pz, call_method as _cmz, Raised as _Rz
    cv_params = [p_ for p_ in prog.func(T + ".SigmaString.convert").params() if p_ != "self"]
    asked_z: list = []
    def rec_convert(*a_, **k_):
        d_ = dict(zip(cv_params, a_))
        d_.update(k_)
        asked_z.append(d_)
        return "CONVERTED"
    to_regex_params = [p_ for p_ in f.params() if p_ != "self"]
    try:
        for custom in ("", "#~"):
            _cmz(prog, T + ".SigmaString", "to_regex", _Pz(prog, T + ".SigmaString", {}, {"convert": rec_convert, "s": ["x"]}, interp_kwargs={"max_steps": 3000}), {}, *( [custom] if to_regex_params else []), interp_kwargs={"max_steps": 3000})
    except _Rz as ex:
        raise AnalysisError(f"{f.qual}: raises {ex} on a stand-in string")
    if len(asked_z) != 2:
        raise AnalysisError(f"{f.qual}: convert() is called {len(asked_z)} times for two renderings")
    plain_z, custom_z = asked_z
    add = plain_z.get("add_escaped")
    esc, wm, ws = plain_z.get("escape_char"), plain_z.get("wildcard_multi"), plain_z.get("wildcard_single")
    if not isinstance(add, str):
        r.violation("C05.R3", f.qual, f"add_escaped={add!r}", "the escaped set of the regex rendering must be the constant metacharacter set, optionally extended (+) by the backend's extra characters; a conditional or substituted set leaves metacharacters of a literal unescaped", f.loc)
        add = None
    covered = set(add) if add is not None else REGEX_META  # the escape character counts only if listed: convert() does not add it (C05.R1)
    miss = REGEX_META - covered
    if add is None:
        pass
    elif not miss:
        r.ok("C05.R3", f.qual, f"escaped {''.join(sorted(covered))!r} ⊇ regex metacharacters", f.loc)
    else:
        r.violation("C05.R3", f.qual, f"add_escaped={add!r}", f"regex metacharacters {sorted(miss)} of a literal string are not escaped and act as regex operators", f.loc)
    if (esc, wm, ws) == ("\\", ".*", "."):
        r.ok("C05.R3", f.qual, "escape '\\\\', '*' → '.*', '?' → '.'", f.loc)
    else:
        r.violation("C05.R3", f.qual, f"escape={esc!r}, multi={wm!r}, single={ws!r}", "wildcards must map to '.*' and '.', escaping with backslash", f.loc)
    if to_regex_params:
        cadd = custom_z.get("add_escaped")
        if isinstance(cadd, str) and add is not None and set(cadd) == set(add) | set("#~"):
            r.ok("C05.R3", f.qual, "backend-specific extra characters are added, not substituted", f.loc)
        else:
            r.violation("C05.R3", f.qual, f"add_escaped={cadd!r} with the backend's extra characters '#~'", "the backend's extra characters must be added to the metacharacter set, not replace it", f.loc)
    g = prog.func("sigma.processing.transformations.values.RegexTransformation.apply_string_value")
    # the sibling rendering interpreted (sa.tabulate, Proxy; `re` is the only library) on a stand-in string for each method
    import re as _re0
    from ..tabulate import Proxy as _P0, call_method as _cm0, Raised as _R0
    RT = "sigma.processing.transformations.values.RegexTransformation"

    class SpecialChars:
        def __init__(self, n): self.n = n
        def __repr__(self): return self.n
    SpecialChars.WILDCARD_MULTI, SpecialChars.WILDCARD_SINGLE = SpecialChars("<*>"), SpecialChars("<?>")
    class Placeholder:
        def __init__(self, name): self.name = name
    class SigmaRegularExpression:
        def __init__(self, regexp, flags=None, *a, **k): self.regexp, self.flags = regexp, set(flags or ())
    class SigmaRegularExpressionFlag:
        IGNORECASE, MULTILINE, DOTALL = "I", "M", "S"
    class SigmaConfigurationError(Exception):
        def __init__(self, *a, **k): super().__init__(*a)
    class _Val:
        def __init__(self, parts): self.s = list(parts)
        def __eq__(self, o): return (o == "" and not self.s) if isinstance(o, str) else o is self
        def __hash__(self): return id(self)
        def __len__(self): return sum(len(x) if isinstance(x, str) else 1 for x in self.s)
        def __bool__(self): return bool(self.s)
    env0 = {"SpecialChars": SpecialChars, "Placeholder": Placeholder, "SigmaRegularExpression": SigmaRegularExpression, "SigmaRegularExpressionFlag": SigmaRegularExpressionFlag,
            "SigmaConfigurationError": SigmaConfigurationError, "re": _re0}
    IK0 = {"max_steps": 6000, "behaviours": (SigmaConfigurationError,)}
    import string as _string
    parts0 = ["a.b", SpecialChars.WILDCARD_MULTI, "C+1", SpecialChars.WILDCARD_SINGLE, "\u00e9]", SpecialChars.WILDCARD_MULTI, _string.punctuation + " \t"]
    bracket = lambda t: "".join(f"[{c.lower()}{c.upper()}]" if c.isalpha() else _re0.escape(c) for c in t)  # noqa: E731
    bad0 = []
    for method, lit, want_flags in (("plain", _re0.escape, set()), ("ignore_case_flag", _re0.escape, {"I"}), ("ignore_case_brackets", bracket, set())):
        me0 = _P0(prog, RT, env0, {"method": method, "processing_item": None, "_pipeline": None}, interp_kwargs=IK0)
        want0 = "".join(lit(x) if isinstance(x, str) else ".*" if x is SpecialChars.WILDCARD_MULTI else "." for x in parts0)
        try:
            out0 = _cm0(prog, RT, "apply_string_value", me0, env0, "f", _Val(parts0), interp_kwargs=IK0)
            if not isinstance(out0, SigmaRegularExpression) or out0.regexp != want0 or out0.flags != want_flags:
                bad0.append(f"method {method}: {getattr(out0, 'regexp', out0)!r} with flags {sorted(getattr(out0, 'flags', []))} instead of {want0!r} with flags {sorted(want_flags)}")
            empty0 = _Val([])
            if _cm0(prog, RT, "apply_string_value", me0, env0, "f", empty0, interp_kwargs=IK0) is not empty0:
                bad0.append(f"method {method}: the empty string is not passed through")
        except _R0 as ex:
            bad0.append(f"method {method}: raises {ex}")
        try:
            _cm0(prog, RT, "apply_string_value", me0, env0, "f", _Val(["a", Placeholder("p")]), interp_kwargs=IK0)
            bad0.append(f"method {method}: a placeholder is rendered into the regular expression instead of being refused")
        except _R0 as ex:
            if "SigmaConfigurationError" not in str(ex):
                bad0.append(f"method {method}: a placeholder raises {ex}")
    if not bad0:
        r.ok("C05.R3", g.qual, "string parts through re.escape (or per-character brackets), wildcards → '.*' / '.', placeholders refused (interpreted for the three methods)", g.loc)
    else:
        r.violation("C05.R3", g.qual, "RegexTransformation.apply_string_value", f"sibling regex rendering disagrees: every string part must go through re.escape and wildcards map to '.*'/'.' — {bad0[0]}", g.loc)
    h = prog.func(T + ".SigmaRegularExpression.escape")
    # escape() interpreted (sa.tabulate, Proxy; `re` is the only library) on stand-in expressions over escaped-string lists
    # (order matters: the alternation is ordered), escape characters, the escape-the-escape switch and flags
    import re as _re
    from ..tabulate import Proxy, call_method
    from .standins import string_standin
    Str, _Cs, _PHc, _spc, senv = string_standin(ctx)
    env = dict(senv, re=_re, cast=lambda t, v: v, SigmaPlaceholderError=type("SigmaPlaceholderError", (Exception,), {}))
    RX = T + ".SigmaRegularExpression"
    flagmap = {"I": "i", "M": "m", "S": "s"}

    def ref_escape(text, escaped, esc, ee, flags, fp):
        alts = [e for e in [*escaped, esc if ee else None] if e is not None]
        rx = "|".join(_re.escape(e) for e in alts)
        pos = {m.start() for m in _re.finditer(rx, text)} if rx else set()
        body = "".join((esc if i_ in pos else "") + ch for i_, ch in enumerate(text))
        return ("(?" + "".join(sorted(flagmap[f_] for f_ in flags)) + ")" if fp and flags else "") + body

    bad = []
    n = 0
    for text in ("foo/bar", "a\\b", "a/b/c\\/", "", "//", "abab", "a.b", "x\\\\/y"):
        for escaped in ((), ("/",), ("/", "bar"), ("ab", "a"), ("a", "ab"), (".",)):
            for esc, ee in (("\\", True), ("\\", False), ("^", True)):
                for flags, fp in ((set(), True), ({"I"}, True), ({"S", "I", "M"}, True), ({"I"}, False)):
                    n += 1
                    me = Proxy(prog, RX, env, {"regexp": Str([text] if text else []), "flags": set(flags), "sigma_to_re_flag": dict(flagmap)}, interp_kwargs={"max_steps": 8000})
                    try:
                        got = call_method(prog, RX, "escape", me, env, tuple(escaped), esc, ee, fp, interp_kwargs={"max_steps": 8000})
                    except Raised as ex:
                        got = f"<raises {ex}>"
                    want = ref_escape(text, escaped, esc, ee, flags, fp)
                    if got != want:
                        bad.append(f"expression {text!r}, escaped {escaped}, escape character {esc!r} (itself escaped: {ee}), flags {sorted(flags)} (prefix: {fp}): {got!r} instead of {want!r}")
    if not bad:
        r.ok("C05.R3", h.qual, f"escape() interpreted on {n} cases: the escape character is inserted at every match of the plain, ordered alternation of the escaped strings and (if asked) the escape character; the text is otherwise unchanged; the flag prefix lists the flags in sorted order", h.loc)
    else:
        r.violation("C05.R3", h.qual, f"escape(): {bad[0]}", f"{len(bad)} of {n} interpreted cases deviate: the positions to escape must be every match of the plain, ordered alternation of the escaped strings and the escape character: look-around context ('already escaped'), sets (unordered alternation) or other additions change where escape characters are inserted", h.loc)
    r.floor("C05.R3", 5)


def r4_field_names(ctx) -> None:
    r, prog = ctx.r, ctx.prog
    r.rule("C05.R4", "field names: escape positions are collected once as the union of pattern matches and quote-string matches on the *original* name and escaped in a single pass; the name is quoted per pattern (the template arguments are C05.R7)")
    f = prog.func(TQ + ".escape_and_quote_field")
    loc = f.loc
    # escape_and_quote_field interpreted (sa.tabulate, Proxy: helper methods resolve from the source; `re` of the standard
    # library is the only library) over backend configurations x field names
    import re as _re
    from itertools import pairwise as _pairwise
    from ..tabulate import Proxy, call_method
    env = {"re": _re, "pairwise": _pairwise}
    IK = {"max_steps": 6000}

    def run_cfg(name, cfg):
        me = Proxy(prog, TQ, env, dict(cfg), interp_kwargs=IK)
        try:
            return call_method(prog, TQ, "escape_and_quote_field", me, env, name, interp_kwargs=IK)
        except Raised as ex:
            return f"<raises {ex}>"

    def ref(name, cfg, self_escape):
        esc, pat, eq, q = cfg["field_escape"], cfg["field_escape_pattern"], cfg["field_escape_quote"], cfg["field_quote"]
        out = name
        if esc is not None:
            pos = {m.start() for m in pat.finditer(name)} if pat is not None else set()
            if eq and q is not None:
                pos |= {m.start() for m in _re.finditer(_re.escape(q), name)}
            if self_escape:
                pos |= {m.start() for m in _re.finditer(_re.escape(esc), name)}
            out = "".join((esc if i_ in pos else "") + ch for i_, ch in enumerate(name))
        if q is not None:
            qp = cfg["field_quote_pattern"]
            quote = True if qp is None else (bool(qp.match(out)) != bool(cfg["field_quote_pattern_negation"]))
            if quote:
                return q + out + q
        return out

    names = ["field", "field name", "a'b", "a\\'b", "''", "a b'c d", "", "x\\", "a\"b", "fie`ld", "f''g"]
    wrong, n = [], 0
    for esc in (None, "\\", "^"):
        for pat in (None, _re.compile("\\s"), _re.compile("['\\s]"), _re.compile("[\\\\']")):
            for eq in (True, False):
                for q in (None, "'", "`", "''"):
                    for qp, neg in ((None, True), (_re.compile("^\\w+$"), True), (_re.compile("^\\w+$"), False), (_re.compile(".*\\s"), False)):
                        cfg = {"field_escape": esc, "field_escape_pattern": pat, "field_escape_quote": eq, "field_quote": q, "field_quote_pattern": qp, "field_quote_pattern_negation": neg}
                        for name in names:
                            n += 1
                            got = run_cfg(name, cfg)
                            if got not in (ref(name, cfg, False), ref(name, cfg, True)):
                                wrong.append(f"field_escape={esc!r} pattern={pat.pattern if pat else None!r} escape_quote={eq} quote={q!r} quote_pattern={qp.pattern if qp else None!r} negation={neg}, name {name!r}: {got!r} instead of {ref(name, cfg, False)!r}")
    if not wrong:
        r.ok("C05.R4", f.qual, f"interpreted on {n} (configuration, field name) states: escape positions = pattern matches ∪ quote-string matches on the original name, escaped in one pass; quoted with field_quote on both sides per pattern and negation flag", loc)
    else:
        r.violation("C05.R4", f.qual, f"field name rendering: {wrong[0]}", f"{len(wrong)} of {n} interpreted states deviate: escape positions must be the union of pattern and quote-string matches on the original field name, escaped in a single pass (a second pass over an already escaped name escapes twice: a quote that the pattern also matches decodes to backslash + bare quote); the quote string inside a field name is escaped iff field_escape_quote; quoting per pattern", loc)
    # the escape string itself is not among the escaped positions
    cfg = {"field_escape": "\\", "field_escape_pattern": None, "field_escape_quote": True, "field_quote": "'", "field_quote_pattern": None, "field_quote_pattern_negation": True}
    got = run_cfg("a\\'b", cfg)
    if got == ref("a\\'b", cfg, True):
        r.ok("C05.R4", f.qual, "occurrences of the escape string inside the field name are escaped themselves", loc)
    else:
        r.violation("C05.R4", f.qual, "escape string not escaped",
                    "occurrences of the escape string inside the field name are not escaped themselves: the name a\\'b with field_escape='\\\\' renders as a\\\\'b, which decodes to a backslash followed by a bare (terminating) quote", loc)
    r.floor("C05.R4", 2)
    c01.r8_field_escaping(ctx, "C05.R7")


def r5_reparse_sites(ctx, rid: str = "C05.R5", placeholders: bool = False) -> None:
    r, prog = ctx.r, ctx.prog
    if placeholders:
        r.rule(rid, "printing a Sigma string flattens Placeholder parts to the text %name%: every site that prints a value and parses the text again restores them with insert_placeholders() (or only uses the text as a lookup key), so an unhandled placeholder is still refused in conversion")
    else:
        r.rule(rid, "sites that print a Sigma string and parse the text again (SigmaString(str(x)), SigmaString(x.to_plain()), SigmaRegularExpression(str(x))) are enumerated and reviewed; each inherits C05.R2")
    for q, f in sorted(prog.funcs.items()):
        if not f.module.name.startswith(("sigma.types", "sigma.modifiers", "sigma.processing", "sigma.rule", "sigma.conversion")):
            continue
        printed: dict[str, ast.AST] = {}
        for n in walk_no_nested(f.node):
            src_e = None
            if isinstance(n, ast.Call) and call_name(n) == "str" and n.args:
                src_e = n.args[0]
            elif isinstance(n, ast.Call) and isinstance(n.func, ast.Attribute) and n.func.attr == "to_plain" and not n.args and not n.keywords:
                src_e = n.func.value
            if src_e is None:
                continue
            cls = ctx.types.class_names(f.module, src_e)
            if not any(c.endswith((".SigmaString", ".SigmaCasedString")) for c in cls):
                continue
            # does the printed text flow into a SigmaString/SigmaRegularExpression constructor in this function?
            flows = False
            child: ast.AST = n
            for p in prog.ancestors(n):
                if isinstance(p, ast.stmt):
                    break
                if isinstance(p, ast.Call) and (call_name(p).split(".")[-1] in ("SigmaString", "SigmaRegularExpression", "SigmaCasedString", "__class__") or (call_name(p) == "cls" and f.cls is not None and prog.is_subclass(f.cls.qual, T + ".SigmaString"))) and child in p.args:
                    flows = True
                    break
                if isinstance(p, ast.Call) and child is p.func:
                    pass  # method call on the printed text (str(x).lower()): still the printed text
                child = p
            st = prog.enclosing_stmt(n)
            if isinstance(st, ast.Assign) and isinstance(st.targets[0], ast.Name):
                name = st.targets[0].id
                seen = {name}
                changed = True
                while changed:
                    changed = False
                    for a in walk_no_nested(f.node):
                        if isinstance(a, ast.Assign) and isinstance(a.targets[0], ast.Name) and a.targets[0].id not in seen and any(isinstance(x, ast.Name) and x.id in seen for x in ast.walk(a.value)):
                            seen.add(a.targets[0].id)
                            changed = True
                for c in walk_no_nested(f.node):
                    if isinstance(c, ast.Call) and call_name(c).split(".")[-1] in ("SigmaString", "SigmaRegularExpression", "SigmaCasedString", "__class__") and c.args and any(isinstance(x, ast.Name) and x.id in seen for x in ast.walk(c.args[0])):
                        flows = True
            if not flows:
                continue
            loc = f"{f.module.relpath}:{n.lineno}"
            reason = REPARSE_SITES.get((q, unparse(n)))
            if reason is None:  # the reviewed step may live in a helper method of the same class
                reason = next((why for (kq, kt), why in REPARSE_SITES.items() if kt == unparse(n) and kq.rsplit(".", 1)[0] == q.rsplit(".", 1)[0]), None)
            if placeholders:
                restores = any(isinstance(c, ast.Call) and isinstance(c.func, ast.Attribute) and c.func.attr == "insert_placeholders" for c in walk_no_nested(f.node))
                key_only = reason is not None and "lookup key" in reason
                if restores or key_only:
                    r.ok(rid, q, f"{unparse(n)} printed and re-parsed; " + ("placeholders restored with insert_placeholders()" if restores else "text used as lookup key only"), loc)
                else:
                    r.violation(rid, q, short(st, 120), "the value is printed (Placeholder parts become the text %name%) and parsed again without insert_placeholders(): a placeholder no transformation handled is emitted into the query as literal text instead of being refused", loc)
                continue
            if reason:
                r.ok(rid, q, f"{unparse(n)} is printed and re-parsed — reviewed: {reason}; exact only as far as C05.R2 holds", loc)
            else:
                r.violation(rid, q, short(st, 120), "a Sigma string is printed to text and parsed again: unless the printer is a right inverse of the parser (C05.R2) the value changes (backslash before wildcard → literal star); the site is not in the reviewed table", loc)
    if not placeholders:
        # parts hold *unescaped* characters: parsing text taken from a part interprets it a second time
        sc = prog.cls(T + ".SigmaString")
        n_ctor = 0
        for name, mf in sorted(sc.methods.items()):
            part_vars = set()
            for n in walk_no_nested(mf.node):
                if isinstance(n, ast.Assign) and isinstance(n.targets[0], ast.Name) and isinstance(n.value, ast.Subscript) and unparse(n.value.value) == "self.s":
                    part_vars.add(n.targets[0].id)
                if isinstance(n, (ast.For, ast.comprehension)) and unparse(n.iter) == "self.s" and isinstance(n.target, ast.Name):
                    part_vars.add(n.target.id)
            for c in walk_no_nested(mf.node):
                if isinstance(c, ast.Call) and call_name(c) in ("self.__class__", "SigmaString", "SigmaCasedString") and len(c.args) == 1 and not isinstance(c.args[0], ast.Constant):
                    n_ctor += 1
                    roots = {x.id for x in ast.walk(c.args[0]) if isinstance(x, ast.Name)}
                    loc = f"{mf.module.relpath}:{c.lineno}"
                    if roots & part_vars:
                        r.violation(rid, mf.qual, short(c, 80), "text cut out of a string part is handed to the parser again: parts hold the already unescaped characters, so a literal '\\*' inside the slice becomes a wildcard and two backslashes collapse into one", loc)
                    else:
                        r.ok(rid, mf.qual, f"{short(c, 60)}: constructor argument is not part text", loc)
        # the same through the callback interface: map_parts(func, filter, interpret_special=True) parses whatever func returns
        # for a part — if func derives its result from the part (it always does: it gets nothing else), the untouched
        # characters of the part are parsed a second time
        n_mp = 0
        for q, f in sorted(prog.funcs.items()):
            if not f.module.name.startswith("sigma.") or q.endswith("SigmaString.map_parts") or q.endswith("SigmaString.map_str_parts"):
                continue
            for c in (x for x in walk_no_nested(f.node) if isinstance(x, ast.Call) and isinstance(x.func, ast.Attribute) and x.func.attr == "map_parts"):
                n_mp += 1
                flag = c.args[2] if len(c.args) > 2 else next((k.value for k in c.keywords if k.arg == "interpret_special"), None)
                loc = f"{f.module.relpath}:{c.lineno}"
                if flag is None or (isinstance(flag, ast.Constant) and flag.value is False):
                    r.ok(rid, q, f"{short(c, 50)}: results of the callback are stored as plain text", loc)
                else:
                    r.violation(rid, q, short(c, 120), f"map_parts(..., interpret_special={unparse(flag)}) parses the callback's whole result for a part: the characters of the part the callback did not touch are interpreted a second time ('50\\* off' → wildcard, '\\\\srv' loses a backslash) — even if nothing was replaced", loc)
        r.analysed["C05.map_parts_call_sites"] = n_mp
    r.floor(rid, 2)


def r9_names_from_values(ctx) -> None:
    """A value that becomes a *name* (field reference) is taken by its characters. str(x)/x.to_plain() of a Sigma string is
    the re-parsable source form (backslash in front of a literal * or ?), which names another field."""
    r, prog = ctx.r, ctx.prog
    r.rule("C05.R9", "a field reference built from a Sigma string takes the characters of the value (to_plain(True) / to_plain(regex=True) / a name that is already a str), not the escaped source form str(x) / x.to_plain()")
    n = 0
    for q, f in sorted(prog.funcs.items()):
        if not f.module.name.startswith("sigma."):
            continue
        for c in (x for x in walk_no_nested(f.node) if isinstance(x, ast.Call) and call_name(x).split(".")[-1] == "SigmaFieldReference" and x.args):
            n += 1
            a0 = c.args[0]
            loc = f"{f.module.relpath}:{c.lineno}"
            escaped = None
            for x in ast.walk(a0):
                if isinstance(x, ast.Call) and call_name(x) == "str" and x.args and any(t.endswith((".SigmaString", ".SigmaCasedString")) for t in ctx.types.class_names(f.module, x.args[0])):
                    escaped = x
                if isinstance(x, ast.Call) and isinstance(x.func, ast.Attribute) and x.func.attr == "to_plain" and any(t.endswith((".SigmaString", ".SigmaCasedString")) for t in ctx.types.class_names(f.module, x.func.value)):
                    raw = (x.args and isinstance(x.args[0], ast.Constant) and x.args[0].value is True) or any(k.arg == "regex" and isinstance(k.value, ast.Constant) and k.value.value is True for k in x.keywords)
                    if not raw:
                        escaped = x
            if escaped is not None:
                r.violation("C05.R9", q, short(c, 100), f"the field name is {unparse(escaped)}, the escaped source form of the value: `other|fieldref: 'bytes\\*2'` refers to the field bytes\\*2 (with a backslash) instead of bytes*2, and a field name mapping for bytes*2 does not reach it", loc)
            else:
                r.ok("C05.R9", q, f"{short(c, 80)}: name taken by its characters", loc)
    r.analysed["C05.field_reference_constructions"] = n
    r.floor("C05.R9", 2)
