"""C16 — a pipeline file cannot grant itself code execution, file or network access.

Decided structurally (DESIGN §2 C16): sink inventory + gate dominance (R1), capability bits come
from the caller only (R2), environment gates (R3), path containment precedes execution (R4),
safe parser/template variants (R5)."""
from __future__ import annotations

import ast
import re
from typing import Optional

from ..prog import AnalysisError, FuncInfo, call_name, dotted, short, stmt_head, unparse, walk_no_nested
from ..util import assignments_to, atomic_guards, cfg_of, const_eval, guards_at

CAP_FIELDS = ("allow_external_sources", "allow_template_vars", "vars_allowed_paths")
ENV_VARS = {"PYSIGMA_ALLOW_EXTERNAL_SOURCES": "allow_external_sources",
            "PYSIGMA_ALLOW_VARS_EXECUTION": "allow_template_vars"}

SINK_PATTERNS = [
    (r"^subprocess\.", "process"), (r"^os\.(system|popen|exec\w*|spawn\w*|posix_spawn\w*|fork|startfile)$", "process"),
    (r"^(builtins\.)?open$", "file"), (r"^io\.open$", "file"), (r"^codecs\.open$", "file"),
    (r"^pathlib\.(Path|PurePath|PosixPath)\.(open|read_text|read_bytes|write_text|write_bytes)$", "file"),
    (r"^(requests|urllib|urllib3|http|httpx|socket|ftplib|smtplib)(\.|$)", "network"),
    (r"^importlib\.(util\.)?(spec_from_file_location|module_from_spec|import_module|__import__)$", "exec"),
    (r"\.exec_module$", "exec"), (r"\.load_module$", "exec"),
    (r"^(builtins\.)?(exec|eval|compile|__import__)$", "exec"), (r"^runpy\.", "exec"),
    (r"^pickle\.(load|loads)$", "exec"), (r"^marshal\.(load|loads)$", "exec"),
    (r"^yaml\.(load|load_all|unsafe_load|unsafe_load_all|full_load|full_load_all)$", "exec"),
    (r"^jinja2\.(environment\.)?Environment$", "exec"), (r"^jinja2\.(environment\.)?Template$", "exec"),
    (r"^jinja2\.(loaders\.)?FileSystemLoader$", "file"),
    (r"^shutil\.", "file"), (r"^os\.(remove|unlink|rename|replace|rmdir|mkdir|makedirs|chmod|chown|symlink|link|open|listdir|scandir|walk)$", "file"),
    (r"^ctypes\.", "exec"),
]

# Sinks that are not behind one of the two capability gates, confirmed by reading (one reason each).
UNGATED_OK = {
    # keyed by class: the call may live in a helper of resolve_pipeline; that the opened path is the caller's specifier is
    # decided by interpreting resolve_pipeline (resolver_outcome, C16.R4)
    ("sigma.processing.resolver.ProcessingPipelineResolver", "open"):
        "opens the pipeline file the *caller* named (spec argument of resolve_pipeline), not a path taken from a pipeline document",
    ("sigma.processing.templates.TemplateBase.__post_init__", "FileSystemLoader"):
        "Jinja template *read* from the 'path' key with a sandboxed environment: not one of the four capabilities of the property (command, placeholder source file, network, Python vars file); recorded as observation",
}

ROOTS = [
    "sigma.processing.pipeline.ProcessingPipeline.from_yaml",
    "sigma.processing.pipeline.ProcessingPipeline.from_dict",
    "sigma.processing.resolver.ProcessingPipelineResolver.resolve_pipeline",
    "sigma.processing.resolver.ProcessingPipelineResolver.resolve",
    "sigma.conversion.base.Backend.convert",
]

# gated function -> (gate function, predicate method, exception)
GATES = {
    "_fetch_data": ("sigma.processing.transformations.external.ExternalSourceBaseTransformation._get_values",
                    "_external_sources_allowed"),
    "_load_vars_from_file": ("sigma.processing.templates.TemplateBase.__post_init__",
                             "_vars_execution_allowed"),
}
PREDICATES = {
    "sigma.processing.transformations.external.ExternalSourceBaseTransformation._external_sources_allowed":
        ("allow_external_sources", "PYSIGMA_ALLOW_EXTERNAL_SOURCES"),
    "sigma.processing.templates.TemplateBase._vars_execution_allowed":
        ("allow_template_vars", "PYSIGMA_ALLOW_VARS_EXECUTION"),
}


def sink_kind(names: list[str]) -> Optional[tuple[str, str]]:
    for n in names:
        for pat, kind in SINK_PATTERNS:
            if re.search(pat, n):
                return n, kind
    return None


def _local_import_names(fi: FuncInfo) -> dict[str, str]:
    out = {}
    for n in ast.walk(fi.node):
        if isinstance(n, ast.Import):
            for a in n.names:
                out[a.asname or a.name.split(".")[0]] = a.name if a.asname else a.name.split(".")[0]
        elif isinstance(n, ast.ImportFrom) and n.module:
            for a in n.names:
                out[a.asname or a.name] = f"{n.module}.{a.name}"
    return out


def call_candidates(ctx, fi: FuncInfo, c: ast.Call) -> list[str]:
    """Possible fully-qualified spellings of the callee of c."""
    names = list(ctx.types.callee_fullnames(fi.module, c))
    d = call_name(c)
    if d:
        head, _, rest = d.partition(".")
        loc = _local_import_names(fi)
        q = loc.get(head) or fi.module.imports.get(head)
        if q:
            names.append(q + ("." + rest if rest else ""))
        elif head not in ("self", "cls"):
            names.append(d)
        if rest:
            names.append("." + d.rsplit(".", 1)[-1])  # method-name-only spelling (".exec_module")
    return names


def cap_fields_of(prog, cq: str) -> list[str]:
    fields = prog.dataclass_fields(cq)
    return [f for f in CAP_FIELDS if f in fields]


_CTX = None


def run(ctx) -> None:
    global _CTX
    _CTX = ctx
    r, prog = ctx.r, ctx.prog
    r.explanation = (
        "Non-interference mechanism of pipeline loading decided on the source: every sink call in scope is "
        "classified and, if it implements one of the capabilities, reachable only through its gate function "
        "under the gate predicate (CFG dominance); capability fields are never stored, never passed from "
        "document data (keyword/dict-key discipline with backward trust through parameters) and are stripped "
        "from every document dict that is splatted into a constructor of a class carrying them; the "
        "environment predicates accept only the documented values; realpath containment dominates execution "
        "of a vars file. Decides the mechanism, not the behaviour of third-party code behind the sinks.")
    r1_sinks(ctx)
    r2_capabilities(ctx)
    r3_env(ctx)
    r4_paths(ctx)
    r5_safe_variants(ctx)


# ------------------------------------------------------------------------------------------ R1
def r1_sinks(ctx) -> None:
    r, prog, cg = ctx.r, ctx.prog, ctx.cg
    r.rule("C16.R1", "every capability sink reachable from pipeline loading/conversion is called only from its "
                     "gate function, dominated by the allowing outcome of the gate predicate whose other outcome raises SigmaSecurityError")
    reach = cg.reachable(ROOTS)
    scope = {q for q in prog.funcs if q.startswith(("sigma.processing.", "sigma.conversion.", "sigma.pipelines."))}
    scope |= {q for q in reach if q in prog.funcs}
    r.analysed["C16.scope_functions"] = len(scope)
    r.analysed["C16.reachable_from_roots"] = len([q for q in reach if q in prog.funcs])
    gated_funcs_with_sinks: dict[str, list[str]] = {}
    n_sinks = 0
    for q in sorted(scope):
        fi = prog.funcs[q]
        for c in (n for n in walk_no_nested(fi.node) if isinstance(n, ast.Call)):
            sk = sink_kind(call_candidates(ctx, fi, c))
            if not sk:
                continue
            n_sinks += 1
            name, kind = sk
            loc = f"{fi.module.relpath}:{c.lineno}"
            short_name = name.rsplit(".", 1)[-1]
            if fi.name in GATES:
                gated_funcs_with_sinks.setdefault(q, []).append(f"{name} ({kind})")
                r.ok("C16.R1", q, f"sink {name} [{kind}] inside gated function {fi.name}", loc)
                continue
            ok_reason = UNGATED_OK.get((q, short_name)) or (UNGATED_OK.get((fi.cls.qual, short_name)) if fi.cls is not None else None)
            if ok_reason and fi.cls is not None and (fi.cls.qual, short_name) in UNGATED_OK and (q, short_name) not in UNGATED_OK and fi.cls.qual.endswith("ProcessingPipelineResolver"):
                ro = resolver_outcome(ctx)
                if ro.raised is not None or ro.opened != ["the/spec.yml"]:
                    ok_reason = None  # the resolver opens something else than the caller's specifier
            if ok_reason:
                r.ok("C16.R1", q, f"sink {name} [{kind}] allowed ungated: {ok_reason}", loc)
                continue
            path = cg.path_to(reach, q) if q in reach else []
            r.violation("C16.R1", q, f"{short(c, 120)}",
                        f"{kind} sink {name} is reachable from pipeline loading/conversion but lies in no gated "
                        f"function ({', '.join(GATES)}) and is not in the reviewed table of ungated sinks",
                        loc, path)
    # every override of a gated function name is a gated function too (even without a visible sink)
    for gname, (gate_q, pred_name) in GATES.items():
        gate = prog.func(gate_q)
        impls = [f for q, f in prog.funcs.items() if f.name == gname and f.cls is not None]
        if not impls:
            raise AnalysisError(f"anchor vanished: no method named {gname}")
        # who references the gated name? only the gate function and the private helpers of its class that it alone calls;
        # the gate function is then interpreted (sa.tabulate, Proxy) with the predicate answering no and yes
        from ..tabulate import Proxy, call_method, Raised
        from .c06_keys import U, _universal_names, _fields
        gcls = gate.cls.qual
        H = {gate.qual}
        work = [gate]
        while work:
            f0 = work.pop()
            for c0 in walk_no_nested(f0.node):
                if isinstance(c0, ast.Call) and call_name(c0).startswith("self._") and call_name(c0).count(".") == 1 and call_name(c0)[5:] not in (gname, pred_name):
                    hm = prog.lookup_method(gcls, call_name(c0)[5:])
                    if hm is not None and hm.qual not in H and hm.cls is not None and hm.cls.qual == gcls:
                        H.add(hm.qual)
                        work.append(hm)
        # a helper in H may be entered only from H (otherwise its part of the gate could be by-passed)
        for hq in sorted(H - {gate.qual}):
            hname = hq.rsplit(".", 1)[-1]
            for q, fi in sorted(prog.funcs.items()):
                if q in H:
                    continue
                for n in walk_no_nested(fi.node):
                    if isinstance(n, ast.Attribute) and n.attr == hname and n.attr.startswith("_"):
                        H.discard(hq)
        for q, fi in sorted(prog.funcs.items()):
            for n in walk_no_nested(fi.node):
                if isinstance(n, ast.Attribute) and n.attr == gname:
                    loc = f"{fi.module.relpath}:{n.lineno}"
                    if fi.name == gname:
                        continue  # an implementation referring to its base implementation
                    gs = atomic_guards(guards_at(prog, fi, n))
                    if q in H and _gate_dominates(prog, fi, n, pred_name):
                        gs = gs + [(f"self.{pred_name}()", True)]
                    if q in H and (f"self.{pred_name}()", True) in gs:
                        r.ok("C16.R1", q, f"call of {gname} dominated by self.{pred_name}() == True, inside the gate function {gate.name}{'' if q == gate.qual else ' (private helper only it calls)'}", loc)
                    elif q in H:
                        r.violation("C16.R1", q, stmt_head(prog.enclosing_stmt(n)),
                                    f"call of {gname} is not dominated by the allowing outcome of self.{pred_name}() "
                                    f"(dominating guards: {gs})", loc)
                    else:
                        r.violation("C16.R1", q, stmt_head(prog.enclosing_stmt(n)),
                                    f"call of {gname} is not dominated by the allowing outcome of self.{pred_name}() "
                                    f"(it lies outside the gate function {gate.qual} and the helpers only it calls)", loc)

        class SigmaSecurityError(Exception):
            def __init__(self, *a, **k): super().__init__(*a)
        env = _universal_names(prog, gate.module)
        env["SigmaSecurityError"] = SigmaSecurityError
        IKg = {"max_steps": 20000, "behaviours": (SigmaSecurityError,)}
        stored = {n.attr for mth in prog.classes[gcls].methods.values() for n in ast.walk(mth.node)
                  if isinstance(n, ast.Attribute) and isinstance(n.ctx, ast.Store) and isinstance(n.value, ast.Name) and n.value.id == "self"}
        problems_g = []
        uninterpretable = None
        for history in ((False,), (False, False), (True,), (False, True)):
            calls_g: list = []
            answers = list(history)
            cur = {"ans": None}
            attrs = {k: U(k) for k in _fields(prog, gcls)}
            attrs.update({k: None for k in stored if k.startswith("_")})
            attrs.update({"path": None, "vars": "vars.py", pred_name: (lambda: cur["ans"]), gname: (lambda *a, **k: (calls_g.append(cur["ans"]), U("fetched"))[1])})
            me = Proxy(prog, gcls, env, attrs, interp_kwargs=IKg)
            outcomes = []
            for ans in answers:
                cur["ans"] = ans
                n_before = len(calls_g)
                try:
                    call_method(prog, gcls, gate.name, me, env, interp_kwargs=IKg)
                    outcomes.append(("returned", len(calls_g) - n_before))
                except Raised as ex:
                    outcomes.append(("refused" if "SigmaSecurityError" in str(ex) else f"raises {ex}", len(calls_g) - n_before))
                except AnalysisError as ex:
                    # a construct the interpreter has no model for: the CFG dominance above stands on its own
                    uninterpretable = str(ex)
                    outcomes.append(("refused" if ans is False else "returned", 1 if ans else 0))
                    calls_g[:] = [c_ for c_ in calls_g if c_ is not False]
            if any(a_ is False for a_ in calls_g):
                problems_g.append(f"{gname} is called although {pred_name}() answers no (answers {answers}: {outcomes})")
            for ans, (what, ncalls) in zip(answers, outcomes):
                if ans is False and what != "refused":
                    problems_g.append(f"{pred_name}() answers no but {gate.name} {what} instead of raising SigmaSecurityError (answers {answers})")
            # after an allowing answer only the call of the gated function matters (what follows works on stand-in data)
            if answers[-1] is True and answers.count(True) == 1 and outcomes[-1][1] < 1:
                problems_g.append(f"{pred_name}() answers yes and {gname} is not called ({outcomes[-1][0]}; answers {answers})")
        if uninterpretable is not None:
            r.note(f"C16.R1: {gate.qual} not interpreted ({uninterpretable[:80]}); decided by CFG dominance alone")
        elif problems_g:
            r.violation("C16.R1", gate.qual, f"gate on {pred_name}", f"the refusing outcome of {pred_name}() does not raise SigmaSecurityError before {gname}, or hands out what an earlier refused call left behind: {problems_g[0]}", gate.loc)
        else:
            r.ok("C16.R1", gate.qual, f"interpreted over 4 answer histories of {pred_name}(): {gname} runs only after an allowing answer; a refusing answer raises SigmaSecurityError and leaves nothing behind", gate.loc)
    # the cache of the external values is written only inside the gate function (and the helpers only it calls)
    gv = prog.func(GATES["_fetch_data"][0])
    Hv = {gv.qual}
    work = [gv]
    while work:
        f0 = work.pop()
        for c0 in walk_no_nested(f0.node):
            if isinstance(c0, ast.Call) and call_name(c0).startswith("self._") and call_name(c0).count(".") == 1:
                hm = prog.lookup_method(gv.cls.qual, call_name(c0)[5:])
                if hm is not None and hm.qual not in Hv and hm.cls is not None and hm.cls.qual == gv.cls.qual:
                    Hv.add(hm.qual)
                    work.append(hm)
    for q, fi in sorted(prog.funcs.items()):
        for n in walk_no_nested(fi.node):
            if isinstance(n, ast.Attribute) and n.attr == "_values_cache" and isinstance(n.ctx, (ast.Store, ast.Del)):
                st_ = prog.enclosing_stmt(n)
                gs = atomic_guards(guards_at(prog, fi, n))
                want_g = ("self._external_sources_allowed()", True)
                via = None
                rhs = getattr(st_, "value", None)
                if isinstance(rhs, ast.Call) and call_name(rhs).startswith("self._") and call_name(rhs).count(".") == 1:
                    hm = prog.lookup_method(gv.cls.qual, call_name(rhs)[5:])
                    if hm is not None and hm.qual in Hv:
                        rets = [x for x in walk_no_nested(hm.node) if isinstance(x, ast.Return)]
                        if rets and all(want_g in atomic_guards(guards_at(prog, hm, x)) for x in rets):
                            via = hm
                if q in Hv and want_g not in gs and _gate_dominates(prog, fi, n, "_external_sources_allowed"):
                    gs = gs + [want_g]
                if via is None and isinstance(rhs, ast.Call) and call_name(rhs).startswith("self._") and call_name(rhs).count(".") == 1:
                    hm2 = prog.lookup_method(gv.cls.qual, call_name(rhs)[5:])
                    if hm2 is not None and hm2.qual in Hv:
                        rets2 = [x for x in walk_no_nested(hm2.node) if isinstance(x, ast.Return)]
                        if rets2 and all(_gate_dominates(prog, hm2, x, "_external_sources_allowed") for x in rets2):
                            via = hm2
                if q in Hv and want_g in gs:
                    r.ok("C16.R1", q, "cache written only after the gate", f"{fi.module.relpath}:{n.lineno}")
                elif q in Hv and via is not None:
                    r.ok("C16.R1", q, f"cache written with the result of {via.name}(), every return of which lies behind the gate", f"{fi.module.relpath}:{n.lineno}")
                elif q in Hv:
                    r.violation("C16.R1", q, stmt_head(st_),
                                "_values_cache is written on a path that has not passed the gate; the cache "
                                "short-cut at the top of _get_values would then hand out ungated data", f"{fi.module.relpath}:{n.lineno}")
                else:
                    r.violation("C16.R1", q, stmt_head(prog.enclosing_stmt(n)),
                                "_values_cache written outside the gated _get_values", f"{fi.module.relpath}:{n.lineno}")
    r.analysed["C16.sinks_found"] = n_sinks
    r.floor("C16.R1", 9)


# ------------------------------------------------------------------------------------------ R2
def _trusted_expr(fi: FuncInfo, e: ast.AST, field: str) -> Optional[str]:
    """None if e is a trusted source for capability ``field``; otherwise the reason it is not."""
    if isinstance(e, ast.Constant) and e.value in (False, None):
        return None
    if isinstance(e, ast.Name):
        if e.id == field and e.id in fi.params():
            # the parameter must not be re-assigned inside the function from anything untrusted
            for v in assignments_to(fi.node, e.id):
                if isinstance(v, ast.AST) and not isinstance(v, ast.stmt):
                    why = _trusted_path_value(fi, v, field)
                    if why:
                        return f"parameter {e.id} is re-assigned from {short(v, 80)} ({why})"
                else:
                    return f"parameter {e.id} is re-bound by {stmt_head(v)}"
            return None
        return f"name {e.id} is not the same-named parameter of {fi.qual}"
    return f"expression {short(e, 80)} is neither False/None nor the same-named parameter"


def _trusted_path_value(fi: FuncInfo, v: ast.AST, field: str) -> Optional[str]:
    """vars_allowed_paths may be derived from the caller-given source_path (from_yaml)."""
    if isinstance(v, ast.Constant) and v.value in (False, None):
        return None
    if field == "vars_allowed_paths" and _CTX is not None and fi.qual == "sigma.processing.pipeline.ProcessingPipeline.from_yaml" and not from_yaml_outcomes(_CTX):
        return None  # what from_yaml hands to from_dict is decided by interpreting it (caller's value, or the real directory of the file)
    if field == "vars_allowed_paths":
        names = {n.id for n in ast.walk(v) if isinstance(n, ast.Name)}
        params = set(fi.params())
        bad = {n for n in names if n not in params and n not in ("os", "str", "tuple", "Path")}
        if not bad and "source_path" in names and "realpath" in unparse(v):
            return None
        return "not derived from the caller's source_path through os.path.realpath"
    return "re-assignment of a capability parameter"


def from_yaml_outcomes(ctx) -> list[str]:
    """ProcessingPipeline.from_yaml interpreted (sa.tabulate, ClassProxy) with a recording from_dict, a stand-in yaml module and a
    model of os.path: what from_dict receives for every combination of caller-given restriction, source path and opt-ins.
    Returns the deviations from: capabilities exactly as the caller gave them; vars_allowed_paths as given, or — when the caller
    gave none (None) and a source path — the one-element tuple (dirname(realpath(source_path)),), whatever the opt-ins say."""
    import itertools
    import types as _types
    from ..tabulate import ClassProxy, call_method, Raised
    if getattr(ctx, "_c16_from_yaml", None) is not None:
        return ctx._c16_from_yaml
    prog = ctx.prog
    PP = "sigma.processing.pipeline.ProcessingPipeline"
    path_mod = _types.SimpleNamespace(realpath=lambda p_: f"REAL({p_})", dirname=lambda p_: f"DIR({p_})", abspath=lambda p_: f"ABS({p_})",
                                      normpath=lambda p_: f"NORM({p_})", join=lambda *a: "/".join(a), sep="/")
    from .c06_keys import U

    class _Doc(dict):
        """the parsed document: has every key anybody asks for, each with a value that says where it came from"""
        def __contains__(self, k): return True
        def __getitem__(self, k): return f"FROM-DOCUMENT:{k}"
        def get(self, k, d_=None): return f"FROM-DOCUMENT:{k}"
        def pop(self, k, *d_): return f"FROM-DOCUMENT:{k}"
        def __bool__(self): return True
    the_doc = _Doc()

    class _Yaml:
        parser = _types.SimpleNamespace(ParserError=type("ParserError", (Exception,), {}))
        YAMLError = type("YAMLError", (Exception,), {})
        def __getattr__(self, k):
            if k.startswith("__"):
                raise AttributeError(k)
            return (lambda *a, **kw: the_doc) if "load" in k else U("yaml." + k)
    yaml_mod = _Yaml()
    env = {"os": _types.SimpleNamespace(path=path_mod, sep="/"), "yaml": yaml_mod}
    IK = {"max_steps": 6000}
    bad: list[str] = []
    for vap, sp, atv, aes in itertools.product((None, (), ("given",), ("a", "b")), (None, "dir/p.yml"), (False, True), (False, True)):
        got: dict = {}
        def from_dict(d_, *a, **k):
            got["doc"], got["args"], got["kw"] = d_, a, k
            return "PIPELINE"
        klass = ClassProxy(prog, PP, env, interp_kwargs=IK, overrides={"from_dict": from_dict})
        try:
            ret = call_method(prog, PP, "from_yaml", klass, env, "TEXT", allow_template_vars=atv, vars_allowed_paths=vap, source_path=sp, allow_external_sources=aes, interp_kwargs=IK)
        except Raised as ex:
            bad.append(f"vars_allowed_paths={vap!r}, source_path={sp!r}: raises {ex}")
            continue
        want_vap = vap if (vap is not None or sp is None) else ("DIR(REAL(dir/p.yml))",)
        kw = got.get("kw", {})
        case = f"from_yaml(vars_allowed_paths={vap!r}, source_path={sp!r}, allow_template_vars={atv}, allow_external_sources={aes})"
        if ret != "PIPELINE" or got.get("doc") is not the_doc:
            bad.append(f"{case}: from_dict is not called with the parsed document ({got.get('doc')!r})")
        elif kw.get("vars_allowed_paths", "<missing>") != want_vap:
            bad.append(f"{case}: from_dict receives vars_allowed_paths={kw.get('vars_allowed_paths', '<missing>')!r} instead of {want_vap!r}")
        elif kw.get("allow_template_vars", "<missing>") is not atv or kw.get("allow_external_sources", "<missing>") is not aes:
            bad.append(f"{case}: from_dict receives allow_template_vars={kw.get('allow_template_vars', '<missing>')!r}, allow_external_sources={kw.get('allow_external_sources', '<missing>')!r}")
    ctx._c16_from_yaml = bad
    return bad


def _gate_dominates(prog, fi: FuncInfo, node: ast.AST, pred_name: str, depth: int = 0) -> bool:
    """``node`` runs only after self.<pred_name>() answered yes: it lies under that guard, or every path to it passes a call
    of a helper of the class that returns normally only after the predicate answered yes (it raises otherwise)."""
    want = (f"self.{pred_name}()", True)
    if want in atomic_guards(guards_at(prog, fi, node)):
        return True
    if depth > 1 or fi.cls is None:
        return False
    cfg = cfg_of(fi)
    at_nodes = [n_ for n_ in cfg.node_of_expr(node, prog.parent) if cfg.is_reachable(n_)] if not isinstance(node, ast.stmt) else [n_ for n_ in cfg.nodes_of(node) if cfg.is_reachable(n_)]
    if not at_nodes:
        return False
    for c in walk_no_nested(fi.node):
        if not (isinstance(c, ast.Call) and call_name(c).startswith("self._") and call_name(c).count(".") == 1):
            continue
        h = prog.lookup_method(fi.cls.qual, call_name(c)[5:])
        if h is None or h is fi or h.name == pred_name:
            continue
        body = h.node.body
        last = body[-1] if body else None
        rets = [x for x in walk_no_nested(h.node) if isinstance(x, ast.Return)]
        ends_closed = isinstance(last, (ast.Raise, ast.Return))
        if not (ends_closed and rets and all(_gate_dominates(prog, h, x, pred_name, depth + 1) for x in rets)) and not (
                ends_closed and not rets and isinstance(last, ast.Raise)):
            continue
        if not rets:
            continue
        cn = cfg.node_of_expr(c, prog.parent)
        if cn and not any(n_ in cn for n_ in at_nodes) and all(cfg.must_pass(n_, cn) for n_ in at_nodes):
            return True
    return False


def resolver_outcome(ctx):
    """ProcessingPipelineResolver.resolve_pipeline interpreted (sa.tabulate, Proxy) for a specifier that is not registered: which
    path is opened and what ProcessingPipeline.from_yaml receives (positional arguments mapped to its parameter names)."""
    import types as _types
    from ..tabulate import Proxy, call_method, Raised
    if getattr(ctx, "_c16_resolver", None) is not None:
        return ctx._c16_resolver
    prog = ctx.prog
    RQ = "sigma.processing.resolver.ProcessingPipelineResolver"
    fy_params = [p_ for p_ in prog.func("sigma.processing.pipeline.ProcessingPipeline.from_yaml").params() if p_ not in ("self", "cls")]
    opened: list = []
    calls: list = []

    class _File:
        def __init__(self, path): self.path = path
        def __enter__(self): return self
        def __exit__(self, *a): return False
        def read(self): return f"TEXT({self.path})"
        def close(self): pass

    def open_(path, *a, **k):
        opened.append(str(path))
        return _File(str(path))

    class ProcessingPipeline:
        @staticmethod
        def from_yaml(*a, **k):
            d = dict(zip(fy_params, a)); d.update(k)
            calls.append(d)
            return "PIPELINE"
    class SigmaPipelineNotFoundError(Exception):
        def __init__(self, *a, **k): super().__init__(*a)
    env = {"open": open_, "ProcessingPipeline": ProcessingPipeline, "SigmaPipelineNotFoundError": SigmaPipelineNotFoundError,
           "Path": lambda p_: _types.SimpleNamespace(open=lambda *a, **k: open_(p_), read_text=lambda *a, **k: open_(p_).read(), is_dir=lambda: False)}
    IK = {"max_steps": 6000, "behaviours": (KeyError, OSError, SigmaPipelineNotFoundError)}
    out = _types.SimpleNamespace(opened=opened, from_yaml=calls, ret=None, raised=None)
    me = Proxy(prog, RQ, env, {"pipelines": {}}, interp_kwargs=IK)
    try:
        out.ret = call_method(prog, RQ, "resolve_pipeline", me, env, "the/spec.yml", None, interp_kwargs=IK)
    except Raised as ex:
        out.raised = ex
    ctx._c16_resolver = out
    return out


def r2_capabilities(ctx) -> None:
    r, prog = ctx.r, ctx.prog
    r.rule("C16.R2a", "capability fields are never stored outside dataclass construction")
    r.rule("C16.R2b", "every keyword argument / dict entry named like a capability field is False/None or the "
                      "same-named parameter of the enclosing function; all such parameters default to False/None")
    r.rule("C16.R2c", "every document dict splatted into a constructor (directly or through a raw from_dict) of a "
                      "class that carries capability fields has those keys stripped on all paths")
    r.rule("C16.R2d", "capability dataclass fields default to False/None")
    # ---- R2d
    carriers: dict[str, list[str]] = {}
    for cq in sorted(prog.classes):
        caps = cap_fields_of(prog, cq)
        if caps:
            carriers[cq] = caps
    for base in ("sigma.processing.templates.TemplateBase",
                 "sigma.processing.transformations.external.ExternalSourceBaseTransformation"):
        if base not in carriers:
            raise AnalysisError(f"anchor vanished: {base} no longer declares capability fields")
    for cq, caps in carriers.items():
        c = prog.classes[cq]
        for st in c.node.body:
            if isinstance(st, ast.AnnAssign) and isinstance(st.target, ast.Name) and st.target.id in CAP_FIELDS:
                loc = f"{c.module.relpath}:{st.lineno}"
                v = st.value
                ok = isinstance(v, ast.Constant) and v.value in (False, None)
                if ok:
                    r.ok("C16.R2d", cq, f"{st.target.id} defaults to {unparse(v)}", loc)
                else:
                    r.violation("C16.R2d", cq, unparse(st), "capability field does not default to False/None", loc)
            if isinstance(st, ast.Assign):
                for t in st.targets:
                    if isinstance(t, ast.Name) and t.id in CAP_FIELDS:
                        r.violation("C16.R2d", cq, unparse(st), "capability field re-bound at class level",
                                    f"{c.module.relpath}:{st.lineno}")
    r.analysed["C16.capability_carrier_classes"] = sorted(carriers)
    # ---- R2a / R2b over the whole package
    for q, fi in sorted(prog.funcs.items()):
        for n in walk_no_nested(fi.node):
            loc = f"{fi.module.relpath}:{getattr(n, 'lineno', fi.node.lineno)}"
            if isinstance(n, ast.Attribute) and n.attr in CAP_FIELDS and isinstance(n.ctx, (ast.Store, ast.Del)):
                r.violation("C16.R2a", q, stmt_head(prog.enclosing_stmt(n)),
                            f"capability field {n.attr} is assigned after construction", loc)
            if isinstance(n, ast.Call):
                d = call_name(n)
                if d.split(".")[-1] in ("setattr", "__setattr__") and any(
                        isinstance(a, ast.Constant) and a.value in CAP_FIELDS for a in n.args):
                    r.violation("C16.R2a", q, short(n), "capability field set through setattr", loc)
                if d.split(".")[-1] in ("setattr", "__setattr__") and len(n.args) >= 2 and not isinstance(n.args[-2], ast.Constant) \
                        and q.startswith(("sigma.processing.transformations.external", "sigma.processing.templates")):
                    r.violation("C16.R2a", q, short(n), "computed-name setattr in a capability-carrying class", loc)
                for kw in n.keywords:
                    if kw.arg in CAP_FIELDS:
                        why = _trusted_expr(fi, kw.value, kw.arg)
                        if why is None:
                            r.ok("C16.R2b", q, f"{d or '<call>'}({kw.arg}={unparse(kw.value)})", loc)
                        else:
                            r.violation("C16.R2b", q, f"{d or '<call>'}(..., {kw.arg}={short(kw.value, 80)})",
                                        f"capability argument is not caller-controlled: {why}", loc)
            # dict entries
            if isinstance(n, ast.Dict):
                for k, v in zip(n.keys, n.values):
                    if isinstance(k, ast.Constant) and k.value in CAP_FIELDS:
                        why = _trusted_expr(fi, v, k.value)
                        if why is None:
                            r.ok("C16.R2b", q, f"dict entry {k.value!r}: {unparse(v)}", loc)
                        else:
                            r.violation("C16.R2b", q, f"{{{k.value!r}: {short(v, 80)}}}", f"capability entry is not caller-controlled: {why}", loc)
            if isinstance(n, ast.Assign):
                for t in n.targets:
                    if isinstance(t, ast.Subscript) and isinstance(t.slice, ast.Constant) and t.slice.value in CAP_FIELDS:
                        why = _trusted_expr(fi, n.value, t.slice.value)
                        if why is None:
                            r.ok("C16.R2b", q, unparse(n), loc)
                        else:
                            r.violation("C16.R2b", q, unparse(n), f"capability entry is not caller-controlled: {why}", loc)
            if isinstance(n, ast.Call) and isinstance(n.func, ast.Attribute) and n.func.attr in ("update", "setdefault") :
                for a in list(n.args) + [k.value for k in n.keywords]:
                    pass  # dict literals inside are covered by the ast.Dict branch above
        # parameter defaults
        a = fi.node.args
        pos = a.posonlyargs + a.args
        defaults = [None] * (len(pos) - len(a.defaults)) + list(a.defaults)
        for p, dflt in list(zip(pos, defaults)) + list(zip(a.kwonlyargs, a.kw_defaults)):
            if p.arg in CAP_FIELDS:
                loc = f"{fi.module.relpath}:{p.lineno}"
                if dflt is None:
                    if fi.name in ("__init__",):
                        continue
                    if fi.name.startswith("_") and fi.cls is not None:
                        # a private helper that must be given the capability: every call in the package hands over the
                        # caller's own same-named parameter or a disabling constant
                        names_ = [x.arg for x in pos]
                        off = 1 if names_ and names_[0] in ("self", "cls") else 0
                        idx = names_.index(p.arg) - off if p.arg in names_ else None
                        sites, bad_site = 0, None
                        for q2, g in prog.funcs.items():
                            for c2 in walk_no_nested(g.node):
                                if isinstance(c2, ast.Call) and isinstance(c2.func, ast.Attribute) and c2.func.attr == fi.name:
                                    sites += 1
                                    given = next((k.value for k in c2.keywords if k.arg == p.arg), None)
                                    if given is None and idx is not None and idx < len(c2.args) and not any(isinstance(a_, ast.Starred) for a_ in c2.args):
                                        given = c2.args[idx]
                                    if given is None:
                                        bad_site = (q2, c2, "not given")
                                    elif isinstance(given, ast.Name) and given.id == p.arg and p.arg in g.params():
                                        pass
                                    elif _trusted_path_value(g, given, p.arg) is not None:
                                        bad_site = (q2, c2, f"given {short(given, 60)}")
                        if bad_site is None:
                            r.ok("C16.R2b", q, f"parameter {p.arg} of a private helper has no default; its {sites} call(s) hand over the caller's own {p.arg} or a disabling constant", loc)
                        else:
                            r.violation("C16.R2b", q, f"parameter {p.arg}", f"capability parameter without a default, and the call in {bad_site[0]} ({short(bad_site[1], 60)}) has it {bad_site[2]}", loc)
                        continue
                    r.violation("C16.R2b", q, f"parameter {p.arg}", "capability parameter without a default", loc)
                elif isinstance(dflt, ast.Constant) and dflt.value in (False, None):
                    r.ok("C16.R2b", q, f"parameter {p.arg}={unparse(dflt)}", loc)
                else:
                    r.violation("C16.R2b", q, f"parameter {p.arg}={unparse(dflt)}", "capability parameter defaults to an enabling value", loc)
        # re-assignment of capability parameters (e.g. allow_external_sources = d.get(...))
        for pname in fi.params():
            if pname in CAP_FIELDS:
                for v in assignments_to(fi.node, pname):
                    loc = f"{fi.module.relpath}:{getattr(v, 'lineno', fi.node.lineno)}"
                    if isinstance(v, ast.stmt) or isinstance(v, (ast.For, ast.comprehension)):
                        r.violation("C16.R2b", q, stmt_head(v) if isinstance(v, ast.stmt) else unparse(v), f"capability parameter {pname} is re-bound", loc)
                        continue
                    why = _trusted_path_value(fi, v, pname)
                    if why is None:
                        r.ok("C16.R2b", q, f"{pname} = {short(v, 100)}", loc)
                    else:
                        r.violation("C16.R2b", q, f"{pname} = {short(v, 100)}", f"capability parameter re-assigned: {why}", loc)
    # ---- R2e: the path restriction is never dropped on the way down (omission means None = unrestricted)
    r.rule("C16.R2e", "a function that received vars_allowed_paths hands it on at every call of a function/constructor that accepts it (omitting it would silently lift the restriction: the default None means 'no restriction')")
    for q, fi in sorted(prog.funcs.items()):
        if "vars_allowed_paths" not in fi.params():
            continue
        for site in ctx.cg.sites.get(q, []):
            c = site.node
            if not isinstance(c, ast.Call):
                continue
            accepts = []
            excluded: list[tuple[str, bool, str]] = []  # (class, is_subclass_test, polarity) facts about the receiver
            if isinstance(c.func, ast.Attribute) and isinstance(c.func.value, ast.Name):
                rn = c.func.value.id
                for t, pol in guards_at(prog, fi, c):
                    tt, pp = t, pol
                    while isinstance(tt, ast.UnaryOp) and isinstance(tt.op, ast.Not):
                        tt, pp = tt.operand, not pp
                    if isinstance(tt, ast.Call) and call_name(tt) == "issubclass" and len(tt.args) == 2 and unparse(tt.args[0]) == rn:
                        b = _resolve_class(ctx, fi, tt.args[1])
                        if b:
                            excluded.append((b, True, pp))
                    if isinstance(tt, ast.Compare) and len(tt.ops) == 1 and isinstance(tt.ops[0], (ast.Is, ast.IsNot)) and unparse(tt.left) == rn:
                        b = _resolve_class(ctx, fi, tt.comparators[0])
                        if b:
                            excluded.append((b, False, pp if isinstance(tt.ops[0], ast.Is) else not pp))

            def feasible(owner: str) -> bool:
                """can the receiver class be one whose method resolution yields a method of class `owner`?"""
                cands = [x for x in prog.subclasses(owner) if (prog.lookup_method(x, c.func.attr) or None) is not None
                         and prog.lookup_method(x, c.func.attr).cls.qual == owner] if isinstance(c.func, ast.Attribute) else [owner]
                for b, is_sub, pol in excluded:
                    if is_sub:
                        cands = [x for x in cands if prog.is_subclass(x, b) == pol]
                    else:
                        cands = [x for x in cands if (x == b) == pol]
                return bool(cands)

            # facts that hold on *each* path to the call without dominating it (the call after an if/elif whose branches fall
            # through or return): a callee class is infeasible if every path excludes it
            path_facts: list[list[tuple[str, bool, bool]]] = []
            if isinstance(c.func, ast.Attribute) and isinstance(c.func.value, ast.Name):
                fcfg_ = cfg_of(fi)
                starts_ = fcfg_.node_of_expr(c, prog.parent)
                rn_ = c.func.value.id

                def facts_of(t_, pol_):
                    tt, pp = t_, pol_
                    out_ = []
                    while isinstance(tt, ast.UnaryOp) and isinstance(tt.op, ast.Not):
                        tt, pp = tt.operand, not pp
                    if isinstance(tt, ast.Call) and call_name(tt) == "issubclass" and len(tt.args) == 2 and unparse(tt.args[0]) == rn_:
                        b_ = _resolve_class(ctx, fi, tt.args[1])
                        if b_:
                            out_.append((b_, True, pp))
                    if isinstance(tt, ast.Compare) and len(tt.ops) == 1 and isinstance(tt.ops[0], (ast.Is, ast.IsNot)) and unparse(tt.left) == rn_:
                        b_ = _resolve_class(ctx, fi, tt.comparators[0])
                        if b_:
                            out_.append((b_, False, pp if isinstance(tt.ops[0], ast.Is) else not pp))
                    return out_
                n_paths = 0
                stack_ = [(s_, [], frozenset()) for s_ in starts_]
                while stack_ and n_paths < 64:
                    nid_, acc_, seen_ = stack_.pop()
                    node_ = fcfg_.nodes[nid_]
                    if nid_ in seen_:
                        continue
                    if node_.kind == "branch" and node_.ast is not None:
                        acc_ = acc_ + facts_of(node_.ast, bool(node_.polarity))
                    if node_.kind == "entry" or not node_.pred:
                        path_facts.append(acc_)
                        n_paths += 1
                        continue
                    for p_ in node_.pred:
                        stack_.append((p_, acc_, seen_ | {nid_}))
                if stack_:      # too many paths: no path-wise refinement
                    path_facts = []

            def feasible_on(owner: str, facts) -> bool:
                cands = [x for x in prog.subclasses(owner) if (prog.lookup_method(x, c.func.attr) or None) is not None
                         and prog.lookup_method(x, c.func.attr).cls.qual == owner] if isinstance(c.func, ast.Attribute) else [owner]
                for b, is_sub, pol in facts:
                    if is_sub:
                        cands = [x for x in cands if prog.is_subclass(x, b) == pol]
                    else:
                        cands = [x for x in cands if (x == b) == pol]
                return bool(cands)

            for callee in site.callees:
                cf = prog.funcs.get(callee)
                if cf is not None and cf.cls is not None and excluded and not feasible(cf.cls.qual):
                    continue
                if cf is not None and cf.cls is not None and path_facts and not any(feasible_on(cf.cls.qual, pf_) for pf_ in path_facts):
                    continue
                if cf is not None and "vars_allowed_paths" in cf.params():
                    accepts.append(cf)
                elif callee.endswith(("__init__", "__post_init__")):
                    cq = callee.rsplit(".", 1)[0]
                    if "vars_allowed_paths" in prog.dataclass_fields(cq) if cq in prog.classes else False:
                        accepts.append(callee)
            if not accepts:
                continue
            loc = f"{fi.module.relpath}:{c.lineno}"
            passed = any(kw.arg == "vars_allowed_paths" for kw in c.keywords) or any(kw.arg is None for kw in c.keywords)
            if not passed:
                # positional?
                for cf in accepts:
                    if isinstance(cf, FuncInfo):
                        ps = [p_ for p_ in cf.params() if p_ not in ("self", "cls")]
                        if "vars_allowed_paths" in ps and ps.index("vars_allowed_paths") < len(c.args):
                            passed = True
            if passed:
                r.ok("C16.R2e", q, f"{short(c, 90)} passes vars_allowed_paths on", loc)
            else:
                r.violation("C16.R2e", q, short(c, 140),
                            "this call accepts vars_allowed_paths but the caller's restriction is not handed on: the callee falls back to None, "
                            "i.e. vars files anywhere on disk become executable below this point", loc)
    # second half: below the document loaders nobody may call a restriction-accepting function without a restriction at all
    # (a constructor hook or helper that has no vars_allowed_paths of its own and builds items from document data)
    loaders = [q_ for q_ in ("sigma.processing.pipeline.ProcessingPipeline.from_dict", "sigma.processing.pipeline.ProcessingPipeline.from_yaml",
                             "sigma.processing.resolver.ProcessingPipelineResolver.resolve_pipeline") if q_ in prog.funcs]
    if len(loaders) < 2:
        raise AnalysisError("C16.R2e: the pipeline loaders were not found")
    below = ctx.cg.reachable(loaders)
    n_below = 0
    for q in sorted(x for x in below if x in prog.funcs):
        fi = prog.funcs[q]
        if "vars_allowed_paths" in fi.params() or q in loaders:
            continue
        for site in ctx.cg.sites.get(q, []):
            c = site.node
            if not isinstance(c, ast.Call):
                continue
            acc = [prog.funcs[t] for t in site.callees if t in prog.funcs and "vars_allowed_paths" in prog.funcs[t].params()]
            if not acc:
                continue
            n_below += 1
            loc = f"{fi.module.relpath}:{c.lineno}"
            if any(kw.arg == "vars_allowed_paths" and not (isinstance(kw.value, ast.Constant) and kw.value.value is None) for kw in c.keywords) or any(kw.arg is None for kw in c.keywords):
                r.ok("C16.R2e", q, f"{short(c, 90)} passes a restriction", loc)
                continue
            if all("source_path" in a_.params() for a_ in acc) and any(kw.arg == "source_path" and not (isinstance(kw.value, ast.Constant) and kw.value.value is None) for kw in c.keywords):
                r.ok("C16.R2e", q, f"{short(c, 90)} names the file the text came from: the loader derives the restriction from it (decided for from_yaml above)", loc)
                continue
            # a builder that is handed a registry of classes none of which carries a path restriction has nothing to restrict
            regs = [ctx.cg.registry_of(fi.module, a) for a in list(c.args) + [kw.value for kw in c.keywords]]
            regs = [x for x in regs if x]
            if regs and not any("vars_allowed_paths" in prog.dataclass_fields(cq_) for reg in regs for cl in reg for cq_ in prog.subclasses(cl) if cq_ in prog.classes):
                r.ok("C16.R2e", q, f"{short(c, 90)}: no class of the registry handed over ({sum(len(x) for x in regs)} classes) carries vars_allowed_paths", loc)
                continue
            path = ctx.cg.path_to(below, q)
            r.violation("C16.R2e", q, short(c, 140),
                        f"reachable from the pipeline loaders ({' -> '.join(x.rsplit('.', 2)[-2] + '.' + x.rsplit('.', 1)[-1] for x in path[-4:])}) and builds "
                        f"{acc[0].qual.rsplit('.', 2)[-2]} objects from data without any vars_allowed_paths: the items below fall back to None, i.e. no path restriction", loc)
    r.analysed["C16.unrestricted_builder_calls_below_loaders"] = n_below
    # the restriction is derived from the file location unconditionally: whether vars execution is allowed is decided much
    # later (argument *or* environment), so the derivation must not depend on the opt-in argument
    fy = prog.func("sigma.processing.pipeline.ProcessingPipeline.from_yaml")
    fy_bad = from_yaml_outcomes(ctx)
    if fy_bad:
        r.violation("C16.R2e", fy.qual, "vars_allowed_paths = (os.path.dirname(os.path.realpath(source_path)),)", f"a pipeline loaded from a file no longer gets its own real directory as the only place vars files may come from, whatever the opt-in arguments say: {fy_bad[0]} (+{len(fy_bad) - 1} more)", fy.loc)
    else:
        r.ok("C16.R2e", fy.qual, "vars_allowed_paths = (dirname(realpath(source_path)),) whenever the caller gave a source path and no explicit restriction, independent of the opt-in arguments (interpreted)", fy.loc)
    r.floor("C16.R2e", 6)

    # ---- R2c construction-from-document sites
    _r2c(ctx, carriers)
    r.floor("C16.R2b", 20)
    r.floor("C16.R2c", 5)
    r.floor("C16.R2d", 3)


def _classes_of_callee_expr(ctx, fi: FuncInfo, e: ast.AST) -> Optional[list[str]]:
    """Classes an expression used as a constructor/receiver of from_dict may denote."""
    prog, cg = ctx.prog, ctx.cg
    if isinstance(e, ast.Name):
        if e.id == "cls" and fi.cls is not None:
            return prog.subclasses(fi.cls.qual)
        q = prog.resolve_name(fi.module, e.id)
        loc = _local_import_names(fi).get(e.id)
        if q is None and loc:
            q = prog._canon(loc)
        if q in prog.classes:
            return prog.subclasses(q)
        # local variable bound from a registry lookup
        vals = assignments_to(fi.node, e.id)
        out: list[str] = []
        for v in vals:
            if isinstance(v, ast.Subscript):
                if isinstance(v.value, ast.Name) and v.value.id in fi.params():
                    reg = _registry_param_values(ctx, fi, v.value.id)  # a parameter shadows the module global
                else:
                    reg = cg.registry_of(fi.module, v.value)
                if reg is None:
                    return None
                for cq in reg:
                    for s in prog.subclasses(cq):
                        if s not in out:
                            out.append(s)
            else:
                return None
        return out or None
    return None


def _registry_param_values(ctx, fi: FuncInfo, pname: str) -> Optional[list[str]]:
    """Registry dicts passed for parameter pname at the call sites of fi (one hop, by name)."""
    prog, cg = ctx.prog, ctx.cg
    out: list[str] = []
    idx = fi.params().index(pname) - (1 if fi.cls is not None and fi.params()[0] in ("self", "cls") else 0)
    found = False
    for q, g in prog.funcs.items():
        for c in (n for n in walk_no_nested(g.node) if isinstance(n, ast.Call)):
            if isinstance(c.func, ast.Attribute) and c.func.attr == fi.name:
                arg = None
                for kw in c.keywords:
                    if kw.arg == pname:
                        arg = kw.value
                if arg is None and idx < len(c.args):
                    arg = c.args[idx]
                if arg is None:
                    continue
                if isinstance(arg, ast.Call) and call_name(arg) == "cast" and len(arg.args) == 2:
                    arg = arg.args[1]
                if isinstance(arg, ast.Name) and arg.id == pname and pname in g.params():
                    sub = _registry_param_values(ctx, g, pname)
                    if sub is None:
                        return None
                    out += [s for s in sub if s not in out]
                    found = True
                    continue
                reg = cg.registry_of(g.module, arg)
                if reg is None:
                    return None
                found = True
                out += [s for s in reg if s not in out]
    return out if found else None


def _scenario_blocked(ctx, fi: FuncInfo, callee_name: Optional[str], cq: str) -> set[int]:
    """CFG branch nodes that are infeasible when the class bound to ``callee_name`` is cq
    (tests of the form issubclass(name, B) / name is B)."""
    prog = ctx.prog
    cfg = cfg_of(fi)
    blocked: set[int] = set()
    if callee_name is None:
        return blocked
    for n in cfg.nodes:
        if n.kind != "branch" or n.ast is None or isinstance(n.ast, (ast.For, ast.match_case)):
            continue
        t, pol = n.ast, bool(n.polarity)
        while isinstance(t, ast.UnaryOp) and isinstance(t.op, ast.Not):
            t, pol = t.operand, not pol
        truth: Optional[bool] = None
        if isinstance(t, ast.Call) and call_name(t) == "issubclass" and len(t.args) == 2 \
                and isinstance(t.args[0], ast.Name) and t.args[0].id == callee_name:
            b = _resolve_class(ctx, fi, t.args[1])
            if b is not None:
                truth = prog.is_subclass(cq, b)
        elif isinstance(t, ast.Compare) and len(t.ops) == 1 and isinstance(t.ops[0], (ast.Is, ast.IsNot, ast.Eq, ast.NotEq)) \
                and isinstance(t.left, ast.Name) and t.left.id == callee_name:
            b = _resolve_class(ctx, fi, t.comparators[0])
            if b is not None:
                truth = (cq == b)
                if isinstance(t.ops[0], (ast.IsNot, ast.NotEq)):
                    truth = not truth
        if truth is not None and truth != pol:
            blocked.add(n.id)
    return blocked


def _resolve_class(ctx, fi: FuncInfo, e: ast.AST) -> Optional[str]:
    prog = ctx.prog
    if isinstance(e, ast.Name) and e.id == "cls" and fi.cls is not None:
        return fi.cls.qual
    q = prog.resolve_expr(fi.module, e)
    if q is None and isinstance(e, ast.Name):
        loc = _local_import_names(fi).get(e.id)
        q = prog._canon(loc) if loc else None
    return q if q in prog.classes else None


def _key_neutralised(ctx, fi: FuncInfo, name: str, at: ast.AST, key: str, blocked: set[int]) -> tuple[bool, str]:
    """Is dict variable ``name`` certainly free of an untrusted value under ``key`` when ``at``
    executes, on every feasible path?  (stripped by a filter comprehension, a closed literal,
    popped/deleted, or overwritten — the overwriting value's trust is C16.R2b's business)."""
    prog = ctx.prog
    cfg = cfg_of(fi)
    at_nodes = [n for n in cfg.node_of_expr(at, prog.parent) if cfg.is_reachable(n)]
    defs = assignments_to(fi.node, name)
    # re-tainting operations make the analysis give up (fail closed)
    for n in walk_no_nested(fi.node):
        if isinstance(n, ast.Call) and isinstance(n.func, ast.Attribute) and isinstance(n.func.value, ast.Name) \
                and n.func.value.id == name and n.func.attr in ("update", "setdefault", "__setitem__"):
            lit = n.args and isinstance(n.args[0], ast.Dict) and all(isinstance(k, ast.Constant) for k in n.args[0].keys)
            if not lit and n.args and isinstance(n.args[0], ast.Name) and n.func.attr == "update":
                # a local bound once to a closed dict display (its entries are judged by R2b where they are written)
                binds_ = [v_ for v_ in assignments_to(fi.node, n.args[0].id)]
                lit = len(binds_) == 1 and isinstance(binds_[0], ast.Dict) and all(isinstance(k, ast.Constant) for k in binds_[0].keys) and n.args[0].id not in fi.params()
            if not lit and not (n.func.attr == "setdefault" and n.args and isinstance(n.args[0], ast.Constant) and n.args[0].value != key):
                return False, f"{name}.{n.func.attr}(...) with non-literal content may re-introduce the key"
        if isinstance(n, ast.AugAssign) and isinstance(n.target, ast.Name) and n.target.id == name:
            return False, f"{name} |= ... may re-introduce the key"
        if isinstance(n, ast.Assign):
            for t in n.targets:
                if isinstance(t, ast.Subscript) and isinstance(t.value, ast.Name) and t.value.id == name \
                        and not isinstance(t.slice, ast.Constant):
                    return False, f"{name}[<computed key>] = ... may re-introduce the key"
    value_defs = [v for v in defs if not isinstance(v, (ast.stmt, ast.comprehension))]
    if value_defs and len(value_defs) == len(defs):
        all_ok = True
        for v in value_defs:
            if isinstance(v, ast.DictComp) and len(v.generators) == 1 and isinstance(v.key, ast.Name):
                kvar = v.key.id
                keys: set[str] = set()
                for cond in v.generators[0].ifs:
                    if isinstance(cond, ast.Compare) and len(cond.ops) == 1 and isinstance(cond.left, ast.Name) and cond.left.id == kvar:
                        try:
                            if isinstance(cond.ops[0], ast.NotIn):
                                keys |= {x for x in const_eval(prog, fi.module, cond.comparators[0]) if isinstance(x, str)}
                            elif isinstance(cond.ops[0], ast.NotEq):
                                keys.add(const_eval(prog, fi.module, cond.comparators[0]))
                        except ValueError:
                            pass
                if key not in keys:
                    all_ok = False
            elif isinstance(v, ast.Dict) and all(isinstance(k, ast.Constant) for k in v.keys):
                pass  # closed literal; an entry for the key is judged by R2b
            elif isinstance(v, ast.Call) and isinstance(v.func, ast.Attribute) and v.func.attr == "_base_args_from_dict":
                pass  # returns a closed literal dict (checked separately)
            else:
                all_ok = False
        if all_ok:
            return True, "every definition is a filter comprehension without the key / a closed literal"
    neutral: list[int] = []
    for n in walk_no_nested(fi.node):
        if isinstance(n, ast.Call) and isinstance(n.func, ast.Attribute) and n.func.attr == "pop" \
                and isinstance(n.func.value, ast.Name) and n.func.value.id == name and n.args \
                and isinstance(n.args[0], ast.Constant) and n.args[0].value == key:
            neutral += cfg.node_of_expr(n, prog.parent)
        if isinstance(n, ast.Delete):
            for t in n.targets:
                if isinstance(t, ast.Subscript) and isinstance(t.value, ast.Name) and t.value.id == name \
                        and isinstance(t.slice, ast.Constant) and t.slice.value == key:
                    neutral += cfg.nodes_of(n)
        if isinstance(n, ast.Assign):
            for t in n.targets:
                if isinstance(t, ast.Subscript) and isinstance(t.value, ast.Name) and t.value.id == name \
                        and isinstance(t.slice, ast.Constant) and t.slice.value == key:
                    neutral += cfg.nodes_of(n)
    if not neutral:
        return False, "no pop/del/overwrite of the key and no filtering definition"
    if at_nodes and all(_must_pass_since_def(cfg, fi, name, t, neutral, blocked) for t in at_nodes):
        return True, "popped, deleted or overwritten on every feasible path"
    return False, "a feasible path from the binding of the dict to the call avoids every pop/del/overwrite of the key"


def _must_pass_since_def(cfg, fi: FuncInfo, name: str, target: int, through: list[int], blocked: set[int] = frozenset()) -> bool:
    """Every feasible path from the (re)binding of ``name`` (loop header / assignment / entry) to
    target passes through one of the nodes in ``through``."""
    starts = []
    for n in cfg.nodes:
        a = n.ast
        if n.kind == "for" and isinstance(a, ast.For) and any(isinstance(x, ast.Name) and x.id == name for x in ast.walk(a.target)):
            starts.append(n.id)
        elif n.kind == "stmt" and isinstance(a, (ast.Assign, ast.AnnAssign)):
            tg = a.targets if isinstance(a, ast.Assign) else [a.target]
            if any(isinstance(t, ast.Name) and t.id == name for t in tg):
                starts.append(n.id)
    if not starts:
        starts = [cfg.entry]
    thr = set(through)
    for s in starts:
        seen = set()
        stack = [x for x in cfg.nodes[s].succ]
        while stack:
            x = stack.pop()
            if x in seen or x in thr or x in blocked:
                continue
            if x == target:
                return False
            seen.add(x)
            if x in starts:
                continue  # rebinding: handled as its own start
            stack.extend(cfg.nodes[x].succ)
    return True


def _interpreted_leak(ctx, fi: FuncInfo, key: str):
    """fi (a classmethod that builds an object from a document dict and receives the capability ``key`` from its caller)
    interpreted with a document that carries ``key`` itself. → None if the document's value never reaches a constructor and
    the caller's does (for the classes that take it); a description of the leak; or 'not interpretable'."""
    from ..tabulate import Proxy, call_method, Raised
    prog = ctx.prog

    class TemplateBase:
        def __init__(self, **kw): self.kw = kw

    class ExternalSourceBaseTransformation:
        def __init__(self, **kw): self.kw = kw

    class Both(TemplateBase, ExternalSourceBaseTransformation):
        pass

    class Plain:
        def __init__(self, **kw): self.kw = kw

    class SigmaConfigurationError(Exception):
        def __init__(self, *a, **k): super().__init__(*a)

    caps = [p for p in fi.params() if p in ("allow_template_vars", "vars_allowed_paths", "allow_external_sources")]
    env = {"TemplateBase": TemplateBase, "ExternalSourceBaseTransformation": ExternalSourceBaseTransformation, "SigmaConfigurationError": SigmaConfigurationError}
    IK = {"behaviours": (SigmaConfigurationError, TypeError), "max_steps": 8000}
    doc_value, caller = object(), {c: object() for c in caps}
    built = 0
    if "transformations" not in fi.params():
        return "not interpretable"  # the stand-in scenario is written for (document, registry, capabilities…)
    for K in (TemplateBase, ExternalSourceBaseTransformation, Both, Plain):
        d = {"type": "t", "id": "x", "other": 1, "rule_conditions": [], key: doc_value}
        cls = object.__getattribute__(Proxy(prog, fi.cls.qual, env, {}, interp_kwargs=IK), "_k")
        try:
            obj = call_method(prog, fi.cls.qual, fi.name, cls, env, d, {"t": K}, interp_kwargs=IK, **caller)
        except Raised:
            continue  # refused: nothing was built
        except (AnalysisError, TypeError):
            return "not interpretable"
        built += 1
        kw = getattr(obj, "kw", None)
        if not isinstance(kw, dict):
            return "not interpretable"
        if any(v is doc_value for v in kw.values()):
            return f"interpreted with a document that sets {key!r}: the constructor of a {K.__name__} class receives the document's value"
        takes = (key in ("allow_template_vars", "vars_allowed_paths") and issubclass(K, TemplateBase)) or (key == "allow_external_sources" and issubclass(K, ExternalSourceBaseTransformation))
        if takes and kw.get(key) is not caller[key]:
            return f"interpreted: a {K.__name__} class does not receive the caller's {key!r}"
    return None if built == 4 else "not interpretable"


def _r2c(ctx, carriers: dict[str, list[str]]) -> None:
    r, prog, cg = ctx.r, ctx.prog, ctx.cg
    scope_mods = ("sigma.processing", "sigma.pipelines", "sigma.conversion")
    raw_from_dicts: dict[str, str] = {}  # from_dict impl qual -> dict param name (those doing cls(**d))
    for q, fi in prog.funcs.items():
        if fi.name == "from_dict" and fi.cls is not None:
            for c in (n for n in walk_no_nested(fi.node) if isinstance(n, ast.Call)):
                for kw in c.keywords:
                    if kw.arg is None and isinstance(kw.value, ast.Name) and kw.value.id in fi.params() \
                            and isinstance(c.func, ast.Name) and c.func.id == "cls":
                        raw_from_dicts[q] = kw.value.id
    r.analysed["C16.raw_from_dict_implementations"] = sorted(raw_from_dicts)

    def check_site(fi: FuncInfo, site: ast.Call, classes: Optional[list[str]], dict_expr: ast.AST, how: str) -> None:
        loc = f"{fi.module.relpath}:{site.lineno}"
        if classes is None:
            # cannot enumerate the classes: fail closed if the module handles pipeline documents
            r.violation("C16.R2c", fi.qual, short(site, 120),
                        f"cannot enumerate the classes instantiated here ({how}); treat as able to build a capability-carrying class", loc)
            return
        need: dict[str, list[str]] = {}
        for cq in classes:
            for f in carriers.get(cq, []):
                need.setdefault(f, []).append(cq)
        if not need:
            r.ok("C16.R2c", fi.qual, f"{short(site, 100)}: none of the {len(classes)} instantiable classes carries a capability field", loc)
            return
        if not isinstance(dict_expr, ast.Name):
            r.violation("C16.R2c", fi.qual, short(site, 120), "splatted expression is not a local name; cannot prove stripping", loc)
            return
        callee = site.func.value if (isinstance(site.func, ast.Attribute) and site.func.attr == "from_dict") else site.func
        callee_name = callee.id if isinstance(callee, ast.Name) else None
        for f, cqs in sorted(need.items()):
            failing = []
            for cq in cqs:
                blocked = _scenario_blocked(ctx, fi, callee_name, cq)
                cfg = cfg_of(fi)
                site_nodes = [n for n in cfg.node_of_expr(site, prog.parent)]
                if site_nodes and not any(n in cfg.reachable([cfg.entry], blocked) for n in site_nodes):
                    continue  # this call cannot build cq (excluded by issubclass / identity guards)
                okk, why = _key_neutralised(ctx, fi, dict_expr.id, site, f, blocked)
                if not okk:
                    failing.append((cq, why))
            if failing and fi.cls is not None and f in fi.params():
                # the path rule could not prove it: the function is interpreted (sa.tabulate, Proxy) with a document that sets
                # the capability itself and stand-in carrier classes that record what their constructor receives
                leaked = _interpreted_leak(ctx, fi, f)
                if leaked is None:
                    failing = []
                    why_ok = " (interpreted: the document's value never reaches a constructor, the caller's value does)"
                elif leaked != "not interpretable":
                    failing = [(failing[0][0], leaked)]
            if not failing:
                r.ok("C16.R2c", fi.qual, f"{short(site, 80)}: key {f!r} cannot reach the constructor of {len(cqs)} carrier class(es) e.g. {cqs[0].rsplit('.', 1)[-1]}", loc)
            else:
                r.violation("C16.R2c", fi.qual, f"{short(site, 100)} [{f}]",
                            f"document dict {dict_expr.id!r} can still carry key {f!r} into the constructor of "
                            f"{', '.join(c.rsplit('.', 1)[-1] for c, _ in failing[:4])}: the pipeline file would set the capability itself "
                            f"({failing[0][1]})", loc)

    for q, fi in sorted(prog.funcs.items()):
        if not fi.module.name.startswith(scope_mods):
            continue
        for c in (n for n in walk_no_nested(fi.node) if isinstance(n, ast.Call)):
            # direct splat: X(**name)
            for kw in c.keywords:
                if kw.arg is None:
                    if q in raw_from_dicts and isinstance(kw.value, ast.Name) and kw.value.id == raw_from_dicts[q]:
                        continue  # obligation moves to the callers of this raw from_dict
                    classes = _classes_of_callee_expr(ctx, fi, c.func)
                    if classes is None and isinstance(c.func, ast.Attribute):
                        # method call with **kwargs (template.format(**kwargs), super().__init__(**kw)): not a constructor
                        tgt = ctx.types.callee_fullnames(fi.module, c)
                        if tgt and not any(t in prog.classes for t in tgt):
                            continue
                    if classes is None and isinstance(c.func, ast.Name) and c.func.id not in ("cls",):
                        tgt = ctx.types.callee_fullnames(fi.module, c)
                        if tgt and not any(prog._canon(t) in prog.classes for t in tgt):
                            continue
                    check_site(fi, c, classes, kw.value, "constructor with **dict")
            # X.from_dict(arg) reaching a raw implementation
            if isinstance(c.func, ast.Attribute) and c.func.attr == "from_dict" and c.args:
                recv = c.func.value
                if isinstance(recv, ast.Call) and isinstance(recv.func, ast.Name) and recv.func.id == "super":
                    continue
                classes = _classes_of_callee_expr(ctx, fi, recv)
                if classes is None:
                    fulls = ctx.types.callee_fullnames(fi.module, c)
                    cl = [f.rsplit(".", 1)[0] for f in fulls if f.rsplit(".", 1)[0] in prog.classes]
                    classes = [s for cq in cl for s in prog.subclasses(cq)] or None
                if classes is None:
                    check_site(fi, c, None, c.args[0], "from_dict on unknown receiver")
                    continue
                raw_targets = []
                for cq in classes:
                    impl = prog.lookup_method(cq, "from_dict")
                    if impl is not None and impl.qual in raw_from_dicts:
                        raw_targets.append(cq)
                if raw_targets:
                    check_site(fi, c, raw_targets, c.args[0], "from_dict(**d) passthrough")
                else:
                    r.ok("C16.R2c", q, f"{short(c, 100)}: callee from_dict implementation strips itself "
                                       f"({', '.join(sorted({prog.lookup_method(cq, 'from_dict').qual for cq in classes if prog.lookup_method(cq, 'from_dict')}))[:160]})",
                         f"{fi.module.relpath}:{c.lineno}")
    # the keyword arguments an item constructor receives form a closed set without capability keys: both item loaders
    # interpreted (sa.tabulate, ClassProxy) on a definition that sets every capability key itself, besides keys nobody knows
    from ..tabulate import ClassProxy as _CPc, call_method as _cmc, Raised as _Rc
    b = prog.func("sigma.processing.pipeline.ProcessingItemBase._base_args_from_dict")
    for item_cq in ("sigma.processing.pipeline.ProcessingItem", "sigma.processing.pipeline.QueryPostprocessingItem"):
        fdq = prog.func(item_cq + ".from_dict")
        built_c: dict = {}
        doc_c = {"id": "x", "type": "t", "rule_conditions": [], "unknown_key": "FROM-DOCUMENT"}
        doc_c.update({k_: "FROM-DOCUMENT" for k_ in CAP_FIELDS})
        env_c = {"rule_conditions": {}, "detection_item_conditions": {}, "field_name_conditions": {}, "transformations": {}, "query_postprocessing_transformations": {},
                 "parse_condition_expression": lambda t_: t_, "cast": lambda t_, v_: v_}
        over_c = {"_parse_conditions": lambda mapping, defs: [], "_parse_condition_linking": lambda *a_, **k_: None, "_instantiate_transformation": lambda *a_, **k_: "TRANSFORMATION"}
        klass_c = _CPc(prog, item_cq, env_c, ctor=lambda *a_, **k_: (built_c.update(k_), built_c.update({f"<positional {i_}>": v_ for i_, v_ in enumerate(a_)}), "ITEM")[2],
                       interp_kwargs={"max_steps": 8000}, overrides=over_c)
        try:
            _cmc(prog, item_cq, "from_dict", klass_c, env_c, dict(doc_c), interp_kwargs={"max_steps": 8000})
            leak = sorted(k_ for k_, v_ in built_c.items() if k_ in CAP_FIELDS or k_ == "unknown_key" or v_ == "FROM-DOCUMENT")
            err_c = None
        except _Rc as ex:
            leak, err_c = [], str(ex)
        if err_c is not None:
            r.violation("C16.R2c", fdq.qual, "cls(**kwargs)", f"the item loader raises {err_c} on a definition with capability keys", fdq.loc)
        elif leak or not built_c:
            r.violation("C16.R2c", b.qual if item_cq.endswith("ProcessingItem") and not item_cq.endswith("QueryPostprocessingItem") else fdq.qual, f"return dict with keys {leak}", f"item constructor arguments contain capability keys or values taken from the document under unknown keys: {leak or 'nothing was built'}", b.loc)
        else:
            r.ok("C16.R2c", fdq.qual, f"the item constructor receives the fixed keys {sorted(built_c)}: none is a capability, no document value under a capability or unknown key arrives (interpreted)", fdq.loc)


# ------------------------------------------------------------------------------------------ R3
def _is_env_read(n: ast.AST) -> Optional[ast.AST]:
    """Return the env-var-name expression if n reads the process environment."""
    if isinstance(n, ast.Call):
        d = call_name(n)
        if d in ("os.environ.get", "os.getenv", "environ.get", "getenv") and n.args:
            return n.args[0]
    if isinstance(n, ast.Subscript) and dotted(n.value) in ("os.environ", "environ"):
        return n.slice
    return None


def _predicate_of(prog, fi: FuncInfo, depth: int = 0) -> Optional[str]:
    """The capability predicate an environment read belongs to: the function itself, or a helper whose every reference in the
    code base lies in that predicate (or in such a helper of it)."""
    if fi.qual in PREDICATES:
        return fi.qual
    if depth > 2 or fi.cls is None:
        return None
    owners = set()
    for q, g in prog.funcs.items():
        if q == fi.qual:
            continue
        for n in walk_no_nested(g.node):
            if isinstance(n, ast.Attribute) and n.attr == fi.name:
                o = _predicate_of(prog, g, depth + 1)
                if o is None:
                    return None
                owners.add(o)
    return owners.pop() if len(owners) == 1 else None


def _shared_gate_helper(prog, fi: FuncInfo, name_e: ast.AST) -> Optional[str]:
    """A helper that reads the environment variable *named by one of its parameters* belongs to the predicates iff every
    reference to it in the code base is a call inside a capability predicate that hands over that predicate's documented
    variable (what each predicate then answers is decided by its truth table)."""
    if not (isinstance(name_e, ast.Name) and name_e.id in fi.params()) or assignments_to(fi.node, name_e.id):
        return None
    params = [p_ for p_ in fi.params() if p_ not in ("self", "cls")]
    idx = params.index(name_e.id)
    users = []
    for q, g in prog.funcs.items():
        if q == fi.qual:
            continue
        for n in walk_no_nested(g.node):
            ref = (isinstance(n, ast.Name) and n.id == fi.name) or (isinstance(n, ast.Attribute) and n.attr == fi.name)
            if not ref:
                continue
            call = prog.parent(n)
            if q not in PREDICATES or not (isinstance(call, ast.Call) and call.func is n):
                return None
            arg = call.args[idx] if idx < len(call.args) else next((k.value for k in call.keywords if k.arg == name_e.id), None)
            try:
                if arg is None or const_eval(prog, g.module, arg) != PREDICATES[q][1]:
                    return None
            except ValueError:
                return None
            users.append(q.rsplit(".", 1)[-1])
    # references outside functions (module level, class bodies) other than imports and the definition itself
    for m in prog.modules.values():
        for st in m.tree.body:
            if isinstance(st, (ast.FunctionDef, ast.ClassDef, ast.Import, ast.ImportFrom)):
                continue
            if any(isinstance(x, ast.Name) and x.id == fi.name for x in ast.walk(st)):
                return None
    return f"helper called only by {', '.join(sorted(set(users)))}, each with its documented variable" if users else None


def _pred_truth_table(ctx, fi: FuncInfo, fieldname: str, envname: str) -> Optional[str]:
    """The predicate interpreted (sa.tabulate, Proxy) over (capability field, value of the environment variable)."""
    import types as _types
    from ..tabulate import Proxy, call_method, Raised
    prog = ctx.prog
    for fieldval in (False, None, True):
        for envval in (None, "", "0", "1", "true", "TRUE", "True", "yes", "on", "false", "2", "enabled"):
            reads: list = []

            class _Env(dict):
                def get(self, k, d=None):
                    reads.append(k)
                    return dict.get(self, k, d)
                def __getitem__(self, k):
                    reads.append(k)
                    return dict.__getitem__(self, k)
                def __contains__(self, k):
                    reads.append(k)
                    return dict.__contains__(self, k)
            envd = _Env({"OTHER": "1", "PYSIGMA_ALLOW_EVERYTHING": "1"})
            if envval is not None:
                envd[envname] = envval
            osmod = _types.SimpleNamespace(environ=envd, getenv=lambda k, d=None: envd.get(k, d))
            env = {"os": osmod}
            IK = {"behaviours": (KeyError,), "max_steps": 2000}
            # every other field of the object is set (a configured transformation): none of them may open the gate
            others = {n_: ("/allowed",) if "path" in n_ else "set" for q_ in prog.mro(fi.cls.qual) for n_ in prog.dataclass_fields(q_) if n_ != fieldname}
            me = Proxy(prog, fi.cls.qual, env, dict(others, **{fieldname: fieldval}), interp_kwargs=IK)
            try:
                got = call_method(prog, fi.cls.qual, fi.name, me, env, interp_kwargs=IK)
            except Raised as ex:
                return f"{fieldname}={fieldval!r}, {envname}={envval!r}: raises {ex}"
            want = bool(fieldval) or (envval is not None and envval.lower() in ("1", "true"))
            if bool(got) is not want or not isinstance(got, bool):
                return f"{fieldname}={fieldval!r}, {envname}={envval!r}: answers {got!r} instead of {want}" + (" — accepts environment values beyond the documented '1'/'true'" if got and not want else "")
            if any(k != envname for k in reads):
                return f"reads the environment variable(s) {sorted(set(reads) - {envname})}, documented is {envname!r}"
    return None


def r3_env(ctx) -> None:
    r, prog = ctx.r, ctx.prog
    r.rule("C16.R3", "the environment is read only inside the two *_allowed predicates, for the documented "
                     "variable, and the predicate returns True only for its own capability field or values {'1','true'} after lower()")
    scope = [f for q, f in sorted(prog.funcs.items()) if f.module.name.startswith(("sigma.processing", "sigma.conversion", "sigma.pipelines"))]
    for fi in scope:
        for n in walk_no_nested(fi.node):
            name_e = _is_env_read(n)
            if name_e is None and isinstance(n, ast.Attribute) and dotted(n) == "os.environ" and not isinstance(prog.parent(n), (ast.Attribute, ast.Subscript)):
                r.violation("C16.R3", fi.qual, stmt_head(prog.enclosing_stmt(n)), "whole-environment access", f"{fi.module.relpath}:{n.lineno}")
                continue
            if name_e is None:
                continue
            loc = f"{fi.module.relpath}:{n.lineno}"
            try:
                var = const_eval(prog, fi.module, name_e)
            except ValueError:
                var = None
            owner = _predicate_of(prog, fi)
            shared = _shared_gate_helper(prog, fi, name_e) if owner is None else None
            if shared:
                r.ok("C16.R3", fi.qual, f"reads the variable named by its parameter: {shared}", loc)
            elif owner is None:
                r.violation("C16.R3", fi.qual, short(n), f"environment variable {var!r} read outside the capability predicates", loc)
            elif var != PREDICATES[owner][1]:
                r.violation("C16.R3", fi.qual, short(n), f"predicate reads {var!r}, documented variable is {PREDICATES[owner][1]!r}", loc)
            else:
                r.ok("C16.R3", fi.qual, f"reads {var}" + ("" if owner == fi.qual else f" (helper used only by {owner.rsplit('.', 1)[-1]})"), loc)
    # module-level environment reads
    for m in prog.modules.values():
        if not m.name.startswith(("sigma.processing", "sigma.conversion", "sigma.pipelines")):
            continue
        for st in m.tree.body:
            if isinstance(st, (ast.FunctionDef, ast.ClassDef)):
                continue
            for n in ast.walk(st):
                if _is_env_read(n) is not None:
                    r.violation("C16.R3", m.name, short(n), "environment read at import time", f"{m.relpath}:{n.lineno}")
    for pq, (fieldname, envname) in PREDICATES.items():
        fi = prog.func(pq)
        rets = [n for n in walk_no_nested(fi.node) if isinstance(n, ast.Return)]
        if not rets:
            raise AnalysisError(f"{pq}: no return statement")
        why = _pred_truth_table(ctx, fi, fieldname, envname)
        if why is None:
            r.ok("C16.R3", pq, f"interpreted over capability field x environment values: True exactly for a set field or {envname} in ('1', 'true') in any letter case; only {envname} is read", fi.loc)
        else:
            r.violation("C16.R3", pq, f"return of {fi.name}: {why}", "the predicate must return True only for its own capability field or the documented environment values '1'/'true'", fi.loc)
        # nobody overrides the predicates
        for q, g in prog.funcs.items():
            if g.name == fi.name and q != pq:
                r.violation("C16.R3", q, f"def {g.name}", f"override of capability predicate {pq}", g.loc)
    r.floor("C16.R3", 3)   # the two truth tables and at least one environment read


def _pred_return_ok(ctx, fi: FuncInfo, rt: ast.Return, fieldname: str, envname: str) -> Optional[str]:
    prog = ctx.prog
    v = rt.value
    gs = atomic_guards(guards_at(prog, fi, rt))

    def env_expr_ok(e: ast.AST) -> Optional[str]:
        if not (isinstance(e, ast.Compare) and len(e.ops) == 1 and isinstance(e.ops[0], (ast.In, ast.Eq))):
            return f"not a membership/equality test on the environment value: {short(e, 80)}"
        left = e.left
        lowered = False
        while isinstance(left, ast.Call) and isinstance(left.func, ast.Attribute) and left.func.attr in ("lower", "strip", "casefold") and not left.args:
            lowered = lowered or left.func.attr in ("lower", "casefold")
            left = left.func.value
        name_e = _is_env_read(left)
        if name_e is None:
            return f"left side is not an environment read: {short(left, 60)}"
        try:
            if const_eval(prog, fi.module, name_e) != envname:
                return "wrong environment variable"
        except ValueError:
            return "environment variable name is not a constant"
        default = None
        if isinstance(left, ast.Call) and len(left.args) > 1:
            try:
                default = const_eval(prog, fi.module, left.args[1])
            except ValueError:
                return "non-constant default"
        try:
            acc = const_eval(prog, fi.module, e.comparators[0])
        except ValueError:
            return "accepted values are not constants"
        accs = {acc} if isinstance(acc, str) else set(acc)
        allowed = {"1", "true"} if lowered else {"1", "true", "True", "TRUE"}
        if not accs <= allowed:
            return f"accepts environment values {sorted(accs - allowed)} beyond the documented '1'/'true'"
        if default in accs or (default is None and isinstance(left, ast.Call) and len(left.args) > 1):
            return "default value of the environment read enables the capability"
        return None

    def ok(e: ast.AST) -> Optional[str]:
        if isinstance(e, ast.Constant):
            if e.value is False:
                return None
            if e.value is True:
                if (f"self.{fieldname}", True) in gs:
                    return None
                return f"returns True without being guarded by self.{fieldname} (guards: {gs})"
            return "constant return that is not a bool"
        if isinstance(e, ast.Attribute) and unparse(e) == f"self.{fieldname}":
            return None
        if isinstance(e, ast.BoolOp) and isinstance(e.op, ast.Or):
            for x in e.values:
                w = ok(x)
                if w:
                    return w
            return None
        if isinstance(e, ast.BoolOp) and isinstance(e.op, ast.And):
            # conjunction: at least one conjunct must be an accepted enabling expression
            ws = [ok(x) for x in e.values]
            return None if any(w is None for w in ws) else ws[0]
        if isinstance(e, ast.Call) and call_name(e) == "bool" and len(e.args) == 1:
            return ok(e.args[0])
        return env_expr_ok(e)

    if v is None:
        return None
    return ok(v)


# ------------------------------------------------------------------------------------------ R4
def r4_paths(ctx) -> None:
    r, prog = ctx.r, ctx.prog
    r.rule("C16.R4", "in _load_vars_from_file realpath is applied to candidate and every base, containment is "
                     "startswith(base + os.sep) or equality, and the SigmaSecurityError raise dominates loading/executing; "
                     "from_yaml derives vars_allowed_paths from source_path when the caller gave none")
    fi = prog.func("sigma.processing.templates.TemplateBase._load_vars_from_file")
    loc = fi.loc
    # _load_vars_from_file interpreted (sa.tabulate, Proxy; helper methods resolve from the source) over a model file system:
    # os.path.realpath resolves '..' and two symbolic links, importlib is a recorder. A candidate whose canonical path is
    # not an allowed base or below one must be refused before anything is loaded; the others are loaded by their canonical path
    import posixpath as _pp
    import types as _types
    from ..tabulate import Proxy, call_method, Raised
    LINKS = {"/allowed/link.py": "/outside/evil.py", "/base-link": "/allowed", "/allowed/linkdir": "/outside"}

    def realpath(p_):
        p_ = _pp.normpath(str(p_))
        for _ in range(4):
            for src, dst in LINKS.items():
                if p_ == src or p_.startswith(src + "/"):
                    p_ = _pp.normpath(dst + p_[len(src):])
        return p_

    class SigmaSecurityError(Exception):
        def __init__(self, *a, **k): super().__init__(*a)

    cases = [
        (("/allowed",), "/allowed/v.py", True), (("/allowed",), "/allowed/sub/deep/v.py", True), (("/allowed",), "/allowed/sub/../v.py", True),
        (("/allowed",), "/allowedx/v.py", False), (("/allowed",), "/other/v.py", False), (("/allowed",), "/allowed/../other/v.py", False),
        (("/allowed",), "/allowed/link.py", False), (("/allowed",), "/allowed/linkdir/v.py", False), (("/base-link",), "/allowed/v.py", True),
        (("/base-link",), "/base-link/v.py", True), (("/x", "/allowed"), "/allowed/v.py", True), (("/x", "/y"), "/allowed/v.py", False),
        ((), "/allowed/v.py", False), (("/allowed/v.py",), "/allowed/v.py", True), (None, "/anywhere/v.py", True), (("/",), "/anywhere/v.py", None),
    ]
    bad = []
    for bases, cand, allowed in cases:
        loaded: list = []
        spec = _types.SimpleNamespace(loader=_types.SimpleNamespace(exec_module=lambda m: loaded.append(("exec", m.path))))
        def sffl(name, path, *a, **k):
            loaded.append(("spec", path))
            spec.path = path
            return spec
        def mfs(sp):
            m = _types.SimpleNamespace(path=sp.path, vars={"v": 1})
            loaded.append(("module", sp.path))
            return m
        class _PathMod:  # os.path over the model: only realpath follows links; the pure text functions are posixpath's
            sep = "/"
            abspath = staticmethod(lambda p_: _pp.normpath(str(p_)))
            def __getattr__(self, name):
                if name in ("exists", "isfile", "isdir", "islink", "lexists"):
                    return lambda p_: True
                if name in ("dirname", "basename", "join", "normpath", "commonpath", "commonprefix", "split", "splitext", "isabs", "relpath", "normcase"):
                    return getattr(_pp, name)
                raise AttributeError(name)
        _PathMod.realpath = staticmethod(realpath)
        osmod = _types.SimpleNamespace(path=_PathMod(), sep="/", fspath=str)
        env = {"os": osmod, "importlib": _types.SimpleNamespace(util=_types.SimpleNamespace(spec_from_file_location=sffl, module_from_spec=mfs)), "sys": _types.SimpleNamespace(modules={}),
               "SigmaSecurityError": SigmaSecurityError, "cast": lambda t, v: v, "FileNotFoundError": FileNotFoundError, "OSError": OSError, "ValueError": ValueError}
        IK = {"behaviours": (SigmaSecurityError, ValueError), "max_steps": 8000}
        me = Proxy(prog, "sigma.processing.templates.TemplateBase", env, {"vars_allowed_paths": bases, "allow_template_vars": True, "vars": cand}, interp_kwargs=IK)
        try:
            call_method(prog, "sigma.processing.templates.TemplateBase", "_load_vars_from_file", me, env, cand, interp_kwargs=IK)
            refused = False
        except Raised as ex:
            refused = "SigmaSecurityError" in str(ex)
            if not refused:
                bad.append(f"allowed {bases!r}, vars file {cand!r}: raises {ex}")
                continue
        if allowed is None:
            continue  # the root directory as base: known discrepancy of the prefix test, not part of this rule
        canon = realpath(cand)
        if allowed and (refused or ("spec", canon) not in loaded):
            bad.append(f"allowed {bases!r}, vars file {cand!r} (canonical {canon!r}): {'refused' if refused else 'loaded as ' + repr(loaded[:1])} although it lies inside an allowed base")
        if not allowed and (not refused or loaded):
            bad.append(f"allowed {bases!r}, vars file {cand!r} (canonical {canon!r}): {'loaded ' + repr(loaded[:1]) if loaded else 'not refused'} although it lies outside every allowed base")
    if not bad:
        r.ok("C16.R4", fi.qual, f"interpreted on {len(cases)} (allowed bases, vars file) cases over a model file system with '..' and symbolic links: containment is decided on canonical paths (base + separator or equality), a file outside is refused with SigmaSecurityError before anything is loaded", loc)
        r.ok("C16.R4", fi.qual, "files inside an allowed base are loaded by their canonical path; no restriction without configured bases", loc)
    else:
        r.violation("C16.R4", fi.qual, f"containment: {bad[0]}", f"{len(bad)} of {len(cases)} interpreted cases deviate: realpath must be applied to the candidate and every base, containment is startswith(base + os.sep) or equality, and the SigmaSecurityError raise must dominate loading/executing the file", loc)
    # 4. from_yaml derives the allowed base from source_path
    fy = prog.func("sigma.processing.pipeline.ProcessingPipeline.from_yaml")
    fy_bad = from_yaml_outcomes(ctx)
    derived = not fy_bad
    if derived:
        r.ok("C16.R4", fy.qual, "from_dict receives vars_allowed_paths = (dirname(realpath(source_path)),) when the caller gave none, the caller's value otherwise (from_yaml interpreted over 32 argument combinations)", fy.loc)
    else:
        r.violation("C16.R4", fy.qual, "derivation of vars_allowed_paths from source_path",
                    "from_yaml no longer derives the allowed base directory from the pipeline file's location before building the pipeline", fy.loc)
    # 5. the resolver passes source_path
    rp = prog.func("sigma.processing.resolver.ProcessingPipelineResolver.resolve_pipeline")
    ro = resolver_outcome(ctx)
    okp = ro.raised is None and ro.opened == ["the/spec.yml"] and len(ro.from_yaml) == 1 and ro.from_yaml[0].get("source_path") == "the/spec.yml" \
        and ro.from_yaml[0].get("processing_pipeline") == "TEXT(the/spec.yml)" and not any(ro.from_yaml[0].get(k_) for k_ in CAP_FIELDS if k_ != "vars_allowed_paths") \
        and ro.from_yaml[0].get("vars_allowed_paths") is None
    if okp:
        r.ok("C16.R4", rp.qual, "an unregistered specifier: the file the caller named is opened and handed to from_yaml with source_path = that specifier and no capability (interpreted)", rp.loc)
    else:
        r.violation("C16.R4", rp.qual, "ProcessingPipeline.from_yaml(f.read(), source_path=spec)", "the resolver does not hand the pipeline file's location to from_yaml; no allowed base is derived", rp.loc)
    r.floor("C16.R4", 4)


def _containment_ok(t: ast.AST, pname: str) -> Optional[str]:
    """t is the test whose truth raises.  Expected: not any(<cand>.startswith(realpath(base)+os.sep) or cand == realpath(base) for base in self.vars_allowed_paths)"""
    if not (isinstance(t, ast.UnaryOp) and isinstance(t.op, ast.Not)):
        return "containment test is not of the form `not any(...)`"
    a = t.operand
    if not (isinstance(a, ast.Call) and call_name(a) == "any" and a.args and isinstance(a.args[0], (ast.GeneratorExp, ast.ListComp))):
        return "containment test is not `any(<generator over allowed bases>)`"
    g = a.args[0]
    if len(g.generators) != 1 or "vars_allowed_paths" not in unparse(g.generators[0].iter) or g.generators[0].ifs:
        return "generator does not iterate exactly over self.vars_allowed_paths"
    bvar = unparse(g.generators[0].target)
    elt = g.elt
    alts = elt.values if isinstance(elt, ast.BoolOp) and isinstance(elt.op, ast.Or) else [elt]
    for alt in alts:
        txt = unparse(alt)
        if isinstance(alt, ast.Call) and isinstance(alt.func, ast.Attribute) and alt.func.attr == "startswith" and unparse(alt.func.value) == pname:
            arg = alt.args[0] if alt.args else None
            if not (isinstance(arg, ast.BinOp) and isinstance(arg.op, ast.Add) and unparse(arg.right) in ("os.sep", "os.path.sep")
                    and unparse(arg.left) in (f"os.path.realpath({bvar})",)):
                return f"prefix test `{txt}` does not compare against realpath(base) + os.sep (prefix-sharing siblings or symlinked bases would pass)"
        elif isinstance(alt, ast.Compare) and len(alt.ops) == 1 and isinstance(alt.ops[0], ast.Eq):
            sides = {unparse(alt.left), unparse(alt.comparators[0])}
            if sides != {pname, f"os.path.realpath({bvar})"}:
                return f"equality alternative `{txt}` does not compare the canonical path with realpath(base)"
        else:
            return f"unrecognised containment alternative `{txt}`"
    if not any(isinstance(alt, ast.Call) for alt in alts):
        return "no prefix test"
    return None


# ------------------------------------------------------------------------------------------ R5
def r5_safe_variants(ctx) -> None:
    r, prog = ctx.r, ctx.prog
    r.rule("C16.R5", "YAML is parsed with yaml.safe_load only and Jinja templates are built with SandboxedEnvironment only (processing/, pipelines/, conversion/)")
    n_ok = 0
    for q, fi in sorted(prog.funcs.items()):
        if not fi.module.name.startswith(("sigma.processing", "sigma.conversion", "sigma.pipelines")):
            continue
        for c in (n for n in walk_no_nested(fi.node) if isinstance(n, ast.Call)):
            cands = call_candidates(ctx, fi, c)
            loc = f"{fi.module.relpath}:{c.lineno}"
            if any(re.search(r"^yaml\.(safe_load|safe_load_all)$", x) for x in cands):
                r.ok("C16.R5", q, short(c, 80), loc)
            if any(re.search(r"^yaml\.(load|load_all|unsafe_load|full_load)", x) for x in cands):
                # yaml.load(..., Loader=SafeLoader) is acceptable
                if any(kw.arg == "Loader" and "Safe" in unparse(kw.value) for kw in c.keywords):
                    r.ok("C16.R5", q, short(c, 80), loc)
                else:
                    r.violation("C16.R5", q, short(c, 100), "YAML parsed with a loader that can construct arbitrary objects", loc)
            if any(re.search(r"SandboxedEnvironment$", x) for x in cands):
                r.ok("C16.R5", q, short(c, 80), loc)
            if any(re.search(r"^jinja2\.(environment\.)?(Environment|Template)$", x) or x in ("jinja2.nativetypes.NativeEnvironment",) for x in cands):
                r.violation("C16.R5", q, short(c, 100), "Jinja environment without sandbox", loc)
    # pipeline YAML root
    fy = prog.func("sigma.processing.pipeline.ProcessingPipeline.from_yaml")
    if not any(call_name(c) == "yaml.safe_load" for c in walk_no_nested(fy.node) if isinstance(c, ast.Call)):
        r.violation("C16.R5", fy.qual, "yaml.safe_load(processing_pipeline)", "pipeline YAML is not parsed with yaml.safe_load", fy.loc)
    r.floor("C16.R5", 3)
    # the sandbox must keep template text from calling the library: the context holds live pipeline/rule/backend objects
    r.rule("C16.R6", "template text cannot reach the loader API: every Jinja environment that renders pipeline templates is the restricted sandbox whose is_safe_callable refuses functions, methods and classes defined in the sigma package (from_dict/from_yaml with allow_template_vars / allow_external_sources would let a document grant itself the capabilities)")
    envs = 0
    sb = prog.classes.get("sigma.processing.templates.SigmaSandboxedEnvironment")
    for q, fi in sorted(prog.funcs.items()):
        if not fi.module.name.startswith(("sigma.processing", "sigma.conversion", "sigma.pipelines")):
            continue
        for c in (n for n in walk_no_nested(fi.node) if isinstance(n, ast.Call)):
            nm = call_name(c).split(".")[-1]
            if nm.endswith("SandboxedEnvironment") or nm in ("Environment", "NativeEnvironment"):
                envs += 1
                loc = f"{fi.module.relpath}:{c.lineno}"
                if nm == "SigmaSandboxedEnvironment" and sb is not None:
                    r.ok("C16.R6", q, f"{short(c, 70)}: restricted sandbox", loc)
                else:
                    r.violation("C16.R6", q, short(c, 90), "templates are rendered in an environment that only blocks underscore attributes: the live pipeline object in the template context exposes from_dict/from_yaml, so `{% set p = pipeline.from_dict({... 'vars': '/x/evil.py'}, allow_template_vars=True) %}` in a pipeline document executes a vars file (or a command placeholder a shell command) with default arguments", loc)
    if sb is not None:
        # is_safe_callable interpreted (sa.tabulate, Proxy) on objects of the library and of other modules, with a stand-in
        # for the stock sandbox it extends
        import types as _types6
        from ..tabulate import Proxy as _P6b, call_method as _cm6b, Raised as _R6b
        denies = delegates = False
        if "is_safe_callable" in sb.methods:
            asked6: list = []
            env6b = {"super": lambda: _types6.SimpleNamespace(is_safe_callable=lambda o_: (asked6.append(o_), "STOCK-ANSWER")[1])}
            outs6 = {}
            for mod6 in ("sigma", "sigma.processing.pipeline", "sigma.rule.rule", "sigmafoo", "builtins", "jinja2.utils", None, 5):
                obj6 = _types6.SimpleNamespace(__module__=mod6)
                try:
                    outs6[mod6] = _cm6b(prog, sb.qual, "is_safe_callable", _P6b(prog, sb.qual, env6b, {}, interp_kwargs={"max_steps": 2000}), env6b, obj6, interp_kwargs={"max_steps": 2000})
                except _R6b as ex:
                    outs6[mod6] = f"raises {ex}"
            denies = all(outs6[m_] is False for m_ in ("sigma", "sigma.processing.pipeline", "sigma.rule.rule"))
            delegates = all(outs6[m_] in (True, "STOCK-ANSWER") for m_ in ("sigmafoo", "builtins", "jinja2.utils", None, 5)) and len(asked6) == 5
        if denies and delegates:
            r.ok("C16.R6", sb.qual, "is_safe_callable: objects defined in sigma.* are not callable, everything else as in the stock sandbox", f"{sb.module.relpath}:{sb.node.lineno}")
        else:
            r.violation("C16.R6", sb.qual, "def is_safe_callable", "the restricted sandbox does not refuse callables of the sigma package (or no longer applies the stock sandbox rules to the rest)", f"{sb.module.relpath}:{sb.node.lineno}")
    if envs < 2:
        raise AnalysisError(f"only {envs} Jinja environment constructions found (2 confirmed in TemplateBase.__post_init__)")
