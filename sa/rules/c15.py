"""C15 — converting a rule gives the same result whatever was converted before.

Inventory-and-discipline analysis of shared mutable state (DESIGN §2 C15)."""
from __future__ import annotations

import ast
from typing import Optional

from ..prog import AnalysisError, FuncInfo, call_name, dotted, short, stmt_head, unparse, walk_no_nested
from ..util import assignments_to, atomic_guards, cfg_of, guards_at

MUTATORS = {"append", "extend", "update", "add", "pop", "remove", "clear", "setdefault", "insert",
            "discard", "popitem", "sort", "reverse", "appendleft", "__setitem__", "__delitem__", "merge",
            "add_mapping"}
MUTABLE_CTORS = {"dict", "list", "set", "defaultdict", "OrderedDict", "deque", "Counter", "bytearray",
                 "WeakValueDictionary", "WeakKeyDictionary", "ChainMap"}

# (binding, writer function) pairs confirmed by reading, one line of reason each.
ALLOWED_WRITERS = {
    ("sigma.modifiers.SigmaModifier._type_hint_cache", "sigma.modifiers.SigmaModifier._get_modify_type_hint"):
        "memo: value is a pure function of the key (modifier class); never read for anything else",
    ("sigma.conversion.base.Backend.output_format_processing_pipeline", "sigma.conversion.base.Backend.init_processing_pipeline"):
        "class-level defaultdict grows an *empty* ProcessingPipeline on lookup of an unknown format; the value is then consumed by '+' (see C14.R5/C15.R5 finding on operand-consuming __add__)",
}

for _m in ("mitre_attack", "mitre_d3fend"):
    for _b, _w in (("_cache", "_get_cache"), ("_cache", "set_cache_dir"), ("_custom_cache_dir", "set_cache_dir"), ("_custom_url", "set_url")):
        ALLOWED_WRITERS[(f"sigma.data.{_m}.{_b}", f"sigma.data.{_m}.{_w}")] = (
            "lazy loader / explicit configuration of the static MITRE dataset used by the tag validators only; "
            "not referenced from rule loading, pipelines or conversion")

# class attributes written at run time (C15.R4) accepted without a restoring finally
ALLOWED_CLASS_ATTR_WRITES = {
    ("sigma.conversion.base.TextQueryBackend.__new__", "explicit_not_exists_expression"):
        "right-hand side depends only on another class attribute of the same class (idempotent derivation)",
    ("sigma.pipelines.base.Pipeline.__new__", "_instance"):
        "singleton slot (its misuse is judged by C15.R6)",
}


def _is_mutable_value(prog, m, v: Optional[ast.AST]) -> Optional[str]:
    if v is None:
        return None
    if isinstance(v, (ast.Dict, ast.List, ast.Set, ast.ListComp, ast.SetComp, ast.DictComp)):
        return type(v).__name__
    if isinstance(v, ast.Call):
        d = call_name(v)
        last = d.split(".")[-1]
        if last in MUTABLE_CTORS:
            return last + "()"
        q = prog.resolve_expr(m, v.func)
        if q and q in prog.classes:
            c = prog.classes[q]
            # frozen dataclasses / enums are immutable
            if any("frozen=True" in d for d in c.decorators):
                return None
            if any(b.split(".")[-1] in ("Enum", "IntEnum", "Flag", "auto") for b in c.bases):
                return None
            return f"instance of {c.name}"
        if last == "field":
            return None
    return None


def run(ctx) -> None:
    r = ctx.r
    r.explanation = (
        "Shared-state discipline decided on the source: inventory of every module-/class-level mutable binding in "
        "sigma/ with every function that can write it (each pair must be in the reviewed table); cached parser "
        "results are deep-copied at every call site; the per-rule fields of ProcessingPipeline are exactly the ones "
        "re-initialised with fresh objects before the first item is applied; class attributes written at run time "
        "are restored by a finally on every exit; pipeline ownership is single and cleared only by '+'; singletons "
        "store no per-call state; mutable defaults are not mutated; one fresh ConversionState per condition. "
        "Decides the mechanisms by which state could leak between rules, not the equality of outputs over histories.")
    r1_inventory(ctx)
    r2_cache_copies(ctx)
    r3_reset_complete(ctx)
    r4_class_attr_writes(ctx)
    r5_ownership(ctx)
    r9_operators_and_memos(ctx)
    r11_config_not_shared(ctx)
    r12_rule_objects_fresh(ctx)
    # the combined pipeline a backend keeps between calls belongs to one output format (shared with C14.R6)
    from . import c14
    from ..util import run_as
    run_as(ctx, c14.r6_format_of_cached_pipeline, "C14.R6", "C15.R13", "no pipeline of an earlier call's format: ")
    r6_singletons(ctx)
    r7_mutable_defaults(ctx)
    r8_fresh_state(ctx)


# ------------------------------------------------------------------------------------------ R1
def _bindings(prog) -> dict[str, tuple[str, str, object]]:
    """qualified binding name -> (kind, description, ModuleInfo/ClassInfo)"""
    out: dict[str, tuple[str, str, object]] = {}
    for m in prog.modules.values():
        for name, stmts in m.assigns.items():
            for st in stmts:
                desc = _is_mutable_value(prog, m, getattr(st, "value", None))
                if desc:
                    out[f"{m.name}.{name}"] = ("module", desc, m)
    for c in prog.classes.values():
        is_dc = c.is_dataclass or any(prog.classes.get(b) and prog.classes[b].is_dataclass for b in prog.mro(c.qual)[1:])
        for name, stmts in c.assigns.items():
            for st in stmts:
                if isinstance(st, ast.AnnAssign) and is_dc and "ClassVar" not in unparse(st.annotation):
                    continue  # dataclass instance field
                desc = _is_mutable_value(prog, c.module, getattr(st, "value", None))
                if desc:
                    out[f"{c.qual}.{name}"] = ("class", desc, c)
    return out


def _instance_assigned(prog, cq: str, attr: str) -> bool:
    """Is self.<attr> bound on instances somewhere in the class hierarchy (then self.attr is not the class object)?"""
    for q in prog.mro(cq) + prog.subclasses(cq, strict=True):
        c = prog.classes.get(q)
        if not c:
            continue
        for f in c.methods.values():
            for n in walk_no_nested(f.node):
                if isinstance(n, ast.Attribute) and n.attr == attr and isinstance(n.ctx, ast.Store) \
                        and isinstance(n.value, ast.Name) and n.value.id == "self":
                    return True
        fields = prog.dataclass_fields(q) if (c.is_dataclass) else {}
        if attr in fields:
            return True
    return False


def _refers_to_binding(prog, fi: FuncInfo, e: ast.AST, bindings, _depth: int = 0) -> Optional[str]:
    """If expression e denotes a shared binding, return its qualified name."""
    if isinstance(e, ast.Name):
        # local shadowing?
        if e.id in fi.params():
            return None
        vals = assignments_to(fi.node, e.id)
        if vals:
            # local alias of a shared binding (ranks = self._ranks; ranks.update(...))
            if _depth < 3 and all(isinstance(v, (ast.Name, ast.Attribute)) for v in vals):
                hits = {_refers_to_binding(prog, fi, v, bindings, _depth + 1) for v in vals}
                if len(hits) == 1 and None not in hits:
                    return hits.pop()
            return None
        q = prog.resolve_name(fi.module, e.id)
        if q in bindings:
            return q
        return None
    if isinstance(e, ast.Attribute):
        base = e.value
        cls_q = None
        if isinstance(base, ast.Name) and base.id == "cls" and fi.cls:
            cls_q = fi.cls.qual
        elif isinstance(base, ast.Name) and base.id == "self" and fi.cls:
            if _instance_assigned(prog, fi.cls.qual, e.attr):
                return None
            cls_q = fi.cls.qual
        elif unparse(base) in ("self.__class__", "type(self)") and fi.cls:
            cls_q = fi.cls.qual
        else:
            q = prog.resolve_expr(fi.module, base)
            if q in prog.classes:
                cls_q = q
            elif q in prog.modules:
                qq = f"{q}.{e.attr}"
                return qq if qq in bindings else None
        if cls_q:
            for q in prog.mro(cls_q):
                qq = f"{q}.{e.attr}"
                if qq in bindings:
                    return qq
    return None


def r1_inventory(ctx, rid: str = "C15.R1") -> None:
    r, prog = ctx.r, ctx.prog
    r.rule(rid, "every (module-/class-level mutable binding, function that can write it) pair is in the reviewed table")
    bindings = _bindings(prog)
    r.analysed["C15.shared_mutable_bindings"] = len(bindings)
    writers: dict[tuple[str, str], tuple[FuncInfo, ast.AST, str]] = {}
    for q, fi in sorted(prog.funcs.items()):
        for n in walk_no_nested(fi.node):
            tgt = None
            how = ""
            if isinstance(n, ast.Call) and isinstance(n.func, ast.Attribute) and n.func.attr in MUTATORS:
                tgt, how = n.func.value, f".{n.func.attr}()"
            elif isinstance(n, ast.Subscript) and isinstance(n.ctx, (ast.Store, ast.Del)):
                tgt, how = n.value, "[...] store"
            elif isinstance(n, ast.AugAssign):
                tgt, how = n.target, "augmented assignment"
                if isinstance(tgt, ast.Subscript):
                    tgt = tgt.value
            elif isinstance(n, ast.Attribute) and isinstance(n.ctx, (ast.Store, ast.Del)):
                # store on an attribute of a shared object (X.attr = ...), or rebinding the binding itself
                b = _refers_to_binding(prog, fi, n, bindings)
                if b and not (isinstance(n.value, ast.Name) and n.value.id == "self"):
                    writers.setdefault((b, q), (fi, n, "rebinds the class/module attribute"))
                tgt, how = n.value, f".{n.attr} store"
            elif isinstance(n, ast.Subscript) and isinstance(n.ctx, ast.Load):
                # lookup on a defaultdict binding inserts
                b = _refers_to_binding(prog, fi, n.value, bindings)
                if b and "defaultdict" in bindings[b][1]:
                    writers.setdefault((b, q), (fi, n, "defaultdict lookup (inserts on miss)"))
                continue
            elif isinstance(n, ast.Global):
                for name in n.names:
                    b = f"{fi.module.name}.{name}"
                    writers.setdefault((b, q), (fi, n, "global statement"))
                continue
            if tgt is None:
                continue
            b = _refers_to_binding(prog, fi, tgt, bindings)
            if b:
                writers.setdefault((b, q), (fi, n, how))
    # module-level writes outside functions (import-time registry fill) are part of the definition
    for b in sorted(bindings):
        ws = [(k, v) for k, v in writers.items() if k[0] == b]
        if not ws:
            r.ok(rid, b, f"{bindings[b][1]}: no function in sigma/ writes it (read-only table)")
    for (b, q), (fi, n, how) in sorted(writers.items(), key=lambda kv: kv[0]):
        loc = f"{fi.module.relpath}:{getattr(n, 'lineno', fi.node.lineno)}"
        reason = ALLOWED_WRITERS.get((b, q))
        if reason:
            r.ok(rid, q, f"writes {b} ({how}) — allowed: {reason}", loc)
        else:
            r.violation(rid, q, f"{b} <- {how}",
                        f"process-wide mutable object {b} ({bindings.get(b, ('', '?'))[1]}) is written by {q}; the pair is not in the "
                        f"reviewed table of shared-state writers, so state can flow from one conversion into the next", loc)
    r.floor(rid, 40)


# ------------------------------------------------------------------------------------------ R2
def r2_cache_copies(ctx) -> None:
    r, prog = ctx.r, ctx.prog
    r.rule("C15.R2", "results of lru_cache/cache-decorated functions that are mutable objects are deep-copied at every call site before use")
    cached = [f for f in prog.funcs.values() if any(d.split("(")[0].split(".")[-1] in ("lru_cache", "cache", "cached_property") for d in f.decorators)]
    if not any(f.qual == "sigma.conditions._parse_condition_string" for f in cached):
        raise AnalysisError("anchor vanished: sigma.conditions._parse_condition_string is no longer an lru_cache'd function")
    for cf in cached:
        ret = unparse(cf.node.returns) if cf.node.returns is not None else ""
        immutable = ret in ("str", "int", "bool", "float", "bytes", "None") or ret.startswith(("tuple", "frozenset", "Type[", "type["))
        sites = 0
        for q, fi in sorted(prog.funcs.items()):
            for c in (n for n in walk_no_nested(fi.node) if isinstance(n, ast.Call)):
                nm = call_name(c)
                if nm.split(".")[-1] != cf.name:
                    continue
                if cf.cls is None and prog.resolve_expr(fi.module, c.func) != cf.qual:
                    continue
                sites += 1
                loc = f"{fi.module.relpath}:{c.lineno}"
                if immutable:
                    r.ok("C15.R2", q, f"{short(c, 60)}: cached result type {ret} is immutable", loc)
                    continue
                p = prog.parent(c)
                if isinstance(p, ast.Call) and call_name(p) in ("copy.deepcopy", "deepcopy") and p.args and p.args[0] is c:
                    r.ok("C15.R2", q, f"copy.deepcopy({short(c, 60)})", loc)
                elif isinstance(p, (ast.Assign, ast.AnnAssign)) and p.value is c and isinstance((p.targets[0] if isinstance(p, ast.Assign) else p.target), ast.Name) \
                        and (uses := [u for u in ast.walk(fi.node) if isinstance(u, ast.Name) and isinstance(u.ctx, ast.Load) and u.id == (p.targets[0] if isinstance(p, ast.Assign) else p.target).id]) \
                        and all(isinstance(pu := prog.parent(u), ast.Call) and call_name(pu) in ("copy.deepcopy", "deepcopy") and pu.args and pu.args[0] is u for u in uses) \
                        and sum(1 for st_ in ast.walk(fi.node) if isinstance(st_, (ast.Assign, ast.AnnAssign, ast.AugAssign, ast.For, ast.NamedExpr, ast.With)) and any(
                            isinstance(t_, ast.Name) and t_.id == uses[0].id and isinstance(t_.ctx, ast.Store) for t_ in ast.walk(st_))) == 1:
                    r.ok("C15.R2", q, f"{short(p, 70)}: the cached object is held in a local whose only use is copy.deepcopy({uses[0].id})", loc)
                else:
                    r.violation("C15.R2", q, short(prog.enclosing_stmt(c), 140),
                                f"result of cached function {cf.qual} is used without copy.deepcopy: the cached parse tree is shared "
                                f"between all rules with the same condition string and postprocess() mutates it", loc)
        # cached_property on mutable self is per-instance: fine
        if sites == 0 and not immutable and "cached_property" not in " ".join(cf.decorators):
            r.ok("C15.R2", cf.qual, "cached function has no call site in sigma/")
    # the cached function itself must not return an already post-processed (rule-specific) object
    r.floor("C15.R2", 1)


# ------------------------------------------------------------------------------------------ R3
def r3_reset_complete(ctx, rid: str = "C15.R3") -> None:
    r, prog = ctx.r, ctx.prog
    r.rule(rid, "every init=False (per-rule) field of ProcessingPipeline is re-initialised with a fresh object at the top of apply(), before the first item is applied")
    pq = "sigma.processing.pipeline.ProcessingPipeline"
    c = prog.cls(pq)
    per_rule: dict[str, ast.AnnAssign] = {}
    for st in c.node.body:
        if isinstance(st, ast.AnnAssign) and isinstance(st.target, ast.Name) and isinstance(st.value, ast.Call) \
                and call_name(st.value) in ("field", "dataclasses.field"):
            for kw in st.value.keywords:
                if kw.arg == "init" and isinstance(kw.value, ast.Constant) and kw.value.value is False:
                    per_rule[st.target.id] = st
    if len(per_rule) < 5:
        raise AnalysisError(f"{pq}: only {len(per_rule)} init=False fields found (5 confirmed on the pinned tree)")
    ap = prog.func(pq + ".apply")
    # ProcessingPipeline.apply interpreted (sa.tabulate, Proxy): every per-rule field holds what the previous rule left behind;
    # the first item that is applied (or the caller, for a pipeline without items) has to find each of them empty again
    from collections import defaultdict as _dd
    from ..tabulate import Proxy, call_method, Raised, Interp, module_env

    # the tracking object keeps more than its mapping (a reverse mapping built in __init__): the stand-in has the same
    # instance attributes, read from the source, so that emptying the mapping alone does not pass for a reset
    fmt_cls = prog.classes.get("sigma.processing.tracking.FieldMappingTracking")
    if fmt_cls is None or "__init__" not in fmt_cls.methods:
        raise AnalysisError("anchor vanished: sigma.processing.tracking.FieldMappingTracking.__init__")
    fmt_attrs = sorted({t.attr for n_ in ast.walk(fmt_cls.methods["__init__"].node) if isinstance(n_, (ast.Assign, ast.AnnAssign))
                        for t in (n_.targets if isinstance(n_, ast.Assign) else [n_.target])
                        if isinstance(t, ast.Attribute) and isinstance(t.value, ast.Name) and t.value.id == "self"})

    class FieldMappingTracking(dict):
        def __init__(self, *a, **k):
            super().__init__(*a, **k)
            for nm_ in fmt_attrs:
                setattr(self, nm_, _dd(set))
        def add_mapping(self, s_, t_):
            self.setdefault(s_, set()).update(t_ if isinstance(t_, list) else [t_])
            for nm_ in fmt_attrs:
                getattr(self, nm_)[s_].add("x")
        def merge(self, o_): self.update(o_)
        def __copy__(self):
            n_ = type(self)(self)
            for nm_ in fmt_attrs:
                setattr(n_, nm_, _dd(set, getattr(self, nm_)))
            return n_

    env = {"defaultdict": _dd, "FieldMappingTracking": FieldMappingTracking, "__class_state__": {}}
    IK = {"max_steps": 8000}

    def pollute(v):
        if isinstance(v, list):
            v.append(True)
        elif isinstance(v, set):
            v.add("zz")
        elif isinstance(v, FieldMappingTracking):
            v.add_mapping("zz", "zz")
        elif isinstance(v, dict):
            v["zz"] = {"zz"}
        else:
            return False
        return True

    def stale_value(name):
        kws = {k.arg: k.value for k in per_rule[name].value.keywords if k.arg}
        it_ = Interp(module_env(prog, c.module, env, IK), **IK)
        try:
            v = it_.ev(kws["default_factory"])() if "default_factory" in kws else it_.ev(kws["default"])
        except Exception:
            v = None
        if v is None or not pollute(v):
            v = type("Stale", (), {"__repr__": lambda s_: f"<what the previous rule left in {name}>"})()
        return v

    def snapshot(v):
        import copy as _copy
        return _copy.copy(v) if isinstance(v, (list, set, dict)) else v

    def content(v):
        if isinstance(v, FieldMappingTracking):
            return len(v) + sum(len(getattr(v, nm_)) for nm_ in fmt_attrs)
        return len(v) if isinstance(v, (list, set, dict)) else None

    problems: dict[str, str] = {}
    for n_items in (2, 0):
        for given in (None, {"k": "v"}):
            seen_at_first: list[dict] = []

            class _Item:
                identifier = "it"
                def __init__(self, me_): self.me = me_
                def apply(self, rule, *a, **k):
                    if not seen_at_first or seen_at_first[-1].get("__done__"):
                        seen_at_first.append({nm: (getattr(self.me, nm), snapshot(getattr(self.me, nm))) for nm in per_rule})
                        seen_at_first[-1]["__done__"] = False
                    for nm in per_rule:
                        if nm != "applied":
                            pollute(getattr(self.me, nm))
                    return True

            instances = []
            for inst in range(2):
                stale = {nm: stale_value(nm) for nm in per_rule}
                me = Proxy(prog, pq, env, dict(stale, items=[], postprocessing_items=[], finalizers=[], vars={}), interp_kwargs=IK)
                me.items = [_Item(me) for _ in range(n_items)]
                instances.append((me, stale))
            for me, stale in instances:
                for run in (1, 2):
                    before = {nm: getattr(me, nm) for nm in per_rule}
                    try:
                        call_method(prog, pq, "apply", me, env, object(), *(() if given is None else (given,)), interp_kwargs=IK)
                    except Raised as ex:
                        problems.setdefault("*", f"apply raises {ex} ({n_items} items, state {'given' if given else 'not given'})")
                        break
                    if n_items:
                        snap = seen_at_first[-1] if seen_at_first and not seen_at_first[-1]["__done__"] else None
                        if snap is None:
                            problems.setdefault("*", "no item was applied")
                            break
                        snap["__done__"] = True
                    else:
                        snap = {nm: (getattr(me, nm), snapshot(getattr(me, nm))) for nm in per_rule}
                    for nm in per_rule:
                        obj, v = snap[nm]
                        when = "when the first item is applied" if n_items else "after apply() of a pipeline without items"
                        if nm == "state" and given is not None:
                            if obj is given:
                                problems.setdefault(nm, f"is the caller's state object itself {when}, not a copy")
                            elif not (isinstance(v, dict) and {k_: v_ for k_, v_ in v.items() if k_ != "zz"} == given) or (not n_items and "zz" in v):
                                problems.setdefault(nm, f"is {v!r} {when} instead of a copy of the given state {given!r}")
                            continue
                        if obj is before[nm] and content(v) != 0:
                            problems.setdefault(nm, f"is not re-initialised {when}: it still holds {v!r} from the previous rule ({'state given' if given else 'no state given'})")
                        elif content(v) not in (0, None):
                            problems.setdefault(nm, f"is re-initialised with a non-fresh object {when}: {v!r}")
                        elif any(obj is x for nm2 in per_rule for x in (before[nm2],) if nm2 != nm and content(x) is not None):
                            problems.setdefault(nm, f"is re-initialised with the object of another field {when}")
    loc = f"{ap.module.relpath}:{ap.node.lineno}"
    if "*" in problems:
        r.violation(rid, ap.qual, "apply() on a pipeline with left-over per-rule fields", problems["*"], loc)
    for name in sorted(per_rule):
        if name in problems:
            r.violation(rid, ap.qual, f"reset of self.{name}",
                        f"per-rule field {name} (init=False) {problems[name]}: state of the previous rule stays visible to the next one", loc)
        elif "*" not in problems:
            r.ok(rid, ap.qual, f"self.{name} is empty again (a copy of the given state for state) when the first item is applied — interpreted with left-overs of a previous rule in every per-rule field, two runs on two instances, with and without items and state", loc)
    # nested pipelines go through the same apply()
    for q in ("sigma.processing.transformations.meta.NestedProcessingTransformation.apply",):
        f = prog.func(q)
        if any(isinstance(n, ast.Call) and call_name(n) == "self._nested_pipeline.apply" for n in walk_no_nested(f.node)):
            r.ok(rid, q, "nested pipeline is run through ProcessingPipeline.apply (same reset)", f.loc)
        else:
            r.violation(rid, q, "self._nested_pipeline.apply(rule)", "nested pipeline no longer goes through ProcessingPipeline.apply", f.loc)
    # apply(rule, state): the only state that may be handed in is the enclosing pipeline's state of this very rule
    for q, fi in sorted(prog.funcs.items()):
        if not fi.module.name.startswith("sigma."):
            continue
        for c in (x for x in walk_no_nested(fi.node) if isinstance(x, ast.Call) and isinstance(x.func, ast.Attribute) and x.func.attr == "apply"
                  and (len(x.args) >= 2 or any(k.arg == "state" for k in x.keywords))):
            recv = ctx.types.class_names(fi.module, c.func.value)
            if pq not in recv and unparse(c.func.value) != "self._nested_pipeline":
                continue
            st_arg = c.args[1] if len(c.args) >= 2 else next(k.value for k in c.keywords if k.arg == "state")
            loc = f"{fi.module.relpath}:{c.lineno}"
            if unparse(c.func.value) == "self._nested_pipeline" and unparse(st_arg) == "self._pipeline.state":
                r.ok(rid, q, "nested pipeline starts with a copy of the enclosing pipeline's state of this rule", loc)
            else:
                r.violation(rid, q, short(c, 100), f"a pipeline run is seeded with {unparse(st_arg)}: only the enclosing pipeline's own per-rule state may be handed to a nested pipeline, anything else carries state from one rule (or pipeline) into another", loc)
    # every reader of a nested pipeline's per-rule field sees this rule's value: the read is dominated by a run through
    # apply() (which resets) or by a fresh store to that field in the same function
    n_reads = 0
    for q, fi in sorted(prog.funcs.items()):
        if not fi.module.name.startswith("sigma.processing"):
            continue
        reads = [n for n in walk_no_nested(fi.node) if isinstance(n, ast.Attribute) and isinstance(n.ctx, ast.Load) and n.attr in per_rule
                 and unparse(n.value) == "self._nested_pipeline"]
        if not reads:
            continue
        fcfg = cfg_of(fi)
        for rd in reads:
            n_reads += 1
            loc = f"{fi.module.relpath}:{rd.lineno}"
            resets = []
            for st in walk_no_nested(fi.node):
                if isinstance(st, ast.Expr) and isinstance(st.value, ast.Call) and call_name(st.value) == "self._nested_pipeline.apply":
                    resets += fcfg.nodes_of(st)
                if isinstance(st, ast.Assign) and any(isinstance(t, ast.Attribute) and t.attr == rd.attr and unparse(t.value) == "self._nested_pipeline" for t in st.targets) \
                        and _is_fresh(prog, fi, st.value):
                    resets += fcfg.nodes_of(st)
            rd_nodes = fcfg.node_of_expr(rd, prog.parent)

            def resets_in(g, attr):
                gcfg = cfg_of(g)
                out_ = []
                for st_ in walk_no_nested(g.node):
                    if isinstance(st_, ast.Expr) and isinstance(st_.value, ast.Call) and call_name(st_.value) == "self._nested_pipeline.apply":
                        out_ += gcfg.nodes_of(st_)
                    if isinstance(st_, ast.Assign) and any(isinstance(t_, ast.Attribute) and t_.attr == attr and unparse(t_.value) == "self._nested_pipeline" for t_ in st_.targets) \
                            and _is_fresh(prog, g, st_.value):
                        out_ += gcfg.nodes_of(st_)
                return gcfg, out_

            def reset_before_every_call(g, attr, depth=0) -> bool:
                """g is a private helper of the class: every call of it (by name, anywhere) follows a reset in its caller"""
                if g.cls is None or not g.name.startswith("_") or g.name.startswith("__") or depth > 2:
                    return False
                sites_ = [(h, n_) for h in prog.funcs.values() if h.qual != g.qual for n_ in walk_no_nested(h.node)
                          if isinstance(n_, ast.Attribute) and n_.attr == g.name]
                if not sites_:
                    return False
                for h, n_ in sites_:
                    call_ = prog.parent(n_)
                    if h.cls is None or h.cls.qual != g.cls.qual or not (isinstance(call_, ast.Call) and call_.func is n_ and unparse(n_.value) == "self"):
                        return False
                    hcfg, hres = resets_in(h, attr)
                    hn = hcfg.node_of_expr(call_, prog.parent)
                    if not (hres and hn and all(hcfg.must_pass(x_, hres) for x_ in hn)) and not reset_before_every_call(h, attr, depth + 1):
                        return False
                return True

            if resets and rd_nodes and all(fcfg.must_pass(x, resets) for x in rd_nodes):
                r.ok(rid, q, f"read of self._nested_pipeline.{rd.attr} follows a reset (apply() or a fresh store) on every path", loc)
            elif not resets and reset_before_every_call(fi, rd.attr):
                r.ok(rid, q, f"read of self._nested_pipeline.{rd.attr} in a private helper whose every call follows a reset in the caller", loc)
            else:
                r.violation(rid, q, short(prog.enclosing_stmt(rd), 110),
                            f"self._nested_pipeline.{rd.attr} is read although the nested pipeline was not reset for this rule (it is never run through apply()): identifiers recorded while post-processing earlier rules' queries are merged into the enclosing pipeline again, so a rule's output depends on the rules converted before it", loc)
    r.analysed["C15.nested_pipeline_state_reads"] = n_reads
    # nobody else resets/aliases the per-rule fields to shared objects
    for q, fi in sorted(prog.funcs.items()):
        if not fi.module.name.startswith("sigma."):
            continue
        for n in walk_no_nested(fi.node):
            if isinstance(n, ast.Assign):
                for t in n.targets:
                    if isinstance(t, ast.Attribute) and t.attr in per_rule and q != ap.qual:
                        recv = ctx.types.class_names(fi.module, t.value)
                        if pq in recv or (isinstance(t.value, ast.Attribute) and t.value.attr in ("_pipeline", "_nested_pipeline", "last_processing_pipeline")):
                            if _is_fresh(prog, fi, n.value):
                                r.ok(rid, q, unparse(n), f"{fi.module.relpath}:{n.lineno}")
                            else:
                                r.violation(rid, q, unparse(n), f"per-rule pipeline field {t.attr} is bound to a non-fresh object outside apply()", f"{fi.module.relpath}:{n.lineno}")
    r.floor(rid, 6)


def _is_fresh(prog, fi: FuncInfo, v: Optional[ast.AST]) -> bool:
    if v is None:
        return False
    if isinstance(v, ast.IfExp):
        return _is_fresh(prog, fi, v.body) and _is_fresh(prog, fi, v.orelse)
    if isinstance(v, ast.Call) and call_name(v) in ("dict", "list", "set") and len(v.args) == 1 and not v.keywords \
            and isinstance(v.args[0], ast.Name) and v.args[0].id in fi.params() and v.args[0].id != "self":
        return True   # a new object filled from an argument of this call (what may be passed is checked at the call sites)
    if isinstance(v, (ast.Dict, ast.List, ast.Set)) and not (getattr(v, "elts", None) or getattr(v, "keys", None)):
        return True
    if isinstance(v, ast.Call):
        d = call_name(v)
        last = d.split(".")[-1]
        if last in ("list", "dict", "set") and not v.keywords and (not v.args or (len(v.args) == 1 and _is_fresh(prog, fi, v.args[0]))):
            return True   # set(), set([]), dict({}) …
        if last == "defaultdict" and all(isinstance(a, ast.Name) for a in v.args) and len(v.args) <= 1:
            return True
        q = prog.resolve_expr(fi.module, v.func)
        if q in prog.classes and not v.args and not v.keywords:
            return True
    return False


# ------------------------------------------------------------------------------------------ R4
def r4_class_attr_writes(ctx, rid: str = "C15.R4") -> None:
    r, prog = ctx.r, ctx.prog
    r.rule(rid, "every class attribute written at run time is saved before and restored in a finally of the same function on all exits (or is an idempotent derivation listed with its reason)")
    n_sites = 0
    for q, fi in sorted(prog.funcs.items()):
        writes: list[tuple[ast.Attribute, ast.stmt]] = []
        for n in walk_no_nested(fi.node):
            if isinstance(n, ast.Attribute) and isinstance(n.ctx, (ast.Store, ast.Del)):
                base = unparse(n.value)
                is_cls = base in ("cls", "self.__class__", "type(self)")
                if not is_cls:
                    bq = prog.resolve_expr(fi.module, n.value)
                    is_cls = bq in prog.classes
                if is_cls:
                    writes.append((n, prog.enclosing_stmt(n)))
            if isinstance(n, ast.Call) and call_name(n) == "setattr" and n.args and unparse(n.args[0]) in ("cls", "self.__class__", "type(self)"):
                writes.append((n, prog.enclosing_stmt(n)))  # type: ignore[arg-type]
        if not writes:
            continue
        # try/finally structure
        tries = [t for t in walk_no_nested(fi.node) if isinstance(t, ast.Try) and t.finalbody]
        # a context manager that names the swapped attributes through a table (setattr with a computed name) is decided by
        # interpretation: every attribute is back after a normal and after an exceptional exit of the with-body
        dynamic = [(node, st) for node, st in writes if isinstance(node, ast.Call) and not isinstance(node.args[1], ast.Constant)]
        if dynamic and any("contextmanager" in d for d in fi.decorators) and fi.cls is not None:
            from .standins import class_swap_outcome
            o = class_swap_outcome(ctx, fi.cls.qual, fi.name)
            for node, st in dynamic:
                n_sites += 1
                loc = f"{fi.module.relpath}:{st.lineno}"
                if any(_contains(t.finalbody, st) for t in tries):
                    continue
                if o.yielded and o.at_yield and o.restored_normal and o.restored_exception and o.exception_propagates and not o.off_changes and o.off_yielded:
                    for an in sorted(o.at_yield):
                        r.ok(rid, q, f"{an}: swapped while the manager is active, back after a normal and after an exceptional exit (interpreted; {short(st, 60)})", loc)
                else:
                    why = "not restored after a normal exit" if not o.restored_normal else "not restored when the with-body raises" if not o.restored_exception else "the exception of the with-body is swallowed" if not o.exception_propagates else "attributes change although the manager is switched off" if o.off_changes else "the manager does not yield"
                    r.violation(rid, q, short(st, 120), f"class attributes are swapped at run time and {why}: the change outlives the call and every later conversion by any instance sees it", loc)
            writes = [w for w in writes if w not in dynamic]
        for node, st in writes:
            n_sites += 1
            attr = node.attr if isinstance(node, ast.Attribute) else unparse(node.args[1])
            loc = f"{fi.module.relpath}:{st.lineno}"
            key = (q, attr)
            if key in ALLOWED_CLASS_ATTR_WRITES:
                # the derivation must still depend on class attributes only
                if q.endswith("TextQueryBackend.__new__"):
                    rhs = st.value if isinstance(st, ast.Assign) else None
                    names = {unparse(x) for x in ast.walk(rhs) if isinstance(x, ast.Attribute)} if rhs is not None else set()
                    if rhs is not None and all(x.startswith("cls.") for x in names):
                        r.ok(rid, q, f"{short(st, 100)} — {ALLOWED_CLASS_ATTR_WRITES[key]}", loc)
                    else:
                        r.violation(rid, q, short(st, 120), "class attribute derived from per-instance/per-call data in __new__", loc)
                else:
                    r.ok(rid, q, f"{short(st, 100)} — {ALLOWED_CLASS_ATTR_WRITES[key]}", loc)
                continue
            in_final = any(_contains(t.finalbody, st) for t in tries)
            if in_final:
                continue  # restores are judged from the swap side
            enclosing = [t for t in tries if _contains(t.body, st)]
            if not enclosing:
                r.violation(rid, q, short(st, 120),
                            f"class attribute {attr} is written at run time outside a try/finally that restores it: the change outlives the call and every later conversion by any instance sees it", loc)
                continue
            t = enclosing[0]
            restored = None
            for fs in t.finalbody:
                for x in ast.walk(fs):
                    if isinstance(x, ast.Attribute) and isinstance(x.ctx, ast.Store) and x.attr == attr and unparse(x.value) == unparse(node.value if isinstance(node, ast.Attribute) else node.args[0]):
                        restored = fs
            if restored is None:
                r.violation(rid, q, short(st, 120), f"class attribute {attr} is swapped inside try but not restored in its finally", loc)
                continue
            # the restored value must come from a save taken before the try
            saved_ok = _restore_uses_saved(prog, fi, t, restored, attr)
            if saved_ok is None:
                r.ok(rid, q, f"{attr}: saved before try, swapped in try, restored in finally", loc)
            else:
                r.violation(rid, q, short(restored, 140), f"restore of {attr} {saved_ok}", f"{fi.module.relpath}:{restored.lineno}")
        # yield of a context manager must be inside the try (so that an exception in the with-body restores)
        if any("contextmanager" in d for d in fi.decorators) and tries:
            for y in (n for n in walk_no_nested(fi.node) if isinstance(n, (ast.Yield, ast.YieldFrom))):
                yst = prog.enclosing_stmt(y)
                gs = atomic_guards(guards_at(prog, fi, y))
                swap_active = any(_contains(t.body, yst) for t in tries)
                before_swap = not any(isinstance(n, ast.Attribute) and isinstance(n.ctx, ast.Store) for t in tries for b in t.body for n in ast.walk(b))
                if swap_active:
                    r.ok(rid, q, "yield inside the try whose finally restores", f"{fi.module.relpath}:{y.lineno}")
                else:
                    # a yield outside the try is fine only if no swap has happened on that path
                    cfg = cfg_of(fi)
                    swap_nodes = [x for node, st in writes for x in cfg.nodes_of(st) if not any(_contains(t.finalbody, st) for t in tries)]
                    reach_after_swap = any(cfg.paths_exist(sn, yn) for sn in swap_nodes for yn in cfg.nodes_of(yst))
                    if reach_after_swap:
                        r.violation(rid, q, stmt_head(yst), "yield reachable after the swap but outside the try/finally: an exception in the with-body leaves the swapped class attributes in place", f"{fi.module.relpath}:{y.lineno}")
                    else:
                        r.ok(rid, q, "yield outside try not reachable after a swap", f"{fi.module.relpath}:{y.lineno}")
    r.analysed["C15.class_attribute_write_sites"] = n_sites
    r.floor(rid, 10)


def _contains(body: list[ast.stmt], st: ast.AST) -> bool:
    return any(st is x for b in body for x in ast.walk(b))


def _restore_uses_saved(prog, fi: FuncInfo, t: ast.Try, restore: ast.stmt, attr: str) -> Optional[str]:
    """None if `restore` assigns attr from a value saved before the try (dict literal entry or local)."""
    if not isinstance(restore, ast.Assign):
        return "is not a plain assignment"
    v = restore.value
    while isinstance(v, ast.Call) and call_name(v) == "cast" and len(v.args) == 2:
        v = v.args[1]
    if isinstance(v, ast.Subscript) and isinstance(v.value, ast.Name) and isinstance(v.slice, ast.Constant):
        save_name, key = v.value.id, v.slice.value
        defs = assignments_to(fi.node, save_name)
        if len(defs) != 1 or not isinstance(defs[0], ast.Dict):
            return f"reads {save_name}[{key!r}] but {save_name} is not a single dict literal"
        d = defs[0]
        if d.lineno >= t.lineno:
            return "uses a save that is taken after the try starts"
        for k, val in zip(d.keys, d.values):
            if isinstance(k, ast.Constant) and k.value == key:
                if unparse(val) in (f"self.{attr}", f"self.__class__.{attr}", f"cls.{attr}", f"type(self).{attr}"):
                    if key != attr:
                        return f"restores from the save of {key!r}, not of {attr!r}"
                    recv = unparse(restore.targets[0].value) if isinstance(restore.targets[0], ast.Attribute) else ""
                    if recv in ("self.__class__", "type(self)", "cls") and unparse(val) == f"self.{attr}":
                        return (f"writes the class attribute from a value read through the instance (self.{attr}): an instance attribute of that name "
                                "(a per-instance backend option) is promoted to the class by the first negated rendering and changes every other instance")
                    return None
                return f"save entry {key!r} holds {unparse(val)}, not the original {attr}"
        return f"save dict has no entry {key!r}"
    if isinstance(v, ast.Name):
        defs = assignments_to(fi.node, v.id)
        if len(defs) == 1 and unparse(defs[0]) in (f"self.{attr}", f"self.__class__.{attr}", f"cls.{attr}") and defs[0].lineno < t.lineno:
            return None
        return f"restores from local {v.id} which is not a save of {attr} taken before the try"
    return f"restores from {short(v, 60)}, not from a saved original"


# ------------------------------------------------------------------------------------------ R5
def r9_operators_and_memos(ctx) -> None:
    """Operand mutation by '+' (shared with C14.R5; the _clear_pipeline calls are C15.R5) and memo discipline."""
    from . import c14
    r, prog = ctx.r, ctx.prog
    c14.r5_operands_not_consumed(ctx, "C15.R9", skip_clear=True)
    r.rule("C15.R10", "memo discipline: a function that answers from a '*cache*' attribute stores and returns the same value under the same key — what a later call gets from the cache is what the first call returned")
    n_memo = 0
    for q, f in sorted(prog.funcs.items()):
        if not f.module.name.startswith("sigma.") or f.module.name.startswith(("sigma.data", "sigma.validators", "sigma.plugins", "sigma.cli")):
            continue

        def cache_base(e: ast.AST) -> Optional[str]:
            """'X' if e denotes a cache attribute (…​.<name with 'cache'>) or a local alias of one."""
            if isinstance(e, ast.Attribute) and "cache" in e.attr.lower():
                return unparse(e)
            if isinstance(e, ast.Name):
                vals = [v for v in assignments_to(f.node, e.id) if isinstance(v, ast.Attribute) and "cache" in v.attr.lower()]
                if vals and len(vals) == len(assignments_to(f.node, e.id)):
                    return unparse(vals[0])
            return None

        reads: list[tuple[ast.Return, Optional[str]]] = []
        stores: list[tuple[ast.Assign, Optional[str], list[str]]] = []
        for n in walk_no_nested(f.node):
            if isinstance(n, ast.Return) and n.value is not None:
                v = n.value
                if cache_base(v):
                    reads.append((n, None))
                elif isinstance(v, ast.Subscript) and cache_base(v.value):
                    reads.append((n, unparse(v.slice)))
            elif isinstance(n, ast.Assign):
                names = [t.id for t in n.targets if isinstance(t, ast.Name)]
                for t in n.targets:
                    if cache_base(t) and not isinstance(t, ast.Name):
                        stores.append((n, None, names))
                    elif isinstance(t, ast.Subscript) and cache_base(t.value):
                        stores.append((n, unparse(t.slice), names))
        if not stores or not reads:
            continue
        n_memo += 1
        loc = f.loc
        rkeys = {k for _, k in reads if k is not None}
        skeys = {k for _, k, _n in stores if k is not None}
        if rkeys != skeys:
            r.violation("C15.R10", q, f"cache read under key {sorted(rkeys)} but filled under {sorted(skeys)}", "the cache is looked up with another key than it is filled with (e.g. any base class along the MRO): an entry made for one input answers for a different one, so the result depends on what was processed before", loc)
            continue
        bad = False
        for st, key, names in stores:
            stored = st.value
            for ret in (x for x in walk_no_nested(f.node) if isinstance(x, ast.Return) and x.value is not None and x.lineno > st.lineno):
                rv = ret.value
                same = (cache_base(rv) is not None) or (isinstance(rv, ast.Subscript) and cache_base(rv.value) is not None)
                if not same and isinstance(rv, ast.Name):
                    src_names = set(names) | ({stored.id} if isinstance(stored, ast.Name) else set())
                    reassigned = any(isinstance(a, ast.Assign) and any(isinstance(t, ast.Name) and t.id == rv.id for t in a.targets) and a.lineno > st.lineno and a.lineno < ret.lineno for a in walk_no_nested(f.node))
                    same = rv.id in src_names and not reassigned
                if not same:
                    bad = True
                    r.violation("C15.R10", q, f"{stmt_head(st, 70)} … {stmt_head(ret, 50)}", "the value returned on the miss path is not the value that was stored in the cache (it is changed after the store): the first call and every later call return different results for the same input", f"{f.module.relpath}:{st.lineno}")
        if not bad:
            r.ok("C15.R10", q, f"memo: {len(stores)} store(s), {len(reads)} cached return(s), same key, stored value = returned value", loc)
    if n_memo < 2:
        raise AnalysisError(f"only {n_memo} memo functions found (2 confirmed: SigmaModifier._get_modify_type_hint, ExternalSourceBaseTransformation._get_values)")


def r11_config_not_shared(ctx) -> None:
    r, prog = ctx.r, ctx.prog
    r.rule("C15.R11", "a transformation does not hand its own mutable configuration to a rule: a list/dict/set attribute of the transformation is copied before it is stored on the rule model (later items change rule fields in place — they would change the pipeline for all following rules)")
    model = ("sigma.rule.", "sigma.correlations")
    n = 0
    for f in prog.functions_in("sigma.processing.transformations"):
        if f.cls is None:
            continue
        for st in walk_no_nested(f.node):
            if not isinstance(st, ast.Assign):
                continue
            t = st.targets[0]
            base = t.value if isinstance(t, (ast.Attribute, ast.Subscript)) else None
            if base is None or (isinstance(base, ast.Name) and base.id == "self"):
                continue
            recv = ctx.types.class_names(f.module, base if isinstance(t, ast.Attribute) else base)
            if not any(c.startswith(model) for c in recv):
                continue
            v = st.value
            if isinstance(v, ast.Attribute) and isinstance(v.value, ast.Name) and v.value.id == "self":
                ty = (ctx.types.type_str(f.module, v) or "").lower()
                if any(k in ty.split("[")[0] for k in ("list", "dict", "set")):
                    n += 1
                    r.violation("C15.R11", f.qual, stmt_head(st), f"the rule receives the transformation's own {ty.split('[')[0].split('.')[-1]} object {unparse(v)}: add_field/remove_field and field mappings change rule fields in place, so they edit the pipeline's configuration and every rule converted afterwards starts from the changed list", f"{f.module.relpath}:{st.lineno}")
            elif isinstance(v, ast.Call) and isinstance(v.func, ast.Attribute) and v.func.attr in ("copy", "deepcopy") and isinstance(v.func.value, ast.Attribute) and unparse(v.func.value).startswith("self."):
                n += 1
                r.ok("C15.R11", f.qual, f"{stmt_head(st, 70)}: configuration copied", f"{f.module.relpath}:{st.lineno}")
    r.floor("C15.R11", 1)


def r5_ownership(ctx) -> None:
    r, prog = ctx.r, ctx.prog
    r.rule("C15.R5", "a processing item/transformation/condition has a single owning pipeline: set_pipeline refuses a second owner; owners are cleared only by _clear_pipeline, which is called only from the '+' operator (reported as operand-consuming)")
    n = 0
    for q, fi in sorted(prog.funcs.items()):
        if fi.name != "set_pipeline" or fi.cls is None or fi.cls.name == "ProcessingPipeline":
            continue
        stores = [x for x in walk_no_nested(fi.node) if isinstance(x, ast.Attribute) and x.attr == "_pipeline" and isinstance(x.ctx, ast.Store)]
        if not stores:
            # delegating overrides must call super().set_pipeline
            if any(isinstance(c, ast.Call) and call_name(c) == "super().set_pipeline" for c in walk_no_nested(fi.node)):
                r.ok("C15.R5", q, "delegates to super().set_pipeline", fi.loc)
                n += 1
            continue
        for s in stores:
            gs = atomic_guards(guards_at(prog, fi, s))
            loc = f"{fi.module.relpath}:{s.lineno}"
            if ("self._pipeline is None", True) in gs or ("self._pipeline is not None", False) in gs:
                raises = any(isinstance(x, ast.Raise) for x in walk_no_nested(fi.node))
                if raises:
                    r.ok("C15.R5", q, "self._pipeline is bound only when unowned; otherwise raises", loc)
                else:
                    r.violation("C15.R5", q, stmt_head(prog.enclosing_stmt(s)), "a second owner is silently ignored instead of refused", loc)
            else:
                r.violation("C15.R5", q, stmt_head(prog.enclosing_stmt(s)),
                            "the owning pipeline is overwritten without checking for an existing owner: the item then reads and writes the state of whichever pipeline claimed it last", loc)
            n += 1
    # who clears owners
    for q, fi in sorted(prog.funcs.items()):
        for x in walk_no_nested(fi.node):
            loc = f"{fi.module.relpath}:{getattr(x, 'lineno', 0)}"
            if isinstance(x, ast.Attribute) and x.attr == "_pipeline" and isinstance(x.ctx, ast.Store):
                st = prog.enclosing_stmt(x)
                if isinstance(st, ast.Assign) and isinstance(st.value, ast.Constant) and st.value.value is None:
                    if fi.name == "_clear_pipeline":
                        r.ok("C15.R5", q, "owner cleared inside _clear_pipeline", loc)
                    else:
                        r.violation("C15.R5", q, unparse(st), "owner back-pointer cleared outside _clear_pipeline", loc)
            if isinstance(x, ast.Call) and call_name(x).endswith("._clear_pipeline") and fi.name != "_clear_pipeline":
                if fi.name == "__add__" and fi.cls and fi.cls.name == "ProcessingPipeline":
                    continue  # decided below by interpreting the operator
                r.violation("C15.R5", q, short(x, 80), "owners are cleared outside the '+' operator", loc)
    # '+' interpreted (sa.tabulate, Proxy; shared with C14.R3/R5): whose items lose their owner
    from .standins import pipeline_sum_outcome
    o = pipeline_sum_outcome(ctx)
    addf = prog.func("sigma.processing.pipeline.ProcessingPipeline.__add__")
    for side, recv in (("left", "self"), ("right", "other")):
        if o.released[side]:
            r.violation("C15.R5", addf.qual, f"{recv}._clear_pipeline()",
                        f"'+' strips {recv} of the ownership of its items and moves the item objects into the sum: an operand that is used again afterwards "
                        f"(e.g. the class-level backend_processing_pipeline on every init_processing_pipeline, or one pipeline object given to two backends) "
                        f"runs items whose state back-pointer belongs to the last sum built", addf.loc)
        else:
            r.ok("C15.R5", addf.qual, f"the items of the {side} operand keep their owner", addf.loc)
    r.floor("C15.R5", 4)


# ------------------------------------------------------------------------------------------ R6
def r6_singletons(ctx) -> None:
    r, prog = ctx.r, ctx.prog
    r.rule("C15.R6", "a class whose __new__ hands out a cached instance stores no constructor arguments in __init__")
    n = 0
    for cq, c in sorted(prog.classes.items()):
        new = c.methods.get("__new__")
        if not new:
            continue
        cached_attr = None
        for rt in (x for x in walk_no_nested(new.node) if isinstance(x, ast.Return)):
            if isinstance(rt.value, ast.Attribute) and unparse(rt.value.value) in ("cls", cq.rsplit(".", 1)[-1]):
                cached_attr = rt.value.attr
        if cached_attr is None:
            r.ok("C15.R6", cq, "__new__ returns a fresh object", new.loc)
            n += 1
            continue
        n += 1
        # the slot: per-subclass or shared with the base?
        init = prog.lookup_method(cq, "__init__")
        stored = []
        if init is not None:
            params = set(init.params()) - {"self"}
            for x in walk_no_nested(init.node):
                if isinstance(x, ast.Assign):
                    for t in x.targets:
                        if isinstance(t, ast.Attribute) and isinstance(t.value, ast.Name) and t.value.id == "self":
                            used = {y.id for y in ast.walk(x.value) if isinstance(y, ast.Name)}
                            if used & params:
                                stored.append(x)
        if stored:
            r.violation("C15.R6", cq, short(stored[0], 100),
                        f"{c.name}.__new__ returns the cached instance cls.{cached_attr} while __init__ stores its argument on it: every construction "
                        f"(each use as a decorator) re-initialises the one shared object, so earlier registered pipelines change behaviour", init.loc)
        else:
            r.ok("C15.R6", cq, f"singleton via cls.{cached_attr} keeps no per-call state", new.loc)
    r.floor("C15.R6", 2)


# ------------------------------------------------------------------------------------------ R7
def r7_mutable_defaults(ctx) -> None:
    r, prog = ctx.r, ctx.prog
    r.rule("C15.R7", "no mutable default argument is mutated, stored on self or returned")
    n = 0
    for q, fi in sorted(prog.funcs.items()):
        a = fi.node.args
        pos = a.posonlyargs + a.args
        defaults = [None] * (len(pos) - len(a.defaults)) + list(a.defaults)
        for p, d in list(zip(pos, defaults)) + list(zip(a.kwonlyargs, a.kw_defaults)):
            if d is None or not _is_mutable_value(prog, fi.module, d):
                continue
            n += 1
            loc = f"{fi.module.relpath}:{p.lineno}"
            bad = None
            for x in walk_no_nested(fi.node):
                if isinstance(x, ast.Call) and isinstance(x.func, ast.Attribute) and x.func.attr in MUTATORS and isinstance(x.func.value, ast.Name) and x.func.value.id == p.arg:
                    bad = x
                if isinstance(x, ast.Subscript) and isinstance(x.ctx, (ast.Store, ast.Del)) and isinstance(x.value, ast.Name) and x.value.id == p.arg:
                    bad = x
                if isinstance(x, ast.Assign) and isinstance(x.value, ast.Name) and x.value.id == p.arg and any(isinstance(t, ast.Attribute) for t in x.targets):
                    bad = x
                if isinstance(x, ast.Return) and isinstance(x.value, ast.Name) and x.value.id == p.arg:
                    bad = x
            if bad is not None:
                r.violation("C15.R7", q, short(bad, 100), f"mutable default of parameter {p.arg} ({unparse(d)}) escapes or is mutated: shared between all calls", loc)
            else:
                r.ok("C15.R7", q, f"mutable default {p.arg}={unparse(d)} is only read", loc)
    r.analysed["C15.mutable_default_parameters"] = n
    r.rule_counts["C15.R7"] = r.rule_counts.get("C15.R7", 0)


# ------------------------------------------------------------------------------------------ R8
def r8_fresh_state(ctx) -> None:
    r, prog = ctx.r, ctx.prog
    r.rule("C15.R8", "convert_rule builds one ConversionState per parsed condition from a fresh copy of the pipeline state; DeferredQueryExpression registers only in the state it was given")
    cr = prog.func("sigma.conversion.base.Backend.convert_rule")
    # convert_rule interpreted (sa.tabulate, Proxy) on a stand-in rule with two conditions; the stand-in convert_condition
    # looks at the state it is given and writes into its processing state
    from .standins import run_per_rule_converter
    seen: list = []
    def convert_fn(c, st):
        ps = getattr(st, "processing_state", None)
        seen.append((c, st, ps, dict(ps) if isinstance(ps, dict) else ps))
        if isinstance(ps, dict):
            ps["written while converting " + c] = True
        return c
    o = run_per_rule_converter(ctx, "convert_rule", convert_fn=convert_fn)
    pipeline_state = o.me.last_processing_pipeline.state
    if o.raised is not None:
        r.violation("C15.R8", cr.qual, "convert_rule on a rule with two conditions", f"raises {o.raised}", cr.loc)
    elif len(seen) != 2:
        r.violation("C15.R8", cr.qual, "states = [ConversionState(...) for _ in rule.detection.parsed_condition]", f"convert_condition was called {len(seen)} times for two conditions", cr.loc)
    else:
        (c0, st0, ps0, at0), (c1, st1, ps1, at1) = seen
        if st0 is st1:
            r.violation("C15.R8", cr.qual, "states = [ConversionState(...) for _ in rule.detection.parsed_condition]", "convert_rule no longer builds one ConversionState per parsed condition: both conditions are converted with the same state object", cr.loc)
        elif ps0 is pipeline_state or ps1 is pipeline_state or ps0 is ps1 or "written while converting c0" in (at1 or {}) or any(k.startswith("written") for k in pipeline_state):
            r.violation("C15.R8", cr.qual, "ConversionState(processing_state=dict(self.last_processing_pipeline.state))",
                        "the conversion state shares the pipeline's state dict (no copy): a state change made while converting one condition is seen by the next, "
                        "and the next rule's pipeline run (or a deferred part of an earlier rule) observes the other rule's state", cr.loc)
        elif at0 != {"set by the pipeline": 1} or at1 != {"set by the pipeline": 1}:
            r.violation("C15.R8", cr.qual, "ConversionState(processing_state=dict(self.last_processing_pipeline.state))", f"the conversion states start with {at0!r} / {at1!r} instead of a copy of the state the pipeline left for this rule", cr.loc)
        elif st0.deferred is st1.deferred:
            r.violation("C15.R8", cr.qual, "states = [ConversionState(...) for _ in rule.detection.parsed_condition]", "the conversion states of the two conditions share one list of deferred expressions", cr.loc)
        else:
            r.ok("C15.R8", cr.qual, "each condition is converted with a ConversionState of its own whose processing state is a copy of the pipeline state: writes of one condition reach neither the other condition nor the pipeline (interpreted)", cr.loc)
    # other constructions of a conversion state outside the per-rule converter: from a copy, or default
    helpers = ctx.cg.reachable([cr.qual])
    for q, fi in sorted(prog.funcs.items()):
        if q == cr.qual or (fi.cls is not None and fi.cls.qual == "sigma.conversion.base.Backend" and q in helpers):
            continue  # interpreted above, together with convert_rule
        for call in (x for x in walk_no_nested(fi.node) if isinstance(x, ast.Call) and call_name(x).split(".")[-1] == "ConversionState"):
            loc = f"{fi.module.relpath}:{call.lineno}"
            ps = [kw.value for kw in call.keywords if kw.arg == "processing_state"] or list(call.args[1:2])
            if not ps:
                r.ok("C15.R8", q, f"{short(call, 100)}: default (fresh) processing state", loc)
                continue
            v = ps[0]
            copied = (isinstance(v, ast.Call) and call_name(v) in ("dict", "copy.copy", "copy.deepcopy", "copy", "deepcopy")) \
                or (isinstance(v, ast.Call) and unparse(v).endswith(".copy()")) or isinstance(v, (ast.Dict, ast.DictComp))
            if copied:
                r.ok("C15.R8", q, short(call, 140), loc)
            else:
                r.violation("C15.R8", q, short(call, 140),
                            "the conversion state shares the pipeline's state dict (no copy): a state change made while converting one condition is seen by the next, "
                            "and the next rule's pipeline run (or a deferred part of an earlier rule) observes the other rule's state", loc)
    # ConversionState defaults must be fresh per instance
    cs = prog.cls("sigma.conversion.state.ConversionState")
    for st in cs.node.body:
        if isinstance(st, ast.AnnAssign) and st.value is not None:
            loc = f"{cs.module.relpath}:{st.lineno}"
            if _is_mutable_value(prog, cs.module, st.value):
                r.violation("C15.R8", cs.qual, unparse(st), "mutable class-level default shared by all states", loc)
            else:
                r.ok("C15.R8", cs.qual, unparse(st), loc)
    de = prog.func("sigma.conversion.deferred.DeferredQueryExpression.__post_init__") if prog.has_func("sigma.conversion.deferred.DeferredQueryExpression.__post_init__") else None
    if de is not None:
        for c in (x for x in walk_no_nested(de.node) if isinstance(x, ast.Call)):
            if call_name(c).endswith("add_deferred_expression"):
                if call_name(c).startswith("self.conversion_state."):
                    r.ok("C15.R8", de.qual, short(c), de.loc)
                else:
                    r.violation("C15.R8", de.qual, short(c), "deferred expression registers in a state other than the one it was given", de.loc)
    r.floor("C15.R8", 3)


def r12_rule_objects_fresh(ctx, rid: str = "C15.R12") -> None:
    """Pipelines rewrite detections in place. A detection object that a filter or a transformation puts into a rule must
    therefore belong to that rule alone: built for it (constructor / from_definition) or deep-copied — a shallow copy
    shares the detection items, an attribute of the filter/transformation is the same object for every rule."""
    r, prog = ctx.r, ctx.prog
    r.rule(rid, "every detection object stored into a rule's detection map is built or deep-copied for that rule (no shallow copy, no object kept on the filter or transformation): what a pipeline does to one rule is not visible in the next")

    def fresh(v: ast.AST, f: Optional[FuncInfo] = None, depth: int = 0) -> bool:
        if isinstance(v, ast.IfExp):
            return fresh(v.body, f, depth) and fresh(v.orelse, f, depth)
        if isinstance(v, ast.Call):
            d = call_name(v)
            return d in ("copy.deepcopy", "deepcopy") or d.split(".")[-1] in ("SigmaDetection", "from_definition")
        if isinstance(v, ast.Name) and f is not None and depth < 3 and v.id not in f.params():
            # a local: every value bound to it in this function is fresh (loop variables and arguments are not locals of this kind)
            defs = [st.value for st in walk_no_nested(f.node) if isinstance(st, (ast.Assign, ast.AnnAssign)) and getattr(st, "value", None) is not None
                    and any(isinstance(t, ast.Name) and t.id == v.id for t in (st.targets if isinstance(st, ast.Assign) else [st.target]))]
            other = [x for x in walk_no_nested(f.node) if isinstance(x, (ast.For, ast.comprehension, ast.With, ast.NamedExpr)) and any(isinstance(t, ast.Name) and t.id == v.id for t in ast.walk(x.target if not isinstance(x, ast.With) else x))]
            return bool(defs) and not other and all(fresh(d, f, depth + 1) for d in defs)
        return False
    n = 0
    for q, f in sorted(prog.funcs.items()):
        if not f.module.name.startswith("sigma.") or f.module.name.startswith("sigma.rule."):
            continue
        sites: list[tuple[ast.AST, ast.AST]] = []
        for st in walk_no_nested(f.node):
            if isinstance(st, ast.Assign):
                for t in st.targets:
                    if isinstance(t, ast.Subscript) and unparse(t.value).endswith(".detection.detections"):
                        sites.append((st, st.value))
            if isinstance(st, ast.Call) and call_name(st).endswith(".detection.detections.update") and st.args:
                a0 = st.args[0]
                if isinstance(a0, ast.DictComp):
                    sites.append((st, a0.value))
                elif isinstance(a0, ast.Dict):
                    sites += [(st, v) for v in a0.values]
                elif isinstance(a0, (ast.GeneratorExp, ast.ListComp)) and isinstance(a0.elt, ast.Tuple) and len(a0.elt.elts) == 2:
                    sites.append((st, a0.elt.elts[1]))  # update() with an iterable of (key, value) pairs
                else:
                    sites.append((st, a0))
        for st, v in sites:
            n += 1
            loc = f"{f.module.relpath}:{st.lineno}"
            if fresh(v, f):
                r.ok(rid, q, f"{short(st, 90)}: built or deep-copied for this rule", loc)
            else:
                r.violation(rid, q, short(st, 140),
                            f"{short(v, 60)} is not an object of this rule alone (shallow copy / object kept on the filter or transformation): its detection items are shared with every other rule that gets it, and pipelines transform detections in place — a rule converted later starts from what the pipeline did to an earlier one (a field prefix applied twice), also when the earlier rule failed", loc)
    r.analysed[f"{rid}.detection_map_stores"] = n
    r.floor(rid, 2)
