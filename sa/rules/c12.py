"""C12 — each pipeline transformation equals its documented source-level rewrite (narrow structural clauses)."""
from __future__ import annotations

import ast
from typing import Optional

from ..prog import AnalysisError, FuncInfo, call_name, short, stmt_head, unparse, walk_no_nested
from ..util import assignments_to, atomic_guards, const_eval, guards_at

TR = "sigma.processing.transformations"
TB = TR + ".base"
DIT = TB + ".DetectionItemTransformation"
ITEM = "sigma.rule.detection.SigmaDetectionItem"
REG_MODULE = TR

# transformations whose configuration has an identity instance, with the test that must stand between the input and any
# freshly built replacement (confirmed by reading)
IDENTITY_GUARDS = {
    TR + ".values.ReplaceStringTransformation.apply_string_value": {
        "fresh": (),  # returns that build a string from the printed/replaced text (recognised by constructor + argument below)
        "guards": [("self.re.search(sigma_string_plain) is None", False)],
        "or_guard": ("self.skip_special", True),  # the part-wise branch maps string parts only and keeps specials
        "why": "a regular expression that matches nothing must leave the value as it is; printing and parsing it again is only an identity if the plain form is re-parsable (C05.R2), which it is not for a backslash before a wildcard",
    },
    TR + ".values.MapStringTransformation.apply_string_value": {
        "fresh": None,  # every return of a non-None value
        "guards": [("isinstance(mapped, str)", True), ("isinstance(mapped, list)", True)],
        "why": "a value without an entry in the mapping must be passed through (return None)",
    },
}


def run(ctx) -> None:
    r = ctx.r
    r.explanation = (
        "Equivalence of every transformation with a hand rewrite of the document, over all rules and parameters, is a statement "
        "about values and is NOT decided. Decided are structural necessary conditions of individual clauses: (R1) the identity "
        "instance — on every path of a detection item transformation that reports 'no replacement' nothing was stored on the "
        "item, and transformations with an identity configuration build a fresh value only behind their match test; (R2) "
        "registry totality — every concrete transformation class is reachable under exactly one name of its registry; (R4) "
        "template substitution — each $name is fed from the log source attribute of the same name; (R5) keyword-to-field mapping "
        "tests wildcards on the parsed value; (R6) rebuild sites forward the whole state of the value they rebuild (regex flags, "
        "field reference anchors); (R7) one-to-many results are OR-linked detections. The item/field gates of C12 are C13.R2.")
    r1_identity(ctx)
    r2_registry(ctx)
    r4_template(ctx)
    r5_keyword_wildcards(ctx)
    r6_rebuild_sites(ctx)
    r7_one_to_many(ctx)
    r8_string_tables(ctx)
    r9_string_class_kept(ctx)
    r10_expansions_descended(ctx)
    r11_nested_pipeline_context(ctx)
    r12_reescape_inverse(ctx)
    r13_value_lists_rebound(ctx)


def _item_param(f: FuncInfo) -> Optional[str]:
    ps = [a.arg for a in f.node.args.args]
    return ps[1] if len(ps) > 1 else None


def r1_identity(ctx) -> None:
    r, prog = ctx.r, ctx.prog
    r.rule("C12.R1", "identity when nothing matches: a store on the detection item never lies on a path to `return None` (no replacement) of apply_detection_item; transformations with an identity configuration return a freshly built value only behind their match test")
    n_impl = 0
    for q, f in sorted(prog.funcs.items()):
        if f.name != "apply_detection_item" or f.cls is None or not prog.is_subclass(f.cls.qual, DIT):
            continue
        if any(d.endswith("abstractmethod") for d in f.decorators):
            continue
        n_impl += 1
        item = _item_param(f)
        stores = []
        for n in walk_no_nested(f.node):
            tgts: list[ast.AST] = []
            if isinstance(n, ast.Assign):
                tgts = list(n.targets)
            elif isinstance(n, ast.AugAssign):
                tgts = [n.target]
            for t in tgts:
                base = t
                while isinstance(base, (ast.Attribute, ast.Subscript)):
                    base = base.value
                if isinstance(base, ast.Name) and base.id == item and t is not base:
                    stores.append(n)
            if isinstance(n, ast.Expr) and isinstance(n.value, ast.Call) and isinstance(n.value.func, ast.Attribute) and n.value.func.attr in ("append", "extend", "clear", "pop", "remove", "insert"):
                base = n.value.func.value
                while isinstance(base, (ast.Attribute, ast.Subscript)):
                    base = base.value
                if isinstance(base, ast.Name) and base.id == item:
                    stores.append(n)
        none_returns = [x for x in walk_no_nested(f.node) if isinstance(x, ast.Return) and (x.value is None or (isinstance(x.value, ast.Constant) and x.value.value is None))]
        from ..util import cfg_of
        cfg = cfg_of(f)
        bad = False
        for st in stores:
            sg = atomic_guards(guards_at(prog, f, st))
            for ret in none_returns:
                # reachable?
                if not (set(cfg.nodes_of(ret)) & cfg.reachable(cfg.nodes_of(st))):
                    continue
                rg = atomic_guards(guards_at(prog, f, ret))
                contradiction = any((g, not p) in rg for g, p in sg if _is_flag(f, g))
                if not contradiction:
                    # the store is dominated by `flag = True` and the return requires the (monotone) flag to be false
                    for g, p in rg:
                        if p or not _is_flag(f, g):
                            continue
                        sets = [a for a in walk_no_nested(f.node) if isinstance(a, ast.Assign) and unparse(a.targets[0]) == g and isinstance(a.value, ast.Constant) and a.value.value is True]
                        through = [x for a in sets for x in cfg.nodes_of(a)]
                        if through and all(cfg.must_pass(t, through) for t in cfg.nodes_of(st)):
                            contradiction = True
                if not contradiction:
                    bad = True
                    r.violation("C12.R1", q, stmt_head(st), f"the item is changed on a path that ends in `return None` (line {ret.lineno}): apply_detection treats it as 'nothing replaced' — no tracking, no voiding — although the item differs (guards of the store {sg}, of the return {rg})", f"{f.module.relpath}:{st.lineno}")
        if not bad:
            r.ok("C12.R1", q, f"{len(stores)} store(s) on the item, {len(none_returns)} no-replacement return(s): no store reaches one", f.loc)
    if n_impl < 4:
        raise AnalysisError(f"only {n_impl} apply_detection_item implementations found (≥4 confirmed)")
    # ValueTransformation.apply_detection_item: passes the value through when apply_value returns None
    _r1_value_walk(ctx)
    _r1_identity_configurations(ctx)
    r.floor("C12.R1", 8)


def _r1_value_walk(ctx) -> None:
    """ValueTransformation._apply_values interpreted (sa.tabulate, Proxy) with a stand-in apply_value that declines (None),
    answers one value, a list of values, or an iterable Sigma value."""
    from collections.abc import Iterable as _Iterable
    from ..tabulate import Proxy, call_method, Raised
    r, prog = ctx.r, ctx.prog
    VT = TB + ".ValueTransformation"
    f = prog.lookup_method(VT, "_apply_values") or prog.func(VT + ".apply_detection_item")

    class SigmaType:
        pass

    class _V(SigmaType):
        def __init__(self, n): self.n = n
        def __repr__(self): return f"v{self.n}"

    class _IterV(_V):  # a Sigma value that can be iterated (strings are)
        def __iter__(self): return iter("xy")

    class _Other(SigmaType):
        def __repr__(self): return "other"

    class SigmaExpansion(SigmaType):
        def __init__(self, values): self.values = list(values)
        def __repr__(self): return f"Exp{self.values}"

    env = {"SigmaType": SigmaType, "SigmaExpansion": SigmaExpansion, "Iterable": _Iterable}
    IK = {"max_steps": 8000}

    def run(values, answers, value_types=None):
        asked = []
        def apply_value(field, v):
            asked.append(v)
            return answers.get(id(v))
        me = Proxy(prog, VT, env, {"value_types": value_types, "apply_value": apply_value, "processing_item": None, "_pipeline": None}, interp_kwargs=IK)
        try:
            if f.name == "_apply_values":
                out = call_method(prog, VT, "_apply_values", me, env, "f", list(values), interp_kwargs=IK)
            else:
                item = type("I", (), {})()
                item.field, item.value = "f", list(values)
                res = call_method(prog, VT, "apply_detection_item", me, env, item, interp_kwargs=IK)
                out = (item.value, res is not None)
        except Raised as ex:
            return ex, asked
        return out, asked

    a, b, c = _V(1), _V(2), _V(3)
    new1, new2, it1 = _V(10), _V(20), _IterV(30)
    problems = []
    out, asked = run([a, b], {})
    if not (isinstance(out, tuple) and len(out[0]) == 2 and out[0][0] is a and out[0][1] is b and out[1] is False):
        problems.append(f"apply_value declines every value: result {out!r} instead of the same values, not modified")
    out, asked = run([a, b, c], {id(b): new1})
    if not (isinstance(out, tuple) and out[0] == [a, new1, c] and out[1] is True):
        problems.append(f"one value replaced: result {out!r} instead of ([v1, v10, v3], True)")
    out, asked = run([a, b], {id(a): [new1, new2]})
    if not (isinstance(out, tuple) and out[0] == [new1, new2, b] and out[1] is True):
        problems.append(f"a value replaced by a list: result {out!r} instead of ([v10, v20, v2], True)")
    out, asked = run([a], {id(a): it1})
    if not (isinstance(out, tuple) and out[0] == [it1] and out[1] is True):
        problems.append(f"a value replaced by an iterable Sigma value: result {out!r} instead of ([v30], True)")
    o = _Other()
    out, asked = run([a, o], {id(a): new1, id(o): new2}, value_types=(_V,))
    if not (isinstance(out, tuple) and out[0] == [new1, o] and out[1] is True and o not in asked):
        problems.append(f"value of another type than value_types: result {out!r}, apply_value asked about {asked!r}")
    # expansions (the alternatives a modifier produced for one value) are walked member by member; what happens inside one
    # does not undo what was decided for the values before it
    d, e_ = _V(4), _V(5)
    exp = SigmaExpansion([d, e_])
    out, asked = run([a, exp], {id(a): new1})
    if not (isinstance(out, tuple) and len(out[0]) == 2 and out[0][0] is new1 and out[0][1] is exp and out[1] is True):
        problems.append(f"a replaced value followed by an expansion none of whose members is touched: result {out!r} instead of ([v10, the same expansion], True)")
    exp = SigmaExpansion([d, e_])
    out, asked = run([exp, a], {id(e_): new2})
    if not (isinstance(out, tuple) and len(out[0]) == 2 and isinstance(out[0][0], SigmaExpansion) and out[0][0].values == [d, new2] and out[0][1] is a and out[1] is True):
        problems.append(f"a member of an expansion replaced: result {out!r} instead of ([Exp[v4, v20], v1], True)")
    exp = SigmaExpansion([d, e_])
    out, asked = run([exp], {})
    if not (isinstance(out, tuple) and len(out[0]) == 1 and out[0][0] is exp and out[1] is False):
        problems.append(f"an expansion none of whose members is touched: result {out!r} instead of the same expansion, not modified")
    if not problems:
        r.ok("C12.R1", f.qual, "apply_value() → None keeps the value and does not count as modification; one value / a list / an iterable Sigma value replace it; expansions are walked member by member and do not reset what was decided before (interpreted)", f.loc)
    else:
        r.violation("C12.R1", f.qual, f"res is None → results.append(value); modified only otherwise: {problems[0]}", "a value transformation that declines (None) must pass the value through unchanged and must not mark the item as modified", f.loc)


def _r1_identity_configurations(ctx) -> None:
    """Transformations with an identity configuration, interpreted on stand-in strings: a regular expression that matches
    nothing / a value without mapping entry leaves the value as it is."""
    import re as _re
    from ..tabulate import Raised, Proxy, call_method
    from .standins import string_standin
    r, prog = ctx.r, ctx.prog
    Str, Cased, _PH, sc, senv = string_standin(ctx)
    RS = TR + ".values.ReplaceStringTransformation"
    MS = TR + ".values.MapStringTransformation"
    env = dict(senv, SigmaString=Str, cast=lambda t, v: v, SigmaNumber=type("SigmaNumber", (), {}))
    IK = {"max_steps": 20000}
    f = prog.func(RS + ".apply_string_value")
    problems = []
    n = 0
    for skip, interp in ((False, False), (True, False), (True, True)):
        for parts in (["abc"], ["ab\\", sc.WILDCARD_MULTI], ["a*b"], ["abc", sc.WILDCARD_SINGLE, "def"], []):
            n += 1
            val = Cased(parts)
            me = Proxy(prog, RS, env, {"re": _re.compile("xyz"), "regex": "xyz", "replacement": "R", "skip_special": skip, "interpret_special": interp, "processing_item": None, "_pipeline": None}, interp_kwargs=IK)
            try:
                out = call_method(prog, RS, "apply_string_value", me, env, "f", val, interp_kwargs=IK)
            except Raised as ex:
                problems.append(f"skip_special={skip}, interpret_special={interp}, value parts {parts}: raises {ex}")
                continue
            same = out is val or out is None or (isinstance(out, Str) and type(out) is Cased and out.s == parts)
            if not same:
                problems.append(f"skip_special={skip}, interpret_special={interp}, value parts {parts}, expression that matches nothing: result parts {getattr(out, 's', out)!r} ({type(out).__name__})")
    if not problems:
        r.ok("C12.R1", f.qual, f"a regular expression that matches nothing leaves the value as it is ({n} interpreted cases: three modes x values with a backslash before a wildcard, an escaped '*', wildcards)", f.loc)
    else:
        r.violation("C12.R1", f.qual, f"replace without match: {problems[0]}", "a regular expression that matches nothing must leave the value as it is; printing and parsing it again is only an identity if the plain form is re-parsable (C05.R2), which it is not for a backslash before a wildcard", f.loc)
    g = prog.func(MS + ".apply_string_value")
    problems = []
    for parts, want in ((["zzz"], None), (["a"], ["b"]), (["c"], [["d"], ["e"]]), (["a", sc.WILDCARD_MULTI], None), (["gone"], []), (["none"], [])):
        val = Cased(parts)
        # "gone" maps to the empty string, "none" to no value at all: both are entries of the mapping
        me = Proxy(prog, MS, env, {"mapping": {"a": "b", "c": ["d", "e"], "gone": "", "none": []}, "processing_item": None, "_pipeline": None}, interp_kwargs=IK)
        try:
            out = call_method(prog, MS, "apply_string_value", me, env, "f", val, interp_kwargs=IK)
        except Raised as ex:
            out = ex
        got = None if out is None else (out.s if isinstance(out, Str) else [x.s for x in out] if isinstance(out, list) and all(isinstance(x, Str) for x in out) else repr(out))
        if got != want:
            problems.append(f"value parts {parts}: {got!r} instead of {want!r}")
    if not problems:
        r.ok("C12.R1", g.qual, "a value without an entry in the mapping is passed through (None); mapped values are built for entries only (interpreted)", g.loc)
    else:
        r.violation("C12.R1", g.qual, f"string mapping: {problems[0]}", "a value without an entry in the mapping must be passed through (return None)", g.loc)


def _is_flag(f: FuncInfo, name: str) -> bool:
    """A local that is only ever assigned the constants False (initially) and True: once true it stays true."""
    if not name.isidentifier():
        return False
    vals = [n.value for n in walk_no_nested(f.node) if isinstance(n, ast.Assign) and any(isinstance(t, ast.Name) and t.id == name for t in n.targets)]
    other = [n for n in walk_no_nested(f.node) if isinstance(n, (ast.AugAssign, ast.For, ast.comprehension, ast.With, ast.NamedExpr, ast.AnnAssign))
             and any(isinstance(t, ast.Name) and t.id == name and isinstance(t.ctx, ast.Store) for t in ast.walk(n.target if hasattr(n, "target") else n))]
    if other:
        return False
    if bool(vals) and all(isinstance(v, ast.Constant) and isinstance(v.value, bool) for v in vals):
        return True
    # … or a local computed once (a boolean expression such as any(...)) outside every loop: the same value wherever it is read
    if len(vals) == 1 and name not in f.params():
        st = next(n for n in walk_no_nested(f.node) if isinstance(n, ast.Assign) and any(isinstance(t, ast.Name) and t.id == name for t in n.targets))
        in_loop = False
        p_ = getattr(st, "_parent", None)
        for a_ in ast.walk(f.node):
            if isinstance(a_, (ast.For, ast.While)) and any(x is st for b_ in (a_.body, a_.orelse) for y in b_ for x in ast.walk(y)):
                in_loop = True
        return not in_loop
    return False


def r2_registry(ctx) -> None:
    r, prog = ctx.r, ctx.prog
    r.rule("C12.R2", "registry totality: every concrete Transformation / query post-processing / finalizer class defined in the library is a value of its registry, each under exactly one identifier")
    regs = [
        (TR, "transformations", TB + ".Transformation", ("sigma.processing.transformations",)),
        ("sigma.processing.postprocessing", "query_postprocessing_transformations", "sigma.processing.postprocessing.QueryPostprocessingTransformation", ("sigma.processing.postprocessing",)),
        ("sigma.processing.finalization", "finalizers", "sigma.processing.finalization.Finalizer", ("sigma.processing.finalization",)),
    ]
    for modname, var, base, scope in regs:
        m = prog.module(modname)
        st = m.assigns.get(var)
        if not st or not isinstance(getattr(st[-1], "value", None), ast.Dict):
            raise AnalysisError(f"{modname}.{var}: registry dict not found")
        d = st[-1].value  # type: ignore[attr-defined]
        entries: dict[str, str] = {}
        loc = f"{m.relpath}:{st[-1].lineno}"
        for k, v in zip(d.keys, d.values):
            if not (isinstance(k, ast.Constant) and isinstance(k.value, str)):
                r.violation("C12.R2", f"{modname}.{var}", short(k) if k else "**", "registry key is not a string literal", loc)
                continue
            cq = prog.resolve_expr(m, v)
            if k.value in entries:
                r.violation("C12.R2", f"{modname}.{var}", f"'{k.value}' twice", "duplicate identifier: the later class silently replaces the earlier one", loc)
            entries[k.value] = cq or unparse(v)
        registered = set(entries.values())
        concrete = [c for c in prog.subclasses(base, strict=True) if c.startswith(scope) and not prog.is_abstract(c)]
        for c in sorted(concrete):
            ci = prog.cls(c)
            if c in registered:
                names = [k for k, v in entries.items() if v == c]
                if len(names) == 1:
                    r.ok("C12.R2", c, f"registered as '{names[0]}'", f"{ci.module.relpath}:{ci.node.lineno}")
                else:
                    r.violation("C12.R2", c, f"registered as {names}", "a class is registered under several identifiers", f"{ci.module.relpath}:{ci.node.lineno}")
            elif _has_concrete_subclass_only_role(prog, c, registered):
                r.ok("C12.R2", c, "base of registered classes, not meant to be instantiated from YAML", f"{ci.module.relpath}:{ci.node.lineno}")
            else:
                r.violation("C12.R2", c, f"not in {var}", "a concrete transformation class cannot be written in pipeline YAML: its documented behaviour is unreachable from a pipeline file", f"{ci.module.relpath}:{ci.node.lineno}")
        for k, v in entries.items():
            if v not in prog.classes or prog.is_abstract(v):
                r.violation("C12.R2", f"{modname}.{var}", f"'{k}': {v}", "registry value is not a concrete class of the library", loc)
    r.floor("C12.R2", 35)


def _has_concrete_subclass_only_role(prog, c: str, registered: set[str]) -> bool:
    subs = prog.subclasses(c, strict=True)
    return bool(subs) and any(s in registered for s in subs) and c.rsplit(".", 1)[-1].endswith(("Base", "BaseTransformation"))


def r4_template(ctx) -> None:
    r, prog = ctx.r, ctx.prog
    r.rule("C12.R4", "template substitution: add_condition with template=True, interpreted (sa.tabulate, Proxy) on a stand-in rule, replaces $category, $product and $service in every string of the configured conditions (plain values and list elements) by the log source attribute of the same name and leaves other values alone; without template the conditions are used as configured")
    import string as _string
    import types as _types
    from ..tabulate import Proxy, call_method, Raised
    AC = TR + ".condition.AddConditionTransformation"
    f = prog.func(AC + ".apply")

    class SigmaRule:
        def __init__(self):
            self.logsource = _types.SimpleNamespace(category="CAT", product="PROD", service="SERV")
            self.detection = _types.SimpleNamespace(detections={}, parsed_condition=[])

    class SigmaDetection:
        made = []
        @classmethod
        def from_definition(cls, d, *a, **k):
            cls.made.append(d)
            return ("detection", id(d))

    conds = {"f": "$category-$product-$service", "g": ["$service", 5, "x${category}y", "$unknown"], "h": 7, "i": "plain"}
    want = {"f": "CAT-PROD-SERV", "g": ["SERV", 5, "xCATy", "$unknown"], "h": 7, "i": "plain"}
    env = {"SigmaRule": SigmaRule, "SigmaDetection": SigmaDetection, "string": _string, "super": lambda: _types.SimpleNamespace(apply=lambda rule: None)}
    IK = {"max_steps": 8000}
    for template, expect in ((True, want), (False, conds)):
        SigmaDetection.made.clear()
        rule = SigmaRule()
        me = Proxy(prog, AC, env, {"template": template, "conditions": {k: (list(v) if isinstance(v, list) else v) for k, v in conds.items()}, "name": "added", "negated": False,
                                   "processing_item_applied": lambda d: None, "processing_item": None, "_pipeline": None}, interp_kwargs=IK)
        try:
            call_method(prog, AC, "apply", me, env, rule, interp_kwargs=IK)
            got = SigmaDetection.made[-1] if SigmaDetection.made else None
        except Raised as ex:
            got = f"raises {ex}"
        for key in sorted(expect):
            g_ = got.get(key) if isinstance(got, dict) else got
            if g_ == expect[key]:
                r.ok("C12.R4", f.qual, f"template={template}: {key!r}: {conds[key]!r} → {g_!r}", f.loc)
            else:
                r.violation("C12.R4", f.qual, f"template={template}: condition {key!r}: {conds[key]!r} becomes {g_!r} instead of {expect[key]!r}", "a template variable is replaced by another log source attribute, not replaced, or replaced without template mode: the added condition differs from the documented rewrite (the documented template variables are $category, $product and $service)", f.loc)
        if isinstance(got, dict) and "added" in rule.detection.detections:
            r.ok("C12.R4", f.qual, f"template={template}: the detection built from the conditions is stored under the configured name", f.loc)
        else:
            r.violation("C12.R4", f.qual, f"template={template}: detections = {sorted(rule.detection.detections)}", "the added detection is not stored under the configured name", f.loc)
    r.floor("C12.R4", 6)


def fieldmapping_standins(ctx):
    """Stand-ins for interpreting FieldMappingTransformationBase.apply_detection_item (sa.tabulate, Proxy)."""
    import dataclasses as _dc
    import types as _types
    from ..tabulate import Proxy, call_method, Raised
    from .standins import wildcard_string_standin
    prog = ctx.prog
    S, wm, sc = wildcard_string_standin()
    FM = TB + ".FieldMappingTransformationBase"

    class SigmaFieldReference:
        def __init__(self, field, starts_with=False, ends_with=False): self.field, self.starts_with, self.ends_with = field, starts_with, ends_with

    class SigmaDetection:
        def __init__(self, items, item_linking=None, **k): self.detection_items, self.item_linking = list(items), item_linking

    class ConditionOR:
        pass

    # stand-in detection item with the fields of the real dataclass, in the order of the source (so that positional
    # construction, keyword construction and dataclasses.replace all mean what they mean for the real class)
    DI = "sigma.rule.detection.SigmaDetectionItem"
    real_fields = prog.dataclass_fields(DI)
    if not {"field", "value", "auto_modifiers"} <= set(real_fields):
        raise AnalysisError(f"anchor vanished: {DI} no longer has the fields field/value/auto_modifiers")
    DEFAULTS = {"value_linking": ConditionOR, "negated": False, "source": None, "auto_modifiers": True}
    specs = []
    for fname, st in real_fields.items():
        init = _field_flag(st, "init")
        cmp_ = _field_flag(st, "compare")
        if fname == "applied_processing_items":
            continue
        if init is False:
            specs.append((fname, object, _dc.field(init=False, compare=False, default=None)))
        elif st.value is None:
            specs.append((fname, object))
        else:
            specs.append((fname, object, _dc.field(default=DEFAULTS.get(fname), compare=cmp_ is not False)))
    specs.append(("applied_processing_items", set, _dc.field(init=False, default_factory=set, compare=False)))
    specs.append(("plain_disabled", bool, _dc.field(init=False, default=False, compare=False)))
    specs.append(("modifiers_applied", int, _dc.field(init=False, default=0, compare=False)))

    def _post_init(self):
        self.original_value = list(self.value)
        if self.auto_modifiers:
            self.modifiers_applied += 1      # the real class would apply the modifiers to the values again

    def _disable(self):
        self.plain_disabled = True

    _Item = _dc.make_dataclass("SigmaDetectionItem", specs, namespace={"__post_init__": _post_init, "disable_conversion_to_plain": _disable})

    env = {"SigmaString": S, "SpecialChars": sc, "SigmaFieldReference": SigmaFieldReference, "SigmaDetection": SigmaDetection, "ConditionOR": ConditionOR, "dataclasses": _dc,
           "SigmaDetectionItem": _Item, "replace": _dc.replace}
    IK = {"max_steps": 8000}

    def run_item(field, mapping, gate, values, applied=("earlier",), **attrs):
        item = _Item(field=field, modifiers=attrs.pop("modifiers", []), value=list(values), auto_modifiers=False, **attrs)
        item.auto_modifiers = True
        item.applied_processing_items = set(applied)
        tracked, mapped = [], []
        pi = None if gate is None else type("PI", (), {"match_field_name": lambda s_, f_: gate, "match_field_in_value": lambda s_, v: gate, "identifier": "pi"})()
        pipeline = type("PL", (), {"track_field_processing_items": lambda s_, *a: tracked.append(a), "field_mappings": type("FMT", (), {"add_mapping": lambda s_, *a: mapped.append(a)})()})()
        me = Proxy(prog, FM, env, {"processing_item": pi, "_pipeline": pipeline, "apply_field_name": lambda f_: mapping, "_apply_field_name": lambda f_: [mapping] if isinstance(mapping, str) else list(mapping or [f_]),
                                   "processing_item_applied": lambda d: None}, interp_kwargs=IK)
        try:
            res = call_method(prog, FM, "apply_detection_item", me, env, item, interp_kwargs=IK)
        except Raised as ex:
            res = ex
        item.tracked, item.mapped = tracked, mapped
        return item, res

    return _types.SimpleNamespace(S=S, wm=wm, sc=sc, FM=FM, env=env, IK=IK, SigmaDetection=SigmaDetection, ConditionOR=ConditionOR, SigmaFieldReference=SigmaFieldReference, run_item=run_item)


def _field_flag(st: ast.AnnAssign, name: str):
    v = st.value
    if isinstance(v, ast.Call) and call_name(v).split(".")[-1] == "field":
        for k in v.keywords:
            if k.arg == name and isinstance(k.value, ast.Constant):
                return bool(k.value.value)
    return None


def r5_keyword_wildcards(ctx) -> None:
    r, prog = ctx.r, ctx.prog
    r.rule("C12.R5", "keyword-to-field mapping keeps substring semantics: wildcards are added around string values of a keyword item that is bound to a field, tested on the parsed value (SigmaString.startswith/endswith of the wildcard part), not on printed text where an escaped '*' looks like a wildcard")
    f = prog.func(TB + ".FieldMappingTransformationBase._add_wildcards_to_value")
    g = prog.func(TB + ".FieldMappingTransformationBase.apply_detection_item")
    # both interpreted (sa.tabulate, Proxy) on stand-in strings whose elements are characters, wildcard parts and escaped
    # literal wildcard characters
    from ..tabulate import Proxy, call_method, Raised
    fm = fieldmapping_standins(ctx)
    S, wm, sc, FM, env, IK, SigmaDetection, run_item = fm.S, fm.wm, fm.sc, fm.FM, fm.env, fm.IK, fm.SigmaDetection, fm.run_item
    bad = []
    samples = [["a", "b"], ["*", "a"], ["a", "*"], ["*", "a", "*"], ["a", "\\*"], ["\\*", "a"], [], ["*"]]
    for els in samples:
        src = S([wm if x == "*" else x for x in els])
        me = Proxy(prog, FM, env, {"processing_item": None, "_pipeline": None}, interp_kwargs=IK)
        try:
            out = call_method(prog, FM, "_add_wildcards_to_value", me, env, src, interp_kwargs=IK)
        except Raised as ex:
            out = ex
        want = ([wm] if not (src.e and src.e[0] is wm) else []) + src.e
        want = want + ([wm] if not (want and want[-1] is wm and len(want) > (0 if src.e else 1)) else [])
        got = out.e if isinstance(out, S) else None
        if not (got is not None and (S(got) == S(want) or (not src.e and got in ([wm], [wm, wm])))):
            bad.append(f"{els} → {got if got is not None else out!r}, specified {want}")
    if not bad:
        r.ok("C12.R5", f.qual, f"wildcards added exactly where the parsed value has none ({len(samples)} interpreted samples, incl. escaped literal '*' at the edges)", f.loc)
    else:
        r.violation("C12.R5", f.qual, f"_add_wildcards_to_value: {bad[0]}", "the wildcard test must run on the parsed value: on printed text an escaped literal '\\*' at the edge counts as a wildcard and the keyword loses its substring semantics", f.loc)

    problems = []
    vals = lambda: [S("abc"), S("*abc*"), 5, S(["a", "\\*"])]  # noqa: E731
    wrapped = [S("*abc*"), S("*abc*"), 5, S(["*", "a", "\\*", "*"])]
    wrapped = [S([wm, "a", "b", "c", wm]), S([wm, "a", "b", "c", wm]), 5, S([wm, "a", "\\*", wm])]
    plain = [S("abc"), S([wm, "a", "b", "c", wm]), 5, S(["a", "\\*"])]
    for mapping in ("f", ["f1", "f2"]):
        for gate in (None, True):
            item, res = run_item(None, mapping, gate, vals())
            outs = [res] if not isinstance(res, SigmaDetection) else res.detection_items
            if isinstance(res, Raised) or res is None or any(list(o.value) != wrapped for o in outs):
                problems.append(f"keyword item mapped to {mapping!r} (gate {'passes' if gate else 'absent'}): values {[list(getattr(o, 'value', [])) for o in outs] if not isinstance(res, Raised) and res is not None else res!r}, expected {wrapped} for every resulting item")
    item, res = run_item(None, "f", False, vals())
    if res is not None or list(item.value) != plain:
        problems.append(f"keyword item whose field-name gate fails: result {res!r}, values {list(item.value)} (must stay untouched)")
    item, res = run_item("x", "f", None, vals())
    if isinstance(res, Raised) or list(item.value) != plain:
        problems.append(f"item bound to a field: values {list(item.value)} (no wildcards must be added)")
    item, res = run_item(None, None, None, vals())
    if res is not None or list(item.value) != plain:
        problems.append(f"keyword item without mapping: result {res!r}, values {list(item.value)}")
    if not problems:
        r.ok("C12.R5", g.qual, "wildcards are added for string values of keyword items that get a field, under the field-name gate; other values and other items stay as they are (interpreted: 7 cases)", g.loc)
    else:
        r.violation("C12.R5", g.qual, f"self._add_wildcards_to_value(value): {problems[0]}", "keyword values bound to a field are not wrapped in wildcards (the keyword search becomes an exact match), or wildcards are added outside the keyword-to-field case or outside the field-name gate", g.loc)
    r.floor("C12.R5", 2)


def r6_rebuild_sites(ctx, rid: str = "C12.R6", scope=("sigma.types", "sigma.processing", "sigma.modifiers", "sigma.conversion"), floor: int = 2) -> None:
    r, prog = ctx.r, ctx.prog
    r.rule(rid, "rebuild sites forward the whole state: where a value object is rebuilt from another one of its class (inside a method of the class, or with arguments read from an instance of it) every init field of the class is supplied — regex flags survive placeholder expansion, field reference anchors survive field mapping")
    targets = {"sigma.types.SigmaRegularExpression": None, "sigma.types.SigmaFieldReference": None, "sigma.types.SigmaCompareExpression": None,
               "sigma.types.SigmaQueryExpression": None, "sigma.types.SigmaTimestampPart": None}
    fields: dict[str, list[str]] = {}
    for cq in targets:
        fs = []
        for name, ann in prog.dataclass_fields(cq).items():
            v = ann.value
            if isinstance(v, ast.Call) and call_name(v).split(".")[-1] == "field" and any(k.arg == "init" and isinstance(k.value, ast.Constant) and k.value.value is False for k in v.keywords):
                continue
            if "ClassVar" in unparse(ann.annotation) or name == "source":
                continue
            fs.append(name)
        fields[cq] = fs
    n = 0
    for f in prog.functions_in(*scope):
        for c in walk_no_nested(f.node):
            if not isinstance(c, ast.Call):
                continue
            cq = prog.resolve_expr(f.module, c.func)
            if cq not in targets:
                continue
            in_own_method = f.cls is not None and f.cls.qual == cq and f.node.args.args and f.node.args.args[0].arg == "self"
            def reads_instance(e: ast.AST, depth: int = 0) -> bool:
                for a in ast.walk(e):
                    if isinstance(a, ast.Attribute) and cq in ctx.types.class_names(f.module, a.value):
                        return True
                    if isinstance(a, ast.Name) and depth < 2 and a.id not in f.params():
                        for v in assignments_to(f.node, a.id):  # local alias: regexp = val.regexp; ... K(regexp)
                            src = v.value if isinstance(v, ast.AugAssign) else v
                            if isinstance(src, ast.AST) and not isinstance(src, (ast.For, ast.With, ast.ExceptHandler, ast.comprehension)) and reads_instance(src, depth + 1):
                                return True
                return False
            from_instance = any(reads_instance(arg) for arg in list(c.args) + [k.value for k in c.keywords])
            if not (in_own_method or from_instance):
                continue
            n += 1
            supplied = fields[cq][:len(c.args)] + [k.arg for k in c.keywords if k.arg]
            missing = [x for x in fields[cq] if x not in supplied]
            loc = f"{f.module.relpath}:{c.lineno}"
            if any(isinstance(a, ast.Starred) for a in c.args) or any(k.arg is None for k in c.keywords):
                missing = []
            if missing:
                r.violation(rid, f.qual, short(c, 100), f"the rebuilt {cq.rsplit('.', 1)[-1]} does not receive {missing} of the object it replaces: the state silently falls back to the default (e.g. a case-insensitive regular expression becomes case-sensitive after placeholder expansion)", loc)
            else:
                r.ok(rid, f.qual, f"{short(c, 80)} supplies {fields[cq]}", loc)
    r.floor(rid, floor)


def r7_one_to_many(ctx) -> None:
    r, prog = ctx.r, ctx.prog
    r.rule("C12.R7", "one-to-many results are alternatives: detections built by a transformation from several mapped fields / hash fields are SigmaDetection(..., item_linking=ConditionOR); items deleted by drop_detection_item are removed from the detection")
    # the one-to-many field mapping interpreted (sa.tabulate, Proxy; stand-ins shared with C12.R5)
    from ..tabulate import Raised as _R7
    fm = fieldmapping_standins(ctx)
    gq = prog.func(TB + ".FieldMappingTransformationBase.apply_detection_item")
    item, res = fm.run_item("x", ["f1", "f2", "f3"], None, ["v"])
    probs = []
    if not isinstance(res, fm.SigmaDetection):
        probs.append(f"result is {res!r}, not a detection of alternatives")
    else:
        if res.item_linking is not fm.ConditionOR:
            probs.append(f"alternatives linked by {res.item_linking!r}")
        if [getattr(x, "field", None) for x in res.detection_items] != ["f1", "f2", "f3"] or any(list(x.value) != ["v"] for x in res.detection_items):
            probs.append(f"alternatives {[(getattr(x, 'field', None), getattr(x, 'value', None)) for x in res.detection_items]} instead of the item under each of f1, f2, f3")
    # each alternative is the item itself under another name: negation, linking of the values, modifiers and location are
    # kept, the (already modified) values are not modified a second time
    item2, res2 = fm.run_item("x", ["f1", "f2"], None, ["v", "w"], modifiers=["M1", "M2"], negated=True, value_linking="AND-LINKED", source="SRC")
    if isinstance(res2, fm.SigmaDetection):
        for alt in res2.detection_items:
            for attr, want in (("negated", True), ("value_linking", "AND-LINKED"), ("modifiers", ["M1", "M2"]), ("source", "SRC")):
                if getattr(alt, attr, "<missing>") != want:
                    probs.append(f"the alternative under {getattr(alt, 'field', '?')} has {attr}={getattr(alt, attr, '<missing>')!r}, the mapped item had {want!r}")
            if getattr(alt, "modifiers_applied", 0):
                probs.append(f"the alternative under {getattr(alt, 'field', '?')} applies the modifiers to the already modified values again")
    else:
        probs.append(f"a negated, all-linked item mapped to two names gives {res2!r}")
    if not probs:
        r.ok("C12.R7", gq.qual, "a field mapped to three names yields SigmaDetection(one item per name, item_linking=ConditionOR) (interpreted)", gq.loc)
    else:
        r.violation("C12.R7", gq.qual, f"SigmaDetection(mapped items, item_linking=ConditionOR): {probs[0]}", "a one-to-many mapping must give the OR of the item under each mapped name, each alternative being the item itself (negation, value linking, modifiers, location kept; values not modified again): a SigmaDetection of detection items defaults to AND, and an alternative that loses an attribute no longer means what a hand-written rule with that field means", gq.loc)
    sites = [(TR + ".values.HashesFieldsDetectionItemTransformation._create_new_detection_items", None)]
    for q, first in sites:
        f = prog.func(q)
        calls = [c for c in ast.walk(f.node) if isinstance(c, ast.Call) and call_name(c) == "SigmaDetection"]
        if not calls:
            raise AnalysisError(f"{q}: SigmaDetection construction not found")
        for c in calls:
            kw = {k.arg: unparse(k.value) for k in c.keywords}
            loc = f"{f.module.relpath}:{c.lineno}"
            if kw.get("item_linking") == "ConditionOR":
                r.ok("C12.R7", q, "SigmaDetection(..., item_linking=ConditionOR)", loc)
            else:
                r.violation("C12.R7", q, short(c, 100), "alternatives built by the transformation are not OR-linked: a SigmaDetection of detection items defaults to AND, so a one-to-many mapping would require all mapped fields to match", loc)
    f = prog.func(TR + ".detection_item.DropDetectionItemTransformation.apply_detection")
    # interpreted (sa.tabulate, Proxy) on a detection [A, B, [C, D]] where the items A and C are to be dropped
    from ..tabulate import Proxy as _Pd, call_method as _cmd, Raised as _Rd
    DROP = TR + ".detection_item.DropDetectionItemTransformation"
    class SigmaDetectionItem:
        def __init__(self, n, drop=False): self.n, self.drop, self.field, self.value, self.modifiers, self.original_value = n, drop, "f", ["v"], [], ["v"]
        def disable_conversion_to_plain(self): pass
        def __repr__(self): return self.n
    class DeleteSigmaDetectionItem(SigmaDetectionItem):
        @classmethod
        def create(cls): return cls("<deleted>")
    class SigmaDetection:
        def __init__(self, items): self.detection_items = list(items)
    envd = {"SigmaDetectionItem": SigmaDetectionItem, "DeleteSigmaDetectionItem": DeleteSigmaDetectionItem, "SigmaDetection": SigmaDetection}
    inner_d = SigmaDetection([SigmaDetectionItem("C", True), SigmaDetectionItem("D")])
    det_d = SigmaDetection([SigmaDetectionItem("A", True), SigmaDetectionItem("B"), inner_d])
    me_d = _Pd(prog, DROP, envd, {"processing_item": None, "_pipeline": None, "processing_item_applied": lambda d_: None,
                                  "apply_detection_item": lambda it_: DeleteSigmaDetectionItem("<deleted>") if it_.drop else None}, interp_kwargs={"max_steps": 8000})
    try:
        _cmd(prog, DROP, "apply_detection", me_d, envd, det_d, interp_kwargs={"max_steps": 8000})
        got_d = ([repr(x) if not isinstance(x, SigmaDetection) else [repr(y) for y in x.detection_items] for x in det_d.detection_items])
    except _Rd as ex:
        got_d = f"raises {ex}"
    if got_d == ["B", ["D"]]:
        r.ok("C12.R7", f.qual, "marked items are filtered out of detection_items after the walk, nested detections included (interpreted)", f.loc)
    else:
        r.violation("C12.R7", f.qual, "detection.detection_items = list(filter(...DeleteSigmaDetectionItem...))", f"dropped items stay in the detection: [A(drop), B, [C(drop), D]] becomes {got_d}", f.loc)
    r.floor("C12.R7", 3)


def r8_string_tables(ctx) -> None:
    from ..tabulate import Interp, Raised
    r, prog = ctx.r, ctx.prog
    r.rule("C12.R8", "small string rewrites, tabulated: field_name_prefix_mapping replaces exactly the leading prefix (one-to-one and one-to-many) and declines other names; hashes_fields normalises the algorithm tag to upper case before validating it and building the field name")
    f = prog.func(TR + ".fields.FieldPrefixMappingTransformation.apply_field_name")

    class _S:
        def __init__(self, mapping):
            self.mapping = mapping

    wrong = []
    n = 0
    for mapping in ({"proc.": "process."}, {"proc.": ["a.", "b."]}, {"win.": "w.", "proc.": "process."}):
        for field in (None, "proc.name", "proc.parent.proc.name", "proc.", "other.name", "xproc.name", "name.proc."):
            it = Interp({"self": _S(mapping), "field": field, "SigmaProcessingItemError": lambda *a, **k: "SigmaProcessingItemError"})
            try:
                got = it.call(f.node.body)
            except Raised as e:
                got = f"<raises {e}>"
            want = None
            if field is not None:
                for src, dest in mapping.items():
                    if field.startswith(src):
                        want = dest + field[len(src):] if isinstance(dest, str) else [d + field[len(src):] for d in dest]
                        break
            n += 1
            if got != want:
                wrong.append(f"mapping {mapping}, field {field!r}: {got!r} instead of {want!r}")
    if wrong:
        r.violation("C12.R8", f.qual, f"prefix mapping table: {wrong[0]}", f"{len(wrong)} of {n} tabulated cases deviate: only the leading occurrence of the prefix is the prefix — the same text further right in the field name must stay", f.loc)
    else:
        r.ok("C12.R8", f.qual, f"{n} cases (3 mappings x 7 names): leading prefix replaced, rest of the name kept, other names declined", f.loc)
    g = prog.func(TR + ".values.HashesFieldsDetectionItemTransformation._extract_hash_algo_and_value")

    class _H:
        valid_hash_algos = ["MD5", "SHA1"]

        def _determine_hash_algo_by_length(self, v):
            return {3: "MD5", 5: "SHA1"}.get(len(v), "")

    wrong = []
    n = 0
    for value, want in (("MD5=abc", ("MD5", "abc")), ("md5=abc", ("MD5", "abc")), ("Sha1|abcde", ("SHA1", "abcde")), ("*md5=abc*", ("MD5", "abc")),
                        ("SHA256=abcd", ("", "abcd")), ("abc", ("MD5", "abc")), ("abcde", ("SHA1", "abcde")), ("abcdefg", ("", "abcdefg"))):
        it = Interp({"self": _H(), "value": value})
        try:
            got = it.call(g.node.body)
        except Raised as e:
            got = f"<raises {e}>"
        n += 1
        if got != want:
            wrong.append(f"{value!r}: {got!r} instead of {want!r}")
    if wrong:
        r.violation("C12.R8", g.qual, f"hash tag table: {wrong[0]}", f"{len(wrong)} of {n} tabulated cases deviate: the algorithm tag decides the field name (prefix + tag); a tag that is validated case-insensitively but used as written yields Filemd5 / FileSha1 and splits values of one algorithm over several fields", g.loc)
    else:
        r.ok("C12.R8", g.qual, f"{n} cases (tag spellings, separators, wildcards, length fallback): tag normalised to upper case, unknown algorithms dropped", g.loc)
    r.floor("C12.R8", 2)


def r9_string_class_kept(ctx) -> None:
    """A string transformation is a source-level rewrite of the value: `f|cased: Foo` stays a case-sensitive match."""
    r, prog = ctx.r, ctx.prog
    r.rule("C12.R9", "string transformations keep the class of the string: no apply_string_value() returns a value built with the bare SigmaString constructor from its argument's text (val.__class__(…), map_parts and the placeholder routines keep the class)")
    # the string transformations interpreted (sa.tabulate, Proxy; the SigmaString methods they call are interpreted from the
    # source too) on a value of a string subclass: every string they answer is of that subclass
    import re as _re
    from ..tabulate import Raised, Proxy, call_method
    from .standins import string_standin
    Str, Cased, _PH, sc, senv = string_standin(ctx)
    env = dict(senv, SigmaString=Str, cast=lambda t, v: v, SigmaNumber=type("SigmaNumber", (), {}))
    IK = {"max_steps": 40000}
    V = TR + ".values."
    scenarios = [
        (V + "ReplaceStringTransformation", "replace in the plain form", {"re": _re.compile("b"), "regex": "b", "replacement": "X", "skip_special": False, "interpret_special": False}),
        (V + "ReplaceStringTransformation", "replace in the string parts", {"re": _re.compile("b"), "regex": "b", "replacement": "X", "skip_special": True, "interpret_special": False}),
        (V + "ReplaceStringTransformation", "replace with interpreted replacement", {"re": _re.compile("b"), "regex": "b", "replacement": "*", "skip_special": True, "interpret_special": True}),
        (V + "MapStringTransformation", "map to one string", {"mapping": {"abc": "x"}}),
        (V + "MapStringTransformation", "map to several strings", {"mapping": {"abc": ["x", "y"]}}),
        (V + "CaseTransformation", "lower", {"method": "lower"}),
        (V + "CaseTransformation", "upper", {"method": "upper"}),
        (V + "CaseTransformation", "snake_case", {"method": "snake_case"}),
    ]
    n = 0
    for cq, what, attrs in scenarios:
        f = prog.lookup_method(cq, "apply_string_value")
        if f is None:
            raise AnalysisError(f"anchor vanished: {cq}.apply_string_value")
        val = Cased(["abc"])
        me = Proxy(prog, cq, env, dict(attrs, processing_item=None, _pipeline=None), interp_kwargs=IK)
        try:
            out = call_method(prog, cq, "apply_string_value", me, env, "f", val, interp_kwargs=IK)
        except Raised as ex:
            raise AnalysisError(f"{cq}.apply_string_value ({what}) raises {ex} on the stand-in value")
        outs = out if isinstance(out, list) else [out]
        strs = [o for o in outs if isinstance(o, Str)]
        n += 1
        if strs and all(type(o) is Cased for o in strs):
            r.ok("C12.R9", f.qual, f"{what}: result has the class of the value", f.loc)
        elif not strs:
            raise AnalysisError(f"{cq}.apply_string_value ({what}) gives {out!r}: no string to examine")
        else:
            r.violation("C12.R9", f.qual, f"{what}: result is built as a plain {type([o for o in strs if type(o) is not Cased][0]).__name__ if False else 'SigmaString'}", "for a case-sensitive value (`f|cased: FooBar`) the case-sensitive match is lost after the transformation (f casematch \"…\" becomes f=\"…\") — the rule matches more than its rewrite says", f.loc)
    r.analysed["C12.string_rebuild_returns"] = n
    r.floor("C12.R9", 3)


def r10_expansions_descended(ctx) -> None:
    """windash / base64offset turn one value into a SigmaExpansion of alternatives; a value transformation applies to them too."""
    from ..tabulate import Interp, Raised
    r, prog = ctx.r, ctx.prog
    r.rule("C12.R10", "value transformations reach the alternatives inside a SigmaExpansion: ValueTransformation.apply_detection_item, interpreted (sa.tabulate) on values [string, expansion(string, number), number] with a stand-in apply_value that upper-cases strings and declines everything else, rewrites the strings inside the expansion and keeps the expansion together")
    f = prog.func(TB + ".ValueTransformation.apply_detection_item")
    helpers = {nm: m for nm, m in prog.cls(TB + ".ValueTransformation").methods.items() if nm.startswith("_") and not nm.startswith("__")}

    class _T:
        pass

    class _Str(_T):
        def __init__(self, t):
            self.t = t

    class _Num(_T):
        def __init__(self, n):
            self.n = n

    class _Exp(_T):
        def __init__(self, values):
            self.values = values

    from ..tabulate import Proxy, call_method
    from collections.abc import Iterable as _It
    env10 = {"SigmaExpansion": _Exp, "SigmaType": _T, "Iterable": _It}
    me = Proxy(prog, TB + ".ValueTransformation", env10, {"value_types": _T, "processing_item": None, "_pipeline": None,
                                                           "apply_value": lambda field, v: _Str(v.t.upper()) if isinstance(v, _Str) else None}, interp_kwargs={"max_steps": 8000})
    item = type("Item", (), {})()
    item.field = "f"
    n1, n2 = _Num(1), _Num(2)
    item.value = [_Str("a"), _Exp([_Str("b"), n1]), n2]
    try:
        out = call_method(prog, TB + ".ValueTransformation", "apply_detection_item", me, env10, item, interp_kwargs={"max_steps": 8000})
    except Raised as ex:
        r.violation("C12.R10", f.qual, "apply_detection_item on [string, expansion, number]", f"raises {ex}", f.loc)
        r.floor("C12.R10", 1)
        return
    def show(v):
        return v.t if isinstance(v, _Str) else (v.n if isinstance(v, _Num) else [show(x) for x in v.values])
    got = [show(v) for v in item.value]
    want = ["A", ["B", 1], 2]
    if out is item and got == want:
        r.ok("C12.R10", f.qual, "strings inside the expansion are transformed, the expansion and the other values are kept", f.loc)
    else:
        r.violation("C12.R10", f.qual, f"values after the transformation: {got} (returned {'the item' if out is item else out!r})",
                    f"specified {want}: the alternatives a modifier expanded a value into are skipped — `CommandLine|windash|contains: -Foo` under a `case`/`replace_string`/placeholder transformation converts as if there were no pipeline", f.loc)
    r.floor("C12.R10", 1)


def r11_nested_pipeline_context(ctx) -> None:
    """`nest` is documented as its items written flat: they use the variables and the state of the enclosing pipeline."""
    from ..tabulate import Interp, Raised
    r, prog = ctx.r, ctx.prog
    r.rule("C12.R11", "nested items run in the context of the enclosing pipeline: NestedProcessingTransformation.apply, interpreted with stand-in pipelines, runs the nested pipeline with the enclosing pipeline's variables and with its state of this rule")
    f = prog.func(TR + ".meta.NestedProcessingTransformation.apply")
    seen = {}

    class _Track:
        def merge(self, o):
            return None

    class _Inner:
        def __init__(self):
            self.vars, self.applied, self.applied_ids, self.field_name_applied_ids, self.field_mappings, self.state = {}, [], set(), {}, _Track(), {}

        def apply(self, rule, state=None):
            seen["vars"] = dict(self.vars)
            seen["state"] = dict(state) if state is not None else None
            self.state = dict(state or {})
            return rule

    class _Outer:
        def __init__(self):
            self.vars, self.applied, self.applied_ids, self.field_name_applied_ids, self.field_mappings, self.state = {"var": ["a", "b"]}, [], set(), {}, _Track(), {"k": "v"}

    me = type("N", (), {})()
    me._nested_pipeline, me._pipeline = _Inner(), _Outer()
    base = type("B", (), {"apply": lambda self_, rr: None})()
    it = Interp({"self": me, "rule": object(), "super": lambda: base, "SigmaConfigurationError": type("SigmaConfigurationError", (Exception,), {})}, max_steps=2000)
    try:
        it.call(f.node.body)
    except Raised as ex:
        r.violation("C12.R11", f.qual, "apply() with an enclosing pipeline", f"raises {ex}", f.loc)
        r.floor("C12.R11", 1)
        return
    problems = []
    if seen.get("vars") != {"var": ["a", "b"]}:
        problems.append(f"the nested pipeline runs with vars {seen.get('vars')}: a nested value_placeholders item does not find the variables of the pipeline it is written in")
    if seen.get("state") != {"k": "v"}:
        problems.append(f"the nested pipeline starts with state {seen.get('state')}: a nested item conditioned on processing state set by an earlier item never matches")
    if problems:
        r.violation("C12.R11", f.qual, "context handed to the nested pipeline", "; ".join(problems), f.loc)
    else:
        r.ok("C12.R11", f.qual, "nested pipeline gets the enclosing pipeline's vars and a start state equal to its state of this rule", f.loc)
    r.floor("C12.R11", 1)


def _ref_parse(text: str) -> list:
    """Reference Sigma string parser (specification): backslash escapes '*', '?' and itself, any other backslash is a
    plain character, bare '*'/'?' are wildcards. Returns parts: str | ('W', c)."""
    out, acc, i = [], "", 0
    while i < len(text):
        c = text[i]
        if c == "\\" and i + 1 < len(text) and text[i + 1] in "*?\\":
            acc += text[i + 1]
            i += 2
            continue
        if c in "*?":
            if acc:
                out.append(acc)
                acc = ""
            out.append(("W", c))
        else:
            acc += c
        i += 1
    if acc:
        out.append(acc)
    return out


def r12_reescape_inverse(ctx) -> None:
    """replace_string (default mode) prints the value, substitutes, re-escapes the backslashes and parses the text again.
    The re-escaping pattern is extracted and applied (the stdlib `re` is the only library) to printed sample values; parsed
    with the reference parser the result must be the value again: every literal backslash run keeps its length, an escaped
    wildcard stays literal, a wildcard stays a wildcard."""
    import re as _re
    r, prog = ctx.r, ctx.prog
    r.rule("C12.R12", "the backslash re-escaping of replace_string is the inverse of the parser's unescaping: applied to the printed form of sample values (backslash runs of length 1–4, escaped and bare wildcards) and parsed by the reference parser, every value comes back unchanged")
    f = prog.func(TR + ".values.ReplaceStringTransformation.apply_string_value")
    # apply_string_value (default mode) interpreted (sa.tabulate, Proxy; printer and parser of SigmaString are interpreted
    # from the source as well, `re` is the only library) with an expression that matches the marker character Q and
    # replaces it by itself: the rest of the value must come back unchanged
    from ..tabulate import Raised, Proxy, call_method
    from .standins import string_standin
    Str, Cased, _PH, sc, senv = string_standin(ctx)
    RS = TR + ".values.ReplaceStringTransformation"
    env = dict(senv, SigmaString=Str, cast=lambda t, v: v, SigmaNumber=type("SigmaNumber", (), {}))
    IK = {"max_steps": 40000}
    W = sc.WILDCARD_MULTI
    values = [["a\\b"], ["a\\\\b"], ["a\\\\\\b"], ["a\\\\\\\\b"], ["\\\\srv\\share\\x.exe"], ["50* off"], ["what?"], ["a", W, "b"], ["x\\y"], ["C:\\dir\\z"], ["tail\\\\\\"]]
    bad = []
    for parts in values:
        parts = list(parts[:-1]) + [parts[-1] + "Q"] if isinstance(parts[-1], str) else list(parts) + ["Q"]
        val = Cased(parts)
        me = Proxy(prog, RS, env, {"re": _re.compile("Q"), "regex": "Q", "replacement": "Q", "skip_special": False, "interpret_special": False, "processing_item": None, "_pipeline": None}, interp_kwargs=IK)
        try:
            out = call_method(prog, RS, "apply_string_value", me, env, "f", val, interp_kwargs=IK)
        except Raised as ex:
            bad.append(f"{parts}: raises {ex}")
            continue
        got = getattr(out, "s", out)
        if got != parts:
            bad.append(f"{parts} comes back as {got}")
    if bad:
        r.violation("C12.R12", f.qual, f"re.sub(<re-escaping>): {bad[0]}", f"(+{len(bad) - 1} more value(s)): a replace_string whose regex matches rewrites the untouched rest of the value — runs of backslashes change their length", f.loc)
    else:
        r.ok("C12.R12", f.qual, f"printing, substituting, re-escaping and parsing restores {len(values)} sample values exactly (interpreted)", f.loc)
    r.floor("C12.R12", 1)


def r13_value_lists_rebound(ctx) -> None:
    """One-to-many field mappings clone a detection item with dataclasses.replace(), which copies the *reference* to the value
    list: the clones share one list object. A transformation restricted to one of the mapped fields must therefore give its
    item a new list; changing the list in place rewrites the sibling fields' values as well."""
    from .c06 import INPLACE_METHODS, _item_typed
    r, prog = ctx.r, ctx.prog
    r.rule("C12.R13", "transformations give a detection item a new value list (item.value = …) and never change the list in place (slice assignment, append/extend/clear, del, +=): items cloned by a one-to-many field mapping share their list object")
    n = 0
    for f in prog.functions_in("sigma.processing"):
        for st in walk_no_nested(f.node):
            hit = None
            if isinstance(st, (ast.Assign, ast.AugAssign)):
                for t in (st.targets if isinstance(st, ast.Assign) else [st.target]):
                    if isinstance(t, ast.Attribute) and t.attr == "value" and _item_typed(ctx, f, t.value):
                        n += 1
                        if isinstance(st, ast.AugAssign):
                            hit = st
                        else:
                            r.ok("C12.R13", f.qual, f"{stmt_head(st, 70)}: new list bound to the item", f"{f.module.relpath}:{st.lineno}")
                    elif isinstance(t, ast.Subscript) and isinstance(t.value, ast.Attribute) and t.value.attr == "value" and _item_typed(ctx, f, t.value.value):
                        n += 1
                        hit = st
            elif isinstance(st, ast.Delete):
                for t in st.targets:
                    if isinstance(t, ast.Subscript) and isinstance(t.value, ast.Attribute) and t.value.attr == "value" and _item_typed(ctx, f, t.value.value):
                        n += 1
                        hit = st
            elif isinstance(st, ast.Expr) and isinstance(st.value, ast.Call) and isinstance(st.value.func, ast.Attribute) and st.value.func.attr in INPLACE_METHODS \
                    and isinstance(st.value.func.value, ast.Attribute) and st.value.func.value.attr == "value" and _item_typed(ctx, f, st.value.func.value.value):
                n += 1
                hit = st
            if hit is not None:
                r.violation("C12.R13", f.qual, stmt_head(hit, 120),
                            "the value list of the item is changed in place: after a one-to-many field mapping (User → [SubjectUserName, TargetUserName]) the mapped items share this list, so a value transformation restricted to SubjectUserName by a field name condition also rewrites the values of TargetUserName", f"{f.module.relpath}:{hit.lineno}")
    r.analysed["C12.item_value_stores"] = n
    r.floor("C12.R13", 3)
