"""C06 — serialising a rule and loading it again preserves its meaning (structural clauses)."""
from __future__ import annotations

import ast
from typing import Any, Optional

from ..prog import AnalysisError, FuncInfo, call_name, short, stmt_head, unparse, walk_no_nested
from ..tabulate import Interp, Raised
from ..util import atomic_guards, guards_at

ITEM = "sigma.rule.detection.SigmaDetectionItem"
DET = "sigma.rule.detection.SigmaDetection"
DIT = "sigma.processing.transformations.base.DetectionItemTransformation"

# (reader function, document variable, writer function, dict variable or None = returned dict literal)
PAIRS = [
    ("sigma.rule.base.SigmaRuleBase.from_dict_common_params", "rule", "sigma.rule.base.SigmaRuleBase.to_dict", "d"),
    ("sigma.rule.rule.SigmaRule.from_dict", "rule", "sigma.rule.rule.SigmaRule.to_dict", "d"),
    ("sigma.rule.logsource.SigmaLogSource.from_dict", "logsource", "sigma.rule.logsource.SigmaLogSource.to_dict", "d"),
    ("sigma.rule.detection.SigmaDetections.from_dict", "detections", "sigma.rule.detection.SigmaDetections.to_dict", None),
    ("sigma.filters.SigmaGlobalFilter.from_dict", "detections", "sigma.filters.SigmaGlobalFilter.to_dict", "d",
     ("sigma.rule.detection.SigmaDetections.to_dict", None)),  # the reader consumes the keys of both levels itself
    ("sigma.filters.SigmaFilter.from_dict", "sigma_filter", "sigma.filters.SigmaFilter.to_dict", "d"),
    ("sigma.correlations.SigmaCorrelationRule.from_dict", "rule", "sigma.correlations.SigmaCorrelationRule.to_dict", "d"),
    ("sigma.correlations.SigmaCorrelationRule.from_dict", "correlation_rule", "sigma.correlations.SigmaCorrelationRule.to_dict", "dc"),
    ("sigma.correlations.SigmaCorrelationCondition.from_dict", "d", "sigma.correlations.SigmaCorrelationCondition.to_dict", "result"),
]
WRITER_MODULES = ("sigma.rule.", "sigma.correlations", "sigma.filters")
# attributes of serialised objects that carry no document content
BOOKKEEPING = {"applied_processing_items", "_output", "_conversion_result", "_conversion_states", "_backreferences", "parent",
               "errors", "source"}
INPLACE_METHODS = {"append", "extend", "insert", "remove", "pop", "clear", "sort", "reverse", "__setitem__", "__delitem__"}


def run(ctx) -> None:
    r = ctx.r
    r.explanation = (
        "Round-trip equality itself quantifies over all documents and is not decided. Decided are the structural conditions it "
        "rests on: (R1) for every reader/writer pair the set of document keys the reader consumes equals the set the writer can "
        "emit, and no optional numeric item is dropped by a truthiness guard; (R2) every change of a detection item's values by "
        "pipeline code is matched by the voiding or re-sync protocol of the transformation's apply_detection (in-place changes "
        "are invisible to the identity test of the field mapping protocol; items cloned with dataclasses.replace and re-syncs "
        "under remaining value modifiers take modified values as originals); (R3) the writers fail with a Sigma error instead of "
        "writing stale values: the original_value guard dominates every read, non-plain types raise, no writer swallows the "
        "error; (R4) every attribute that pipeline code stores on a serialised object is one the writer reads (the live state, "
        "not a stale copy); (R5) the value rendering of SigmaDetectionItem.to_plain and the linking rendering of "
        "SigmaDetection.to_plain, tabulated over element class x regex modifier x value count resp. item kind x linking x count.")
    r1_keys(ctx)
    r2_stale_original(ctx)
    r3_fail_not_lie(ctx)
    r4_live_state(ctx)
    r5_tabulated_writers(ctx)
    # what to_plain() writes is the original value object: no modifier may change it in place (shared with C03.R9)
    from . import c03
    c03.r9_argument_not_mutated(ctx, "C06.R6")


# ---------------------------------------------------------------- R1

def _const_strs(e: ast.AST) -> Optional[list[str]]:
    if isinstance(e, (ast.Tuple, ast.List, ast.Set)) and all(isinstance(x, ast.Constant) and isinstance(x.value, str) for x in e.elts):
        return [x.value for x in e.elts]  # type: ignore[attr-defined]
    return None


def reader_keys(f: FuncInfo, var: str, prog=None, depth: int = 0) -> tuple[set[str], bool]:
    keys: set[str] = set()
    dynamic = False
    # the document handed to a helper of the class (or of the module) together with constant keys: the helper's reads of its
    # document parameter under those key parameters, and its own constant reads
    if prog is not None and depth < 2:
        for n in ast.walk(f.node):
            if not (isinstance(n, ast.Call) and any(isinstance(a, ast.Name) and a.id == var for a in n.args)):
                continue
            helper = None
            if isinstance(n.func, ast.Attribute) and isinstance(n.func.value, ast.Name) and n.func.value.id in ("cls", "self") and f.cls is not None:
                helper = prog.lookup_method(f.cls.qual, n.func.attr)
            elif isinstance(n.func, ast.Name):
                hq = prog.resolve_expr(f.module, n.func)
                helper = prog.funcs.get(hq) if hq else None
            if helper is None or helper is f:
                continue
            params = [p for p in helper.params() if p not in ("self", "cls")]
            bound = dict(zip(params, n.args))
            bound.update({k.arg: k.value for k in n.keywords if k.arg})
            doc_params = [p for p, a in bound.items() if isinstance(a, ast.Name) and a.id == var]
            const_params = {p: a.value for p, a in bound.items() if isinstance(a, ast.Constant) and isinstance(a.value, str)}
            for dp in doc_params:
                hk, hd = reader_keys(helper, dp, prog, depth + 1)
                keys |= hk
                for x in ast.walk(helper.node):
                    key_expr = None
                    if isinstance(x, ast.Subscript) and isinstance(x.value, ast.Name) and x.value.id == dp and isinstance(x.ctx, ast.Load):
                        key_expr = x.slice
                    elif isinstance(x, ast.Call) and call_name(x) == f"{dp}.get" and x.args:
                        key_expr = x.args[0]
                    elif isinstance(x, ast.Compare) and len(x.ops) == 1 and isinstance(x.ops[0], ast.In) and isinstance(x.comparators[0], ast.Name) and x.comparators[0].id == dp:
                        key_expr = x.left
                    if isinstance(key_expr, ast.Name) and key_expr.id in const_params:
                        keys.add(const_params[key_expr.id])
    nested: dict[str, str] = {}  # nested function name -> parameter used as key
    for n in ast.walk(f.node):
        if isinstance(n, ast.FunctionDef) and n is not f.node:
            params = [a.arg for a in n.args.args]
            for c in ast.walk(n):
                if isinstance(c, ast.Call) and call_name(c) == f"{var}.get" and c.args and isinstance(c.args[0], ast.Name) and c.args[0].id in params:
                    nested[n.name] = c.args[0].id
    for n in ast.walk(f.node):
        if isinstance(n, ast.Call) and call_name(n) == f"{var}.get" and n.args:
            a = n.args[0]
            if isinstance(a, ast.Constant) and isinstance(a.value, str):
                keys.add(a.value)
            elif not (isinstance(a, ast.Name) and a.id in nested.values()):
                dynamic = True
        elif isinstance(n, ast.Subscript) and isinstance(n.value, ast.Name) and n.value.id == var and isinstance(n.ctx, ast.Load):
            if isinstance(n.slice, ast.Constant) and isinstance(n.slice.value, str):
                keys.add(n.slice.value)
            else:
                dynamic = True
        elif isinstance(n, ast.Compare) and len(n.ops) == 1 and isinstance(n.ops[0], ast.In) and isinstance(n.comparators[0], ast.Name) \
                and n.comparators[0].id == var and isinstance(n.left, ast.Constant) and isinstance(n.left.value, str):
            keys.add(n.left.value)
        elif isinstance(n, ast.Call) and isinstance(n.func, ast.Name) and n.func.id in nested and n.args \
                and isinstance(n.args[0], ast.Constant) and isinstance(n.args[0].value, str):
            keys.add(n.args[0].value)
    return keys, dynamic


def _dict_keys(e: ast.AST, loop_consts: dict[str, list[str]]) -> tuple[set[str], bool]:
    keys: set[str] = set()
    dyn = False
    if isinstance(e, ast.Dict):
        for k in e.keys:
            if k is None:
                dyn = True  # ** splat
            elif isinstance(k, ast.Constant) and isinstance(k.value, str):
                keys.add(k.value)
            else:
                dyn = True
    elif isinstance(e, ast.DictComp):
        k = e.key
        gen = e.generators[0]
        cs = _const_strs(gen.iter)
        if isinstance(k, ast.Name) and isinstance(gen.target, ast.Name) and gen.target.id == k.id and cs is not None:
            keys.update(cs)
        else:
            dyn = True
    else:
        dyn = True
    return keys, dyn


def writer_keys(f: FuncInfo, var: Optional[str]) -> tuple[set[str], bool, dict[str, ast.AST]]:
    """Constant keys the writer can emit into ``var`` (or into the returned dict literal), whether it also emits dynamic
    keys, and per key the guard statement (If) when the emission is conditional."""
    keys: set[str] = set()
    dyn = False
    guards: dict[str, ast.AST] = {}
    loop_consts: dict[str, list[str]] = {}
    parents: dict[int, ast.AST] = {}
    for n in ast.walk(f.node):
        for c in ast.iter_child_nodes(n):
            parents[id(c)] = n
        if isinstance(n, ast.For) and isinstance(n.target, ast.Name):
            cs = _const_strs(n.iter)
            if cs is not None:
                loop_consts[n.target.id] = cs

    def guard_of(n: ast.AST) -> Optional[ast.AST]:
        p = parents.get(id(n))
        while p is not None and p is not f.node:
            if isinstance(p, ast.If):
                return p
            p = parents.get(id(p))
        return None

    def enclosing_loop_consts(n: ast.AST, name: str) -> Optional[list[str]]:
        p = parents.get(id(n))
        while p is not None:
            if isinstance(p, ast.For) and isinstance(p.target, ast.Name) and p.target.id == name:
                return _const_strs(p.iter)
            p = parents.get(id(p))
        return None

    for n in ast.walk(f.node):
        if var is None:
            if isinstance(n, ast.Return) and n.value is not None:
                k, d = _dict_keys(n.value, loop_consts)
                keys |= k
                dyn |= d
            continue
        if isinstance(n, (ast.Assign, ast.AnnAssign)):
            tgts = n.targets if isinstance(n, ast.Assign) else [n.target]
            for t in tgts:
                if isinstance(t, ast.Name) and t.id == var and n.value is not None:
                    if isinstance(n.value, ast.Call) and call_name(n.value) == "super().to_dict":
                        continue  # keys of the base writer are compared at the base pair
                    k, d = _dict_keys(n.value, loop_consts)
                    keys |= k
                    dyn |= d
                elif isinstance(t, ast.Subscript) and isinstance(t.value, ast.Name) and t.value.id == var:
                    sl = t.slice
                    g = guard_of(n)
                    if isinstance(sl, ast.Constant) and isinstance(sl.value, str):
                        keys.add(sl.value)
                        if g is not None:
                            guards[sl.value] = g
                    elif isinstance(sl, ast.Name) and enclosing_loop_consts(n, sl.id) is not None:
                        keys.update(enclosing_loop_consts(n, sl.id) or [])
                    else:
                        dyn = True
        elif isinstance(n, ast.Call) and call_name(n) == f"{var}.update" and n.args:
            k, d = _dict_keys(n.args[0], loop_consts)
            keys |= k
            dyn |= d
    return keys, dyn, guards


def r1_keys(ctx) -> None:
    r, prog = ctx.r, ctx.prog
    r.rule("C06.R1", "reader/writer key agreement: for each (from_dict, to_dict) pair the constant document keys the reader consumes equal the keys the writer can emit; an optional numeric item is guarded by `is not None`, not by truthiness")
    from . import c06_keys as K
    BASE = "sigma.rule.base.SigmaRuleBase"
    CLASS_PAIRS = [  # class, reader method, writer keys that belong to a nested writer the reader consumes itself
        (BASE, "from_dict_common_params", None),
        ("sigma.rule.rule.SigmaRule", "from_dict", None),
        ("sigma.rule.logsource.SigmaLogSource", "from_dict", None),
        ("sigma.rule.detection.SigmaDetections", "from_dict", None),
        ("sigma.filters.SigmaGlobalFilter", "from_dict", "sigma.rule.detection.SigmaDetections"),
        ("sigma.filters.SigmaFilter", "from_dict", None),
        ("sigma.correlations.SigmaCorrelationRule", "from_dict", None),
        ("sigma.correlations.SigmaCorrelationCondition", "from_dict", None),
    ]
    static_pairs: dict[str, list] = {}
    for pair in PAIRS:
        static_pairs.setdefault(pair[0].rsplit(".", 1)[0], []).append(pair)
    base_r: set[str] = set()
    base_w: set[str] = set()
    for cq, rm, also in CLASS_PAIRS:
        rf = prog.lookup_method(cq, rm)
        wf = prog.lookup_method(cq, "to_dict")
        if rf is None or wf is None:
            raise AnalysisError(f"anchor vanished: {cq}.{rm} / to_dict")
        how_r = how_w = "interpreted"
        lost: list[str] = []
        try:
            rk_all, iterated, _notes = K.reader_keys(ctx, cq, rm)
        except AnalysisError as ex:
            how_r, rk_all = f"extracted from the syntax tree (interpretation: {str(ex)[:80]})", {}
            for i, pair in enumerate(static_pairs.get(cq, [])):
                k_, dyn_ = reader_keys(prog.func(pair[0]), pair[1], prog)
                if not k_ and not dyn_:
                    raise AnalysisError(f"{pair[0]}: no key reads of {pair[1]!r} found")
                rk_all[() if i == 0 else ("correlation",)] = k_
        try:
            wk_all, lost = K.writer_keys(ctx, cq)
            if also:
                wk_all[()] = wk_all.get((), set()) | K.writer_keys(ctx, also)[0].get((), set())
        except AnalysisError as ex:
            how_w, wk_all = f"extracted from the syntax tree (interpretation: {str(ex)[:80]})", {}
            for i, pair in enumerate(static_pairs.get(cq, [])):
                k_, dyn_, _g = writer_keys(prog.func(pair[2]), pair[3])
                if len(pair) > 4:
                    bk, bd, _ = writer_keys(prog.func(pair[4][0]), pair[4][1])
                    k_, dyn_ = k_ | bk, dyn_ or bd
                if not k_ and not dyn_:
                    raise AnalysisError(f"{pair[2]}: no key writes of {pair[3]!r} found")
                wk_all[() if i == 0 else ("correlation",)] = k_
        if cq == BASE:
            base_r, base_w = set(rk_all.get((), set())), set(wk_all.get((), set()))
        for path in sorted(set(rk_all) | set(wk_all)):
            if path not in rk_all or path not in wk_all:
                continue  # a section only one side opens itself is judged at the pair of its own class
            rk, wk = set(rk_all[path]), set(wk_all[path])
            if cq != BASE and not path and prog.is_subclass(cq, BASE):
                rk, wk = rk - base_r - base_w, wk - base_w - base_r  # the common keys are judged at the base pair
            wq = wf.qual if not path or cq != "sigma.correlations.SigmaCorrelationRule" else wf.qual
            rname = f"{rf.qual.rsplit('.', 2)[-2]}.{rf.name}"
            sect = f" in the section {'/'.join(path)}" if path else ""
            for k in sorted(rk - wk):
                r.violation("C06.R1", wq, f"key '{k}' read by {rname}, never written",
                            f"the reader consumes '{k}'{sect} but the writer cannot emit it: the item is lost when the written form is loaded again (a rule condition or pipeline that looks at it sees another rule)", wf.loc)
            for k in sorted(wk - rk):
                r.violation("C06.R1", wq, f"key '{k}' written, not read by {rname}",
                            f"the writer emits '{k}'{sect} which the reader does not consume: it is ignored or re-read as a custom attribute, so the reloaded object differs", wf.loc)
            if not (rk ^ wk):
                r.ok("C06.R1", wq, f"{cq.rsplit('.', 1)[-1]}.to_dict{sect}: keys {sorted(wk)} (writer {how_w}) = keys asked for by {rf.name} (reader {how_r})", wf.loc)
        for l_ in lost:
            if " = None " in l_:
                r.violation("C06.R1", wf.qual, f"if <optional attribute> is not None: … — {l_}", "the key of one item is written only when another, optional item is present: a rule without that item loses this one in the written form and reloads without it", wf.loc)
            else:
                r.violation("C06.R1", wf.qual, f"if <numeric attribute>: … — {l_}", "truthiness guard on a numeric item: the legitimate value 0 is dropped from the written form and reloads as absent", wf.loc)
        if not lost and how_w == "interpreted":
            r.ok("C06.R1", wf.qual, f"{cq.rsplit('.', 1)[-1]}.to_dict: no key disappears when a numeric attribute is 0, and an absent optional attribute takes only its own key with it", wf.loc)
    # dates: the writer emits date.isoformat(); every such text must be accepted by the reader's patterns
    import re as _re
    gd = prog.func("sigma.rule.base.SigmaRuleBase.from_dict_common_params")
    wf_ = prog.func("sigma.rule.base.SigmaRuleBase.to_dict")
    # the writer interpreted (sa.tabulate, Proxy) on a stand-in rule whose date / modified hold a date or a timestamp
    import datetime as _dt
    from ..tabulate import Proxy, call_method, Raised
    base_attrs = {k: None for k in ("id", "status", "level", "author", "description", "name", "license", "references", "fields", "falsepositives", "scope", "related", "taxonomy")}
    base_attrs.update({"title": "t", "tags": [], "custom_attributes": {}, "source": None})
    for attr in ("date", "modified"):
        outs = {}
        for what, val in (("date", _dt.date(2024, 1, 5)), ("timestamp", _dt.datetime(2024, 1, 5, 10, 30, 0)), ("timestamp with zone", _dt.datetime(2024, 1, 5, 10, 30, 0, tzinfo=_dt.timezone.utc))):
            env = {"dt": _dt, "datetime": _dt, "date": _dt.date}
            me = Proxy(prog, "sigma.rule.base.SigmaRuleBase", env, dict(base_attrs, **{"date": None, "modified": None, attr: val}), interp_kwargs={"max_steps": 6000})
            try:
                d_ = call_method(prog, "sigma.rule.base.SigmaRuleBase", "to_dict", me, env, interp_kwargs={"max_steps": 6000})
                outs[what] = d_.get(attr) if isinstance(d_, dict) else repr(d_)
            except Raised as ex:
                outs[what] = f"<raises {ex}>"
        if all(v == "2024-01-05" for v in outs.values()):
            r.ok("C06.R1", wf_.qual, f"{attr}: a timestamp is written as its date (isoformat of a date is YYYY-MM-DD) — interpreted on a date and two timestamps", wf_.loc)
        else:
            r.violation("C06.R1", wf_.qual, f"d['{attr}'] = self.{attr}.isoformat(): {outs}", f"the loader accepts a YAML timestamp as {attr}, and isoformat() of a datetime is YYYY-MM-DDTHH:MM:SS — none of the reader's date patterns: the written rule cannot be loaded again", wf_.loc)
    # the reader interpreted (sa.tabulate) on documents whose date is the text the writer emits, for every date of four years
    rejected, n_dates = [], 0
    for attr in ("date", "modified"):
        for y in (1000, 1999, 2024, 3999):
            for m_ in range(1, 13):
                for d_ in range(1, 32):
                    try:
                        want_d = _dt.date(y, m_, d_)
                    except ValueError:
                        continue
                    n_dates += 1
                    out_ = K.reader_result(ctx, BASE, "from_dict_common_params", {"title": "t", attr: want_d.isoformat()})
                    got_d = out_[0].get(attr) if isinstance(out_, tuple) and out_ and isinstance(out_[0], dict) else out_
                    if got_d != want_d:
                        rejected.append(f"{attr}: {want_d.isoformat()} → {got_d!r}")
    if rejected:
        r.violation("C06.R1", gd.qual, f"accepted_regexps reject {rejected[0]}", f"the writer emits dates as date.isoformat(); {len(rejected)} of {n_dates} such texts (first: {rejected[0]}) are not read back as the same date: a rule with such a date cannot be loaded from its own written form", gd.loc)
    else:
        r.ok("C06.R1", gd.qual, f"every ISO date of four years ({n_dates} documents, date and modified) the writer can emit is read back as the same date (reader interpreted)", gd.loc)
    r.floor("C06.R1", 15)


# ---------------------------------------------------------------- R2

def _item_typed(ctx, f: FuncInfo, e: ast.AST) -> bool:
    return any(c == ITEM or ctx.prog.is_subclass(c, ITEM) for c in ctx.types.class_names(f.module, e) if c in ctx.prog.classes)


def _protocol(ctx, cq: str) -> tuple[FuncInfo, str, str]:
    """The voiding protocol of the apply_detection a class runs, read off its interpretation on stand-in detections
    (standins.apply_detection_outcomes): what happens to the original values of an item that apply_detection_item changed."""
    from .standins import apply_detection_outcomes
    m, outs = apply_detection_outcomes(ctx, cq)
    def sel(mode, value_modifiers=False, any_mods=False, plain=True):
        return [o for o in outs if o.mode == mode and o.value_modifiers == value_modifiers and o.any_mods == any_mods and o.plain_values == plain]
    def changed(o):
        return [(n, i) for n, i in o.items.items() if i.result is not None and i.stored]
    for o in outs:
        if o.raised is not None:
            return m, "raises", f"{o.raised} ({o.mode}, {o.mods}, {o.values})"
    # 1. re-sync while value modifiers stay on the item
    for o in [o for o in outs if o.value_modifiers and o.mode in ("rebind", "inplace")]:
        for n, i in changed(o):
            if i.resynced or i.resync_shared:
                return m, "resync-unguarded", f"item {n} with {o.mods}, values changed by {o.mode}"
    # 2. re-sync of values whose plain form loads as another type
    for o in [o for o in outs if not o.plain_values and not o.value_modifiers and o.mode in ("rebind", "inplace")]:
        for n, i in changed(o):
            if i.resynced or i.resync_shared:
                return m, "resync-untyped", f"item {n} holding {o.values}"
    # 3. a re-sync that shares the list with the item: later in-place changes go to both
    for o in outs:
        for n, i in changed(o):
            if i.resync_shared:
                return m, "resync-shared", f"item {n}: original_value is the value list itself"
    # 4. rebinding stores
    rebind_stale = [(o, n) for o in outs if o.mode in ("rebind", "new") for n, i in changed(o) if i.stale]
    if rebind_stale:
        o, n = rebind_stale[0]
        all_stale = all(i.stale for o_ in outs if o_.mode in ("rebind", "new") for _, i in changed(o_))
        return m, ("none" if all_stale else "conditional"), f"item {n} ({'keyword item' if n == 'C' else 'field item'}, {o.mods}, {o.values}, {o.mode}) keeps the values it was loaded with as original values"
    inplace_stale = [(o, n) for o in outs if o.mode == "inplace" for n, i in changed(o) if i.stale]
    kinds = {("void" if i.voided else "resync") for o in outs if o.mode in ("rebind", "new") for _, i in changed(o)}
    if not kinds:
        raise AnalysisError(f"{m.qual}: no stand-in item was replaced in any scenario")
    if inplace_stale:
        return m, "identity", "the item is voided when its value list was replaced by another object"
    return m, ("unconditional" if kinds == {"void"} else "resync-guarded"), ""


def r2_stale_original(ctx) -> None:
    r, prog = ctx.r, ctx.prog
    r.rule("C06.R2", "stale-original discipline: every store to the value list of a detection item in pipeline code is covered by the voiding protocol of each apply_detection it runs under (unconditional void, guarded re-sync, or the identity test — which only sees rebinding stores); cloned items (dataclasses.replace / auto_modifiers=False) are voided; a re-sync of original_value is guarded by the absence of value modifiers")
    funcs = [f for f in prog.functions_in("sigma.processing", "sigma.filters", "sigma.conversion", "sigma.pipelines")]
    protos: dict[str, tuple[str, str]] = {}
    proto_of: dict = {}
    proto_by_class: dict[str, tuple[str, str]] = {}
    for cq in prog.subclasses(DIT):
        m = prog.lookup_method(cq, "apply_detection")
        if m is None:
            continue
        mro_key = (m.qual, tuple(q for q in prog.mro(cq) if (ci := prog.classes.get(q)) is not None and "apply_detection" in ci.methods))
        if mro_key not in proto_of:
            f_, kind, detail = _protocol(ctx, cq)
            proto_of[mro_key] = (kind, detail)
        proto_by_class[cq] = proto_of[mro_key]
        if m.qual not in protos or proto_of[mro_key][0] not in ("unconditional", "resync-guarded", "identity"):
            protos[m.qual] = proto_of[mro_key]
    for q, (kind, detail) in sorted(protos.items()):
        f = prog.func(q)
        if kind in ("none", "conditional", "resync-unguarded", "resync-untyped", "resync-shared", "raises"):
            msg = {"resync-untyped": "original_value is re-synced whatever the types of the new values: after a regex transformation the item holds regular expressions but no re modifier, and to_dict() writes them as plain strings, which load as literal strings",
                   "none": "apply_detection neither voids nor re-syncs the replaced item: to_dict() writes the values from before the transformation",
                   "conditional": f"the void does not reach every changed item: {detail}",
                   "resync-shared": "original_value is bound to the value list itself instead of a copy: a later in-place change of the values silently changes what to_dict() writes",
                   "raises": f"apply_detection fails on the stand-in detection: {detail}",
                   "resync-unguarded": "original_value is re-synced from the already modified values while value modifiers stay on the item: 'a|base64: foo' is written encoded and encoded again on load"}[kind]
            r.violation("C06.R2", q, detail or "apply_detection: no disable_conversion_to_plain()", msg, f.loc)
        else:
            r.ok("C06.R2", q, f"protocol: {kind}{' (' + detail + ')' if detail else ''}", f.loc)
    n_stores = 0
    for f in funcs:
        for n in walk_no_nested(f.node):
            store = None  # (kind, receiver expr, node)
            if isinstance(n, (ast.Assign, ast.AugAssign, ast.AnnAssign)):
                tgts = n.targets if isinstance(n, ast.Assign) else [n.target]
                for t in tgts:
                    if isinstance(t, ast.Attribute) and t.attr == "value" and _item_typed(ctx, f, t.value):
                        store = ("in-place" if isinstance(n, ast.AugAssign) else "rebind", t.value, n)
                    elif isinstance(t, ast.Subscript) and isinstance(t.value, ast.Attribute) and t.value.attr == "value" and _item_typed(ctx, f, t.value.value):
                        store = ("in-place", t.value.value, n)
            elif isinstance(n, ast.Expr) and isinstance(n.value, ast.Call) and isinstance(n.value.func, ast.Attribute) and n.value.func.attr in INPLACE_METHODS \
                    and isinstance(n.value.func.value, ast.Attribute) and n.value.func.value.attr == "value" and _item_typed(ctx, f, n.value.func.value.value):
                store = ("in-place", n.value.func.value.value, n)
            elif isinstance(n, ast.Delete):
                for t in n.targets:
                    if isinstance(t, ast.Subscript) and isinstance(t.value, ast.Attribute) and t.value.attr == "value" and _item_typed(ctx, f, t.value.value):
                        store = ("in-place", t.value.value, n)
            if store is None:
                continue
            n_stores += 1
            kind, recv, node = store
            loc = f"{f.module.relpath}:{node.lineno}"
            if f.cls is None or not prog.is_subclass(f.cls.qual, DIT):
                r.violation("C06.R2", f.qual, stmt_head(node), "values of a detection item are changed outside a detection item transformation: nothing voids or re-syncs original_value", loc)
                continue
            bad = []
            seen = set()
            for cq in prog.subclasses(f.cls.qual):
                if prog.lookup_method(cq, f.name) is not f:
                    continue  # overridden: the store does not run for this class
                m = prog.lookup_method(cq, "apply_detection")
                if m is None or m.qual in seen:
                    continue
                seen.add(m.qual)
                pk, pd = proto_by_class[cq]
                if pk in ("unconditional", "resync-guarded"):
                    continue
                if pk == "identity" and kind == "rebind":
                    continue
                bad.append((m.qual, pk, pd))
            if bad:
                mq, pk, pd = bad[0]
                why = ("the list object is changed in place, so the identity test " + pd + " of " + mq + " does not see the change and the item keeps its stale original values: to_dict() writes the values from before the transformation instead of failing"
                       if pk == "identity" else f"{mq} ({pk}) does not void the item")
                r.violation("C06.R2", f.qual, stmt_head(node), why, loc)
            else:
                r.ok("C06.R2", f.qual, f"{kind} store `{stmt_head(node, 60)}` covered by {sorted(seen)}", loc)
    # cloned items
    n_clones = 0
    for f in funcs:
        for n in walk_no_nested(f.node):
            if not (isinstance(n, ast.Assign) and isinstance(n.value, ast.Call) and isinstance(n.targets[0], ast.Name)):
                continue
            c = n.value
            cn = call_name(c)
            is_replace = cn in ("dataclasses.replace", "replace") and c.args and _item_typed(ctx, f, c.args[0])
            is_raw_ctor = cn.split(".")[-1] == "SigmaDetectionItem" and any(k.arg == "auto_modifiers" and isinstance(k.value, ast.Constant) and k.value.value is False for k in c.keywords)
            if not (is_replace or is_raw_ctor):
                continue
            n_clones += 1
            v = n.targets[0].id
            blk = _block_of(prog, n)
            after = blk[blk.index(n) + 1:] if blk and n in blk else []
            voided = any(isinstance(s, ast.Expr) and isinstance(s.value, ast.Call) and call_name(s.value) == f"{v}.disable_conversion_to_plain" for s in after)
            loc = f"{f.module.relpath}:{n.lineno}"
            if voided:
                r.ok("C06.R2", f.qual, f"clone `{stmt_head(n, 70)}` is voided in the same block", loc)
            else:
                r.violation("C06.R2", f.qual, stmt_head(n), "the cloned item takes the already modified values as original values (its __post_init__ copies value) while keeping the modifier list, and is not voided: to_dict() writes 'field|base64: <encoded>' which is encoded again on load", loc)
    r.note(f"C06.R2: {n_stores} value stores, {n_clones} clones, {len(protos)} apply_detection protocols")
    r.floor("C06.R2", 6)


def _block_of(prog, stmt: ast.AST) -> list[ast.stmt]:
    p = prog.parent(stmt)
    for fld in ("body", "orelse", "finalbody"):
        b = getattr(p, fld, None)
        if isinstance(b, list) and stmt in b:
            return b
    return []


# ---------------------------------------------------------------- R3

def r3_fail_not_lie(ctx) -> None:
    r, prog = ctx.r, ctx.prog
    r.rule("C06.R3", "failing rather than lying: SigmaDetectionItem.to_plain raises a Sigma error while original_value is None, before any read of it; disable_conversion_to_plain sets it to None; every non-plain type raises from to_plain (mixin first in the bases, no override); no writer catches the error")
    f = prog.func(ITEM + ".to_plain")
    reads = [n for n in walk_no_nested(f.node) if isinstance(n, ast.Attribute) and n.attr == "original_value" and isinstance(n.ctx, ast.Load)]
    guard_tests = [n for n in walk_no_nested(f.node) if isinstance(n, ast.If) and unparse(n.test) == "self.original_value is None"]
    if not guard_tests or not any(isinstance(s, ast.Raise) for s in guard_tests[0].body):
        r.violation("C06.R3", f.qual, "if self.original_value is None: raise", "to_plain() does not fail for a voided item", f.loc)
    else:
        exc = [s for s in guard_tests[0].body if isinstance(s, ast.Raise)][0]
        if "SigmaValueError" in unparse(exc.exc) or "Sigma" in unparse(exc.exc):
            r.ok("C06.R3", f.qual, f"voided item → {short(exc.exc, 50)}", f.loc)
        else:
            r.violation("C06.R3", f.qual, stmt_head(exc), "a voided item must fail with a Sigma error", f.loc)
        unguarded = []
        for n in reads:
            if prog.enclosing_stmt(n) is guard_tests[0] or n in ast.walk(guard_tests[0].test):
                continue
            ag = atomic_guards(guards_at(prog, f, n))
            if ("self.original_value is None", False) not in ag:
                unguarded.append(n)
        if unguarded:
            r.violation("C06.R3", f.qual, f"read of original_value at line {unguarded[0].lineno} not dominated by the None guard", "original values are read on a path where the item may be voided", f"{f.module.relpath}:{unguarded[0].lineno}")
        else:
            r.ok("C06.R3", f.qual, f"{len(reads) - 1} reads of original_value are dominated by the failing None guard", f.loc)
    d = prog.func(ITEM + ".disable_conversion_to_plain")
    if any(isinstance(n, ast.Assign) and unparse(n) == "self.original_value = None" for n in walk_no_nested(d.node)):
        r.ok("C06.R3", d.qual, "self.original_value = None", d.loc)
    else:
        r.violation("C06.R3", d.qual, "self.original_value = None", "voiding does not reset original_value", d.loc)
    mixin = "sigma.types.NoPlainConversionMixin"
    mf = prog.func(mixin + ".to_plain")
    if any(isinstance(n, ast.Raise) and "SigmaValueError" in unparse(n) for n in walk_no_nested(mf.node)):
        r.ok("C06.R3", mf.qual, "raises SigmaValueError", mf.loc)
    else:
        r.violation("C06.R3", mf.qual, "raise SigmaValueError", "non-plain types must fail in to_plain()", mf.loc)
    subs = [c for c in prog.subclasses(mixin, strict=True)]
    for cq in subs:
        ci = prog.cls(cq)
        m = prog.lookup_method(cq, "to_plain")
        if m is not mf:
            r.violation("C06.R3", cq, f"to_plain resolves to {m.qual if m else None}", "a type declared non-plain has another to_plain() first in its MRO (mixin after SigmaType, or an override) and writes a value", f"{ci.module.relpath}:{ci.node.lineno}")
        else:
            r.ok("C06.R3", cq, "to_plain → NoPlainConversionMixin.to_plain", f"{ci.module.relpath}:{ci.node.lineno}")
    if len(subs) < 5:
        raise AnalysisError("fewer than 5 non-plain types found")
    # no swallowing handler in writers
    nw = 0
    for q, wf in sorted(prog.funcs.items()):
        if wf.name not in ("to_dict", "to_plain") or not wf.module.name.startswith(WRITER_MODULES):
            continue
        nw += 1
        for n in walk_no_nested(wf.node):
            if isinstance(n, ast.ExceptHandler):
                names = unparse(n.type) if n.type is not None else "<bare>"
                reraises = any(isinstance(x, ast.Raise) for x in ast.walk(n))
                if not reraises and any(k in names for k in ("<bare>", "Exception", "SigmaError", "SigmaValueError")):
                    r.violation("C06.R3", q, f"except {names}", "a writer catches the error that signals an unfaithful plain form and goes on", f"{wf.module.relpath}:{n.lineno}")
    r.ok("C06.R3", "writers", f"{nw} to_dict/to_plain functions: no handler swallows the conversion error")
    r.floor("C06.R3", 10)


# ---------------------------------------------------------------- R4

def r4_live_state(ctx) -> None:
    r, prog = ctx.r, ctx.prog
    r.rule("C06.R4", "writers read the live state: every attribute that pipeline code stores on a serialised object (rule, log source, detections, detection, detection item, condition, correlation parts) is an attribute some writer reads on that class — not a copy taken at load time")
    serial_roots = ["sigma.rule.base.SigmaRuleBase", "sigma.rule.logsource.SigmaLogSource", "sigma.rule.detection.SigmaDetections", DET, ITEM,
                    "sigma.conditions.SigmaCondition", "sigma.correlations.SigmaCorrelationCondition", "sigma.correlations.SigmaCorrelationFieldAlias",
                    "sigma.correlations.SigmaCorrelationFieldAliases", "sigma.correlations.SigmaCorrelationTimespan"]
    serial = {c for root in serial_roots for c in prog.subclasses(root)}
    read: set[tuple[str, str]] = set()
    roots = [q for q, wf in prog.funcs.items() if wf.name in ("to_dict", "to_plain") and wf.module.name.startswith(WRITER_MODULES)]
    # the writers and the helpers they call (a helper may read the attribute for them)
    writer_funcs = sorted(q for q in ctx.cg.reachable(roots) if q in prog.funcs and prog.funcs[q].module.name.startswith(WRITER_MODULES))
    for q in writer_funcs:
        wf = prog.funcs[q]
        if wf.name not in ("to_dict", "to_plain") and not wf.name.startswith("_"):
            continue
        loop_consts: dict[str, list[str]] = {}
        for n in ast.walk(wf.node):
            if isinstance(n, (ast.For, ast.comprehension)) and isinstance(n.target, ast.Name):
                cs = _const_strs(n.iter)
                if cs is not None:  # the same loop variable may serve several loops: all their constants
                    loop_consts[n.target.id] = loop_consts.get(n.target.id, []) + [c_ for c_ in cs if c_ not in loop_consts.get(n.target.id, [])]
        for n in ast.walk(wf.node):
            if isinstance(n, ast.Attribute) and isinstance(n.ctx, ast.Load):
                for c in ctx.types.receiver_classes(wf.module, n) or ([wf.cls.qual] if isinstance(n.value, ast.Name) and n.value.id == "self" and wf.cls else []):
                    read.add((c, n.attr))
            elif isinstance(n, ast.Call) and call_name(n) == "self.__getattribute__" and n.args and wf.cls:
                a = n.args[0]
                names = [a.value] if isinstance(a, ast.Constant) else loop_consts.get(a.id, []) if isinstance(a, ast.Name) else []
                for nm in names:
                    read.add((wf.cls.qual, nm))
    # … and what the interpreted writers read (sa.tabulate: to_dict on an object with every attribute present) — this sees
    # reads through getattr(self, name) with names from tables, generators and helpers
    from . import c06_keys as K4
    for cq4 in sorted(serial):
        ci4 = prog.classes.get(cq4)
        if ci4 is None or prog.lookup_method(cq4, "to_dict") is None:
            continue
        for attr4 in K4.writer_reads(ctx, cq4):
            read.add((cq4, attr4))
    n_stores = 0
    for f in prog.functions_in("sigma.processing"):
        for n in walk_no_nested(f.node):
            tgts: list[ast.AST] = []
            if isinstance(n, ast.Assign):
                tgts = list(n.targets)
            elif isinstance(n, (ast.AugAssign, ast.AnnAssign)):
                tgts = [n.target]
            for t in tgts:
                attr_node = t if isinstance(t, ast.Attribute) else t.value if isinstance(t, ast.Subscript) and isinstance(t.value, ast.Attribute) else None
                if attr_node is None:
                    continue
                classes = [c for c in ctx.types.class_names(f.module, attr_node.value) if c in serial]
                if not classes or attr_node.attr in BOOKKEEPING or attr_node.attr.startswith("_"):
                    continue
                n_stores += 1
                loc = f"{f.module.relpath}:{n.lineno}"
                attr = attr_node.attr
                if attr == "value" and any(c == ITEM or prog.is_subclass(c, ITEM) for c in classes):
                    r.ok("C06.R4", f.qual, f"`{stmt_head(n, 60)}`: values are written from original_value, kept honest by C06.R2", loc)
                    continue
                if attr == "original_value":
                    r.ok("C06.R4", f.qual, f"`{stmt_head(n, 60)}`: re-sync, checked by C06.R2", loc)
                    continue
                def related(a: str, b: str) -> bool:
                    return a == b or (a in prog.classes and b in prog.mro(a)) or (b in prog.classes and a in prog.mro(b))
                missing = [c for c in classes if not any(at == attr and related(rc, c) for rc, at in read)]
                if missing:
                    r.violation("C06.R4", f.qual, stmt_head(n), f"pipeline code stores {missing[0].rsplit('.', 1)[-1]}.{attr}, but no writer reads that attribute: to_dict() writes the state from before the transformation (a stale copy) without failing", loc)
                else:
                    r.ok("C06.R4", f.qual, f"`{stmt_head(n, 60)}`: {classes[0].rsplit('.', 1)[-1]}.{attr} is read by a writer", loc)
    r.note(f"C06.R4: {len(read)} (class, attribute) pairs read by writers; {n_stores} stores in pipeline code")
    r.floor("C06.R4", 8)


# ---------------------------------------------------------------- R5

class _SS:
    def __init__(self, i: int): self.i = i
    def to_plain(self, regex: bool = False) -> str: return "R" if regex else "P"


class _OT:
    def __init__(self, i: int): self.i = i
    def to_plain(self) -> str: return "P"


class SigmaRegularExpressionModifier:  # stand-in with the real class name (reverse mapping is keyed by __name__)
    pass


class SigmaContainsModifier:
    pass


class _Exc:
    def __getattr__(self, name: str) -> Any:
        def mk(*a: Any, **k: Any) -> str:
            return name
        return mk


class _ItemSelf:
    def __init__(self, orig: list[Any], mods: list[Any]):
        self.original_value, self.modifiers, self.field, self.source = orig, mods, "f", None
    def is_keyword(self) -> bool: return False
    def __str__(self) -> str: return "item"


def r5_tabulated_writers(ctx) -> None:
    r, prog = ctx.r, ctx.prog
    r.rule("C06.R5", "value and linking rendering, tabulated: SigmaDetectionItem.to_plain writes a string verbatim (regex form) iff the item has the re modifier, for every value count including 0 and lists; SigmaDetection.to_plain writes OR-linked items as a list of maps, AND-linked items as one map, and fails for linkings a data structure cannot express")
    from ..tabulate import Proxy, call_method
    f = prog.func(ITEM + ".to_plain")
    wrong: list[str] = []
    n = 0
    for remod in (False, True):
        for kinds in ([], ["S"], ["O"], ["S", "S"], ["S", "O"], ["O", "S", "S"]):
            mods = [SigmaRegularExpressionModifier] if remod else [SigmaContainsModifier]
            orig = [(_SS(i) if k == "S" else _OT(i)) for i, k in enumerate(kinds)]
            env = {"SigmaString": _SS, "SigmaRegularExpressionModifier": SigmaRegularExpressionModifier,
                   "reverse_modifier_mapping": {"SigmaRegularExpressionModifier": "re", "SigmaContainsModifier": "contains"},
                   "sigma_exceptions": _Exc(), "cast": lambda t, v: v, "Any": Any}
            me = Proxy(prog, ITEM, env, {"original_value": orig, "modifiers": mods, "field": "f", "source": None, "is_keyword": (lambda: False)}, interp_kwargs={"max_steps": 5000})
            try:
                got = call_method(prog, ITEM, "to_plain", me, env, interp_kwargs={"max_steps": 5000})
            except Raised as e:
                got = f"<raises {e}>"
            vals = [("R" if (k == "S" and remod) else "P") for k in kinds]
            want = {("f|re" if remod else "f|contains"): (vals[0] if len(vals) == 1 else vals)}
            n += 1
            if got != want:
                wrong.append(f"re modifier={remod} values={kinds}: {got} instead of {want}")
    if wrong:
        r.violation("C06.R5", f.qual, f"plain value table: {wrong[0]}", f"{len(wrong)} of {n} tabulated cases deviate: regular expressions must be written verbatim (to_plain(True)) in single values and in lists alike, other values escaped, and every value count must be written", f.loc)
    else:
        r.ok("C06.R5", f.qual, f"{n} cases (re modifier x element classes x counts 0..3): strings verbatim iff re modifier, lists and single values alike", f.loc)
    # ---- SigmaDetection.to_plain
    g = prog.func(DET + ".to_plain")

    class AND: pass
    class OR: pass

    class _It:
        def __init__(self, v: Any): self.v = v
        def to_plain(self) -> Any: return self.v

    class _Det(_It):
        pass

    class _DetSelf:
        def __init__(self, items: list[Any], linking: Any):
            self.detection_items, self.item_linking, self.source = items, linking, None

    cases = [
        ("1 map item", [_It({"a": 1})], AND, {"a": 1}),
        ("2 map items AND", [_It({"a": 1}), _It({"b": 2})], AND, {"a": 1, "b": 2}),
        ("2 map items OR", [_It({"a": 1}), _It({"b": 2})], OR, [{"a": 1}, {"b": 2}]),
        ("3 map items OR", [_It({"a": 1}), _It({"b": 2}), _It({"c": 3})], OR, [{"a": 1}, {"b": 2}, {"c": 3}]),
        ("2 detections OR", [_Det([1]), _Det([2])], OR, [[1], [2]]),
        ("2 detections AND", [_Det([1]), _Det([2])], AND, "<raises>"),
        ("item + detection", [_It({"a": 1}), _Det([2])], AND, "<raises>"),
        ("map + keyword items", [_It({"a": 1}), _It("kw")], AND, "<raises>"),
        ("same key twice", [_It({"a": 1}), _It({"a": 2})], AND, {"a|all": [1, 2]}),
        ("same key, first value null", [_It({"a": None}), _It({"a": 1})], AND, {"a|all": [None, 1]}),
        ("same key, second value null", [_It({"a": 1}), _It({"a": None})], AND, {"a|all": [1, None]}),
        ("same all-key", [_It({"a|all": [1, 2]}), _It({"a|all": 3})], AND, {"a|all": [1, 2, 3]}),
        ("same all-key, first value null", [_It({"a|all": None}), _It({"a|all": 3})], AND, {"a|all": [None, 3]}),
        ("three items, two keys", [_It({"a": 1}), _It({"b": 2}), _It({"a": 3})], AND, {"b": 2, "a|all": [1, 3]}),
        # the negation of an item covers all of its values: not a=1 and not a=2 is not expressible as one a|neq item
        ("same negated key", [_It({"a|neq": 1}), _It({"a|neq": 2})], AND, "<raises>"),
        ("same negated all-key", [_It({"a|all|neq": [1, 2]}), _It({"a|all|neq": 3})], AND, "<raises>"),
        ("negated and plain key", [_It({"a|neq": 1}), _It({"a": 2})], AND, {"a|neq": 1, "a": 2}),
        # the values of one item are alternatives: (a=1 or a=2) and a=3 is not 'all of 1, 2, 3'
        ("same key, value list then single value", [_It({"a": [1, 2]}), _It({"a": 3})], AND, "<raises>"),
        ("same key, single value then value list", [_It({"a": 3}), _It({"a": [1, 2]})], AND, "<raises>"),
        ("same key, two value lists", [_It({"a": [1, 2]}), _It({"a": [3, 4]})], AND, "<raises>"),
        ("same key, one-element lists", [_It({"a": [1]}), _It({"a": [2]})], AND, {"a|all": [1, 2]}),
    ]
    wrong = []
    for name, items, linking, want in cases:
        env = {"SigmaDetection": _Det, "SigmaDetectionItem": _It, "ConditionAND": AND, "ConditionOR": OR, "sigma_exceptions": _Exc(), "cast": lambda t, v: v, "Any": Any}
        me = Proxy(prog, DET, env, {"detection_items": items, "item_linking": linking, "source": None}, interp_kwargs={"max_steps": 5000})
        try:
            got = call_method(prog, DET, "to_plain", me, env, interp_kwargs={"max_steps": 5000})
        except Raised:
            got = "<raises>"
        if got != want:
            wrong.append(f"{name}: {got} instead of {want}")
    if wrong:
        r.violation("C06.R5", g.qual, f"linking table: {wrong[0]}", f"{len(wrong)} of {len(cases)} tabulated cases deviate: one map means AND and a list means OR when the plain form is loaded, so OR-linked items must be a list of maps and AND-linked nested detections cannot be written", g.loc)
    else:
        r.ok("C06.R5", g.qual, f"{len(cases)} cases (item kind x linking x count): the plain form expresses the linking or fails", g.loc)
    # conditions come from the parsed conditions (the objects condition transformations change)
    h = prog.func("sigma.rule.detection.SigmaDetections.to_dict")
    import types as _types5
    from ..tabulate import Proxy as _P5, call_method as _cm5, Raised as _R5
    SD5 = "sigma.rule.detection.SigmaDetections"
    outs5 = {}
    for n5 in (1, 2):
        me5 = _P5(prog, SD5, {}, {"detections": {}, "condition": ["as loaded"] * n5, "parsed_condition": [_types5.SimpleNamespace(condition=f"live {i}") for i in range(n5)], "source": None}, interp_kwargs={"max_steps": 4000})
        try:
            d5 = _cm5(prog, SD5, "to_dict", me5, {}, interp_kwargs={"max_steps": 4000})
            outs5[n5] = d5.get("condition") if isinstance(d5, dict) else repr(d5)
        except _R5 as ex:
            outs5[n5] = f"raises {ex}"
    if outs5 == {1: "live 0", 2: ["live 0", "live 1"]}:
        r.ok("C06.R5", h.qual, "conditions are written from parsed_condition (one as text, several as a list; interpreted)", h.loc)
    else:
        r.violation("C06.R5", h.qual, "conditions = [cond.condition for cond in self.parsed_condition]", f"the written conditions are not those of the parsed conditions (the objects condition transformations change): {outs5}", h.loc)
    r.floor("C06.R5", 2)
