"""C01 — converted query is logically equivalent to the Sigma rule (structural clauses)."""
from __future__ import annotations

import ast
from typing import Any, Optional

from ..prog import AnalysisError, FuncInfo, call_name, short, stmt_head, unparse, walk_no_nested
from ..util import assignments_to, atomic_guards, cfg_of, guards_at
from . import c15

B = "sigma.conversion.base.Backend"
TQ = "sigma.conversion.base.TextQueryBackend"
TYPES = "sigma.types"


def run(ctx) -> None:
    r = ctx.r
    r.explanation = (
        "Structural necessary conditions of query/rule equivalence decided on the source of the converter: totality and "
        "non-shadowing of the three class dispatchers against the SigmaType hierarchy, agreement of the in-list shortcut with the "
        "per-value dispatch, that every handler which synthesises an OR is known to the grouping mechanism, the grouping "
        "discipline of the n-ary and NOT converters (guards extracted from the CFG), that a NOT is never dropped except in the "
        "declared not-equals mode, the save/swap/restore pairing of the swapped templates, guard–slice–template agreement of the "
        "startswith/endswith/contains shortcuts and their case-sensitive siblings, escaping of every field name handed to a "
        "template, the preconditions of the in-list form, operator/token pairing and the linking constants of detections "
        "(map=AND, list=OR, value list=OR, 'all'=AND, negation = exactly one NOT with parent links). Whether the emitted text, "
        "parsed by the target language, denotes the rule's boolean function is not decided.")
    r1_dispatch(ctx)
    r2_shortcut_vs_dispatch(ctx)
    r3_implicit_operators(ctx)
    r4_grouping(ctx)
    r5_negation_not_dropped(ctx)
    r.rule("C01.R6", "every class template swapped for negated rendering is saved before, swapped inside try and restored in finally; yield inside the try")
    c15.r4_class_attr_writes(ctx, "C01.R6")
    r7_string_shortcuts(ctx)
    r8_field_escaping(ctx)
    r9_in_list(ctx)
    r10_tokens(ctx)
    r11_linking(ctx)
    r14_parent_links_per_reference(ctx)
    # the condition tree that is converted belongs to this rule alone (shared with C02.R5/C15.R2)
    r.rule("C01.R12", "the cached condition parse is deep-copied before postprocessing writes this rule's detections into it")
    before = len(r.obligations)
    c15.r2_cache_copies(ctx)
    for o in r.obligations[before:]:
        o["rule"] = "C01.R12"
    for f_ in r.findings:
        if f_.rule == "C15.R2":
            f_.rule = "C01.R12"
    r.rule_counts["C01.R12"] = r.rule_counts.pop("C15.R2", 0)
    r.rule_text.pop("C15.R2", None)


# ------------------------------------------------------------------------------------------ R1
def _type_standins(ctx) -> dict[str, type]:
    """One stand-in class per class of sigma.types / sigma.conditions, with the inheritance of the source (bare names)."""
    prog = ctx.prog
    if getattr(ctx, "_c01_type_standins", None) is not None:
        return ctx._c01_type_standins
    out: dict[str, type] = {}
    from .c06_keys import U

    def _any_attr(self_, k):
        if k.startswith("__") and k.endswith("__"):
            raise AttributeError(k)
        return U(k)
    members = {"__init__": lambda self_, *a, **k: None, "__getattr__": _any_attr}

    def build(q: str) -> type:
        bare = q.rsplit(".", 1)[-1]
        if bare in out:
            return out[bare]
        c = prog.classes[q]
        bases = []
        for bq in c.bases if hasattr(c, "bases") else []:
            if bq in prog.classes and bq.startswith(("sigma.types.", "sigma.conditions.")):
                bases.append(build(bq))
        if not bases:
            for bq in list(prog.mro(q))[1:2]:
                if bq in prog.classes and bq.startswith(("sigma.types.", "sigma.conditions.")):
                    bases.append(build(bq))
        try:
            out[bare] = type(bare, tuple(bases) or (object,), dict(members))
        except TypeError:  # inconsistent MRO of the stand-ins: the linearised bases of the source
            lin = [build(bq) for bq in list(prog.mro(q))[1:] if bq in prog.classes and bq.startswith(("sigma.types.", "sigma.conditions."))]
            out[bare] = type(bare, tuple(lin[:1]) or (object,), dict(members))
        return out[bare]
    for q in sorted(prog.classes):
        if q.startswith(("sigma.types.", "sigma.conditions.")) and q.count(".") == 2:
            build(q)
    ctx._c01_type_standins = out
    return out


def dispatch_outcomes(ctx, fq: str, subjects: dict[str, Any], attr: Optional[str] = "value") -> dict[str, str]:
    """The dispatcher ``fq`` interpreted (sa.tabulate, Proxy) once per subject: every other convert_* method of the backend is
    a recorder. → subject name → 'self.<method reached first>' | 'raise <exception class>' | 'return <value>'."""
    import types as _types
    from ..tabulate import Proxy, call_method, Raised
    prog = ctx.prog
    f = prog.func(fq)
    cq = f.cls.qual
    env = dict(_type_standins(ctx))
    class SigmaError(Exception):
        def __init__(self, *a, **k): super().__init__(*a)
    for nm in ("SigmaValueError", "SigmaTypeError", "SigmaConversionError", "SigmaFeatureNotSupportedByBackendError"):
        env[nm] = type(nm, (SigmaError,), {})
    env["SigmaError"] = SigmaError
    IK = {"max_steps": 6000, "behaviours": (SigmaError, TypeError, NotImplementedError)}
    methods = {mn for q in prog.mro(cq) if (c := prog.classes.get(q)) is not None for mn in c.methods if (mn.startswith("convert_") or mn.startswith("decide_")) and mn != f.name}
    out: dict[str, str] = {}
    for name, subj in subjects.items():
        reached: list[str] = []
        def rec(mn):
            def fn_(*a, **k):
                reached.append(mn)
                return False if mn.startswith("decide_") else f"<{mn}>"
            return fn_
        attrs = {mn: rec(mn) for mn in methods}
        me = Proxy(prog, cq, env, attrs, interp_kwargs=IK)
        arg = _types.SimpleNamespace(**{attr: subj, "field": "f", "source": None, "parent": None}) if attr else subj
        try:
            ret = call_method(prog, cq, f.name, me, env, arg, object(), interp_kwargs=IK)
            handlers = [m_ for m_ in reached if not m_.startswith("decide_")]
            out[name] = ("self." + handlers[0]) if handlers else f"return {ret!r}"
        except Raised as ex:
            nm = str(ex).split("(")[0].strip().split(".")[-1]
            out[name] = "raise " + nm
    return out


def dispatch_map(ctx, fq: str) -> tuple[dict[str, str], Optional[str]]:
    """concrete SigmaType subclass (bare name) -> handler an instance of it is dispatched to; plus what happens to a value of
    no known type (the default action)."""
    prog = ctx.prog
    cache = ctx.__dict__.setdefault("_c01_dispatch", {})
    if fq in cache:
        return cache[fq]
    st = _type_standins(ctx)
    concrete = [c.rsplit(".", 1)[-1] for c in prog.subclasses(TYPES + ".SigmaType", strict=True) if c.startswith(TYPES + ".")]
    subjects = {b: st[b]() for b in concrete if b in st}
    subjects["<a value of no Sigma type>"] = object()
    res = dispatch_outcomes(ctx, fq, subjects)
    default = res.pop("<a value of no Sigma type>")
    out = {t: (h if not (h == default and h.startswith("raise") and not h.startswith("raise Sigma")) else "default: " + default) for t, h in res.items()}
    cache[fq] = (out, default)
    return cache[fq]


def r1_dispatch(ctx) -> None:
    r, prog = ctx.r, ctx.prog
    r.rule("C01.R1", "dispatch totality and order: every concrete SigmaType reaches a handler in the field-bound dispatcher; every handler of the dispatcher is reached by some type (a case behind the case of its base class would be dead); in the keyword dispatcher a type either has its own handler/explicit Sigma error or the default raises a Sigma error; the node dispatcher covers OR/AND/NOT/field=value/value/None — all three dispatchers interpreted once per class of the hierarchy")
    mixins = {"NoPlainConversionMixin", "SigmaType"}
    fmap, fdef = dispatch_map(ctx, B + ".convert_condition_field_eq_val")
    vmap, vdef = dispatch_map(ctx, B + ".convert_condition_val")
    for fq, mp, prefix in ((B + ".convert_condition_field_eq_val", fmap, ("convert_condition_field_eq_", "convert_condition_field_compare_")), (B + ".convert_condition_val", vmap, ("convert_condition_val_",))):
        f = prog.func(fq)
        reached = {h[5:] for h in mp.values() if h.startswith("self.")}
        # handlers the dispatcher names (as attribute or text) but no type reaches: a shadowed case
        named = {n.attr for n in ast.walk(f.node) if isinstance(n, ast.Attribute) and n.attr.startswith(prefix)} | \
                {x.value for n in ast.walk(f.cls.node) for x in ast.walk(n) if isinstance(x, ast.Constant) and isinstance(x.value, str) and x.value.startswith(prefix) and prog.lookup_method(f.cls.qual, x.value) is not None and n is not None and False}
        tbl_names = set()
        for st_ in f.cls.node.body:
            if isinstance(st_, (ast.Assign, ast.AnnAssign)) and getattr(st_, "value", None) is not None:
                tname = (st_.targets[0] if isinstance(st_, ast.Assign) else st_.target)
                if isinstance(tname, ast.Name) and any(isinstance(x, ast.Attribute) and x.attr == tname.id for x in ast.walk(f.node)):
                    tbl_names |= {x.value for x in ast.walk(st_.value) if isinstance(x, ast.Constant) and isinstance(x.value, str) and x.value.startswith(prefix)}
        dead = sorted((named | tbl_names) - reached - {f.name})
        if dead:
            r.violation("C01.R1", fq, f"handler {dead[0]} is never reached", f"no value type is dispatched to {dead[0]} although the dispatcher names it: its case follows the case of a base class (or its class test can never hold), so the values it was written for are converted by another handler (e.g. case-sensitive strings as case-insensitive ones)", f.loc)
        else:
            r.ok("C01.R1", fq, f"every handler the dispatcher names is reached by some value type ({len(reached)} handlers): no case is shadowed by the case of a base class", f.loc)
    for t, h in sorted(fmap.items()):
        if t in mixins or t.endswith("Mixin"):
            continue
        if h.startswith("default") or h.startswith("raise"):
            r.violation("C01.R1", B + ".convert_condition_field_eq_val", f"{t}: {h}", f"value type {t} has no case in the field-bound dispatcher", "")
        else:
            r.ok("C01.R1", B + ".convert_condition_field_eq_val", f"{t} → {h.replace('self.', '')}")
    for t, h in sorted(vmap.items()):
        if t in mixins or t.endswith("Mixin"):
            continue
        fh = fmap.get(t, "")
        if h.startswith("default"):
            if vdef and vdef.startswith("raise Sigma"):
                r.ok("C01.R1", B + ".convert_condition_val", f"{t} → default: {vdef} (a Sigma error)")
            else:
                r.violation("C01.R1", B + ".convert_condition_val", f"{t}: {h}", f"a keyword value of type {t} ends in a non-Sigma exception ({vdef}) instead of a query or a Sigma error")
        else:
            # (c) agreement: a subclass the field dispatcher treats specially must not ride on its base class's keyword handler
            base_same = [b for b, bh in vmap.items() if b != t and bh == h and prog.is_subclass(f"{TYPES}.{t}", f"{TYPES}.{b}")]
            fbase = [b for b in base_same if fmap.get(b) != fh]
            if fbase and not h.startswith("raise"):
                r.violation("C01.R1", B + ".convert_condition_val", f"{t} → {h} (case of {fbase[0]})",
                            f"{t} has a handler of its own when bound to a field ({fh}) but as keyword it falls into the case of its base class {fbase[0]}: the match kind changes silently")
            else:
                r.ok("C01.R1", B + ".convert_condition_val", f"{t} → {h.replace('self.', '')}")
    f = prog.func(B + ".convert_condition")
    st = _type_standins(ctx)
    need = ["ConditionOR", "ConditionAND", "ConditionNOT", "ConditionFieldEqualsValueExpression", "ConditionValueExpression"]
    subjects = {n: st[n]() for n in need if n in st}
    subjects["None"] = None
    node = dispatch_outcomes(ctx, f.qual, subjects, attr=None)
    want = {"ConditionOR": "self.convert_condition_or", "ConditionAND": "self.convert_condition_and", "ConditionNOT": "self.convert_condition_not",
            "ConditionFieldEqualsValueExpression": "self.convert_condition_field_eq_val", "ConditionValueExpression": "self.convert_condition_val", "None": "return None"}
    if node == want:
        r.ok("C01.R1", f.qual, f"node dispatcher covers {need + ['None']}", f.loc)
    else:
        diff = {k: v for k, v in node.items() if want.get(k) != v}
        r.violation("C01.R1", f.qual, f"cases {diff}", f"node dispatcher must cover {need + ['None']}: expected {({k: want[k] for k in diff})}", f.loc)
    # OR/AND: the in-expression iff decide_… says so
    import types as _types
    from ..tabulate import Proxy, call_method, Raised
    for op in ("ConditionOR", "ConditionAND"):
        outs = {}
        for decide in (True, False):
            reached: list[str] = []
            attrs = {mn: (lambda *a, _m=mn, **k: (reached.append(_m), f"<{_m}>")[1]) for q in prog.mro(f.cls.qual) if (c := prog.classes.get(q)) is not None for mn in c.methods if mn.startswith("convert_") and mn != f.name}
            attrs["decide_convert_condition_as_in_expression"] = lambda *a, _d=decide, **k: _d
            me = Proxy(prog, f.cls.qual, dict(st), attrs, interp_kwargs={"max_steps": 4000})
            try:
                call_method(prog, f.cls.qual, f.name, me, dict(st), st[op](), object(), interp_kwargs={"max_steps": 4000})
                outs[decide] = reached[0] if reached else None
            except Raised as ex:
                outs[decide] = f"raises {ex}"
        want_o = {True: "convert_condition_as_in_expression", False: f"convert_condition_{'or' if op.endswith('OR') else 'and'}"}
        if outs == want_o:
            r.ok("C01.R1", f.qual, f"{op} → in-expression iff decide_…, else convert_condition_{'or' if op.endswith('OR') else 'and'}", f.loc)
        else:
            r.violation("C01.R1", f.qual, f"{op} → {outs}", f"expected {want_o}", f.loc)
    r.floor("C01.R1", 25)


# ------------------------------------------------------------------------------------------ R2
def r2_shortcut_vs_dispatch(ctx) -> None:
    r, prog = ctx.r, ctx.prog
    r.rule("C01.R2", "the in-list shortcut agrees with per-value dispatch: no class admitted by decide_convert_condition_as_in_expression has a subclass that the dispatcher sends to a different handler, unless that subclass is excluded")
    f = prog.func(B + ".decide_convert_condition_as_in_expression")
    fmap, _ = dispatch_map(ctx, B + ".convert_condition_field_eq_val")
    # the decision function interpreted (sa.tabulate, Proxy) once per class of the value hierarchy: an OR of two values of
    # that class on one field, with the feature and wildcards enabled — is the class admitted to the in-list form?
    from ..tabulate import Proxy as _P2, call_method as _cm2, Raised as _R2
    st2 = _type_standins(ctx)
    env2 = dict(st2)
    env2["cast"] = lambda t_, v_: v_
    concrete = [c.rsplit(".", 1)[-1] for c in prog.subclasses(TYPES + ".SigmaType", strict=True) if c.startswith(TYPES + ".")]
    admitted: list[str] = []
    excluded: list[str] = []
    FE2, OR2 = st2["ConditionFieldEqualsValueExpression"], st2["ConditionOR"]
    for t in sorted(concrete):
        if t not in st2 or t.endswith("Mixin"):
            continue
        def leaf():
            x = FE2()
            x.__dict__.update(field="f", value=st2[t]())
            x.value.__dict__["contains_special"] = lambda: False
            return x
        node = OR2()
        node.__dict__["args"] = [leaf(), leaf()]
        me2 = _P2(prog, B, env2, {"convert_or_as_in": True, "convert_and_as_in": True, "in_expressions_allow_wildcards": True}, interp_kwargs={"max_steps": 4000})
        try:
            ans = _cm2(prog, B, f.name, me2, env2, node, object(), interp_kwargs={"max_steps": 4000})
        except _R2 as ex:
            raise AnalysisError(f"{f.qual}: raises {ex} for values of class {t}")
        (admitted if ans is True else excluded).append(t)
    if not admitted:
        raise AnalysisError(f"{f.qual}: admitted value classes not found")
    plain_handlers = {fmap.get("SigmaString"), fmap.get("SigmaNumber")}
    for t in admitted:
        h = fmap.get(t, "")
        if h not in plain_handlers:
            base = next((b_ for b_ in ("SigmaString", "SigmaNumber") if prog.is_subclass(f"{TYPES}.{t}", f"{TYPES}.{b_}")), "SigmaString")
            r.violation("C01.R2", f.qual, f"isinstance(arg.value, ({', '.join(x for x in admitted if x in ('SigmaString', 'SigmaNumber'))})) admits {t}",
                        f"{t} is dispatched to {h} when converted on its own, but in a value list it is rendered by the in-expression like a plain {base}: the match kind (case sensitivity / timestamp part) is lost", f.loc)
    for t in excluded:
        if any(prog.is_subclass(f"{TYPES}.{t}", f"{TYPES}.{b_}") for b_ in admitted if b_ != t):
            r.ok("C01.R2", f.qual, f"{t} (own handler {fmap.get(t, '').replace('self.', '')}) is excluded from the in-list shortcut", f.loc)
    r.ok("C01.R2", f.qual, f"admitted {admitted} (interpreted per class), all converted by the plain string/number handlers when on their own", f.loc)
    r.floor("C01.R2", 2)


# ------------------------------------------------------------------------------------------ R3
def precedence_table(ctx) -> dict:
    """compare_precedence interpreted (sa.tabulate, Proxy): for three precedence tuples x outer operator x inner kind the
    answer must be rank(inner) <= rank(outer) with rank = position in the backend's own tuple, -1 for leaves and rule
    references, the rank of OR for a leaf holding an expansion and the rank of NOT for a not-exists leaf without explicit
    template. Returns {'wrong': [...], 'n': cases, 'ranked': {kind: operator the kind is ranked as}}; cached per run."""
    if getattr(ctx, "_c01_prec", None) is not None:
        return ctx._c01_prec
    from ..tabulate import Proxy, call_method, Raised
    prog = ctx.prog

    class ConditionItem: pass
    class ConditionNOT(ConditionItem): pass
    class ConditionAND(ConditionItem): pass
    class ConditionOR(ConditionItem): pass
    class CorrelationConditionItem: pass
    class CorrelationConditionNOT(CorrelationConditionItem): pass
    class CorrelationConditionAND(CorrelationConditionItem): pass
    class CorrelationConditionOR(CorrelationConditionItem): pass
    class SigmaRuleReference: pass
    class SigmaExpansion: pass
    class SigmaString: pass

    class SigmaExists:
        def __init__(self, v): self.v = v
        def __bool__(self): return self.v

    class ConditionFieldEqualsValueExpression:
        def __init__(self, value): self.field, self.value = "f", value

    class ConditionValueExpression:
        def __init__(self, value): self.value = value
    env = {k: v for k, v in locals().items() if isinstance(v, type)}
    ops = {"NOT": ConditionNOT, "AND": ConditionAND, "OR": ConditionOR}
    inner_kinds = {
        "NOT node": (lambda: ConditionNOT(), "NOT"), "AND node": (lambda: ConditionAND(), "AND"), "OR node": (lambda: ConditionOR(), "OR"),
        "correlation NOT": (lambda: CorrelationConditionNOT(), "NOT"), "correlation AND": (lambda: CorrelationConditionAND(), "AND"), "correlation OR": (lambda: CorrelationConditionOR(), "OR"),
        "field=string": (lambda: ConditionFieldEqualsValueExpression(SigmaString()), None), "value only": (lambda: ConditionValueExpression(SigmaString()), None),
        "rule reference": (lambda: SigmaRuleReference(), None), "None": (lambda: None, None),
        "field=expansion": (lambda: ConditionFieldEqualsValueExpression(SigmaExpansion()), "OR"), "value expansion": (lambda: ConditionValueExpression(SigmaExpansion()), "OR"),
        "field exists": (lambda: ConditionFieldEqualsValueExpression(SigmaExists(True)), None),
        "field not exists": (lambda: ConditionFieldEqualsValueExpression(SigmaExists(False)), "NOT*"),
    }
    wrong, n = [], 0
    IK = {"behaviours": (ValueError,), "max_steps": 4000}
    for prec in (("NOT", "AND", "OR"), ("AND", "OR", "NOT"), ("OR", "NOT", "AND")):
        for explicit in (False, True):
            me = Proxy(prog, TQ, env, {"precedence": tuple(ops[x] for x in prec), "parenthesize": False, "explicit_not_exists_expression": explicit}, interp_kwargs=IK)
            for outer_name in ("NOT", "AND", "OR", "cNOT", "cAND", "cOR"):
                outer = {"cNOT": CorrelationConditionNOT, "cAND": CorrelationConditionAND, "cOR": CorrelationConditionOR}.get(outer_name, ops.get(outer_name))()
                for kind, (mk, as_op) in inner_kinds.items():
                    n += 1
                    eff = as_op
                    if as_op == "NOT*":
                        eff = None if explicit else "NOT"
                    want = (prec.index(eff) if eff else -1) <= prec.index(outer_name.lstrip("c"))
                    try:
                        got = bool(call_method(prog, TQ, "compare_precedence", me, env, outer, mk(), interp_kwargs=IK))
                    except Raised as ex:
                        got = f"<raises {ex}>"
                    if got != want:
                        wrong.append(f"precedence {prec}, explicit not-exists template={explicit}: outer {outer_name}, inner {kind}: {got} instead of {want}")
    # parenthesize mode: everything but leaves and rule references is grouped
    me = Proxy(prog, TQ, env, {"precedence": (ConditionNOT, ConditionAND, ConditionOR), "parenthesize": True, "explicit_not_exists_expression": False}, interp_kwargs=IK)
    for kind in ("NOT node", "AND node", "OR node", "field=string", "value only", "rule reference"):
        n += 1
        want = kind in ("field=string", "value only", "rule reference")
        try:
            got = bool(call_method(prog, TQ, "compare_precedence", me, env, ConditionOR(), inner_kinds[kind][0](), interp_kwargs=IK))
        except Raised as ex:
            got = f"<raises {ex}>"
        if got != want:
            wrong.append(f"parenthesize mode: outer OR, inner {kind}: {got} instead of {want}")
    ctx._c01_prec = {"wrong": wrong, "n": n}
    return ctx._c01_prec



def _none_branch_raises(f: FuncInfo) -> bool:
    """`if self.group_expression is None:` refuses (raises) instead of passing the ungrouped text on"""
    ifs = [x for x in walk_no_nested(f.node) if isinstance(x, ast.If) and unparse(x.test).replace(" ", "") == "self.group_expressionisNone"]
    return bool(ifs) and all(isinstance(x.body[-1], ast.Raise) for x in ifs)


def r3_implicit_operators(ctx) -> None:
    r, prog = ctx.r, ctx.prog
    r.rule("C01.R3", "every handler that synthesises an OR/AND and converts it is known to the grouping mechanism: its value class is special-cased in compare_precedence with that operator, or the handler groups its own result according to the enclosing operator")
    cp = prog.func(TQ + ".compare_precedence")
    special = []
    for n in walk_no_nested(cp.node):
        if isinstance(n, ast.Call) and call_name(n) == "isinstance" and unparse(n.args[0]) == "inner.value":
            special += [unparse(e) for e in (n.args[1].elts if isinstance(n.args[1], ast.Tuple) else [n.args[1]])]
    n_found = 0
    for q, f in sorted(prog.funcs.items()):
        if not q.startswith(("sigma.conversion.base.", "sigma.backends.")) or f.name.startswith("convert_correlation") or f.name == "compare_precedence":
            continue
        for c in (x for x in walk_no_nested(f.node) if isinstance(x, ast.Call) and call_name(x) == "ConditionNOT"):
            # a NOT synthesised while converting a leaf (exists: false without explicit template)
            n_found += 1
            loc = f"{f.module.relpath}:{c.lineno}"
            vcls = "SigmaExists" if f.name.endswith("_exists") else None
            tbl = precedence_table(ctx)
            bad_ne = [w for w in tbl["wrong"] if "not exists" in w]
            if not bad_ne:
                r.ok("C01.R3", q, f"ConditionNOT(...) for {vcls}(False): compare_precedence ranks the not-exists leaf as NOT exactly when there is no explicit not-exists template (interpreted table)", loc)
            else:
                r.violation("C01.R3", q, short(prog.enclosing_stmt(c), 120),
                            f"this handler turns a leaf ({vcls}) into a NOT and converts it, but compare_precedence does not rank the leaf as NOT under the same condition ({bad_ne[0]}): with a precedence in which NOT does not bind tightest the enclosing AND/OR emits `not exists(a) and b`, which the target reads as not (exists(a) and b)", loc)
        for c in (x for x in walk_no_nested(f.node) if isinstance(x, ast.Call) and call_name(x) in ("ConditionOR", "ConditionAND")):
            n_found += 1
            loc = f"{f.module.relpath}:{c.lineno}"
            # which value class does this handler serve?
            vcls = None
            for g, p in atomic_guards(guards_at(prog, f, c)):
                pass
            casts = [unparse(x.args[0]) for x in walk_no_nested(f.node) if isinstance(x, ast.Call) and call_name(x) == "cast" and len(x.args) == 2 and unparse(x.args[1]) == "cond.value"]
            mc = [a for a in prog.ancestors(c) if isinstance(a, ast.match_case)]
            if mc and isinstance(mc[0].pattern, ast.MatchClass):
                vcls = unparse(mc[0].pattern.cls)
            elif casts:
                vcls = casts[0]
            elif f.name.endswith("_cidr"):
                vcls = "SigmaCIDRExpression"
            self_groups = "parent_chain_condition_classes" in unparse(f.node) and "self.group_expression.format" in unparse(f.node) \
                and not any(isinstance(x, ast.Return) and isinstance(x.value, ast.Call) and call_name(x.value).startswith("self.convert_condition") for x in walk_no_nested(f.node)
                            if getattr(x, "lineno", 0) > c.lineno)
            if vcls in special:
                r.ok("C01.R3", q, f"{call_name(c)}(...) for {vcls}: special-cased in compare_precedence", loc)
            elif f.name == "convert_condition_field_eq_val_cidr" and q.startswith(TQ + "."):
                # decided by interpreting the handler under every enclosing operator (shared with C18.R3)
                from .c18 import cidr_conversion_table
                gtbl = cidr_conversion_table(ctx)["grouping"]
                if not gtbl:
                    r.ok("C01.R3", q, f"{call_name(c)}(...) for {vcls}: handler groups its own result exactly when it is text, has several alternatives, was not folded into an in-expression and the enclosing operator binds tighter than OR (interpreted: 144 cases)", loc)
                else:
                    r.violation("C01.R3", q, f"grouping of the synthesised {call_name(c)[9:]}: {gtbl[0]}",
                                f"{len(gtbl)} interpreted cases deviate: only the decision actually taken for the synthesised condition tells whether it became one atomic in-expression — a configuration flag alone does not (wildcard patterns are not folded when in_expressions_allow_wildcards is off), so the alternatives are emitted ungrouped under AND/NOT", loc)
            elif self_groups:
                # the only admissible reasons not to group: a single alternative, the in-expression decision actually taken
                # for the synthesised operator, an enclosing operator that does not bind tighter, no group template
                syn = next((unparse(a.targets[0]) for a in walk_no_nested(f.node) if isinstance(a, ast.Assign) and a.value is c), None)
                grp = [a for a in walk_no_nested(f.node) if isinstance(a, ast.Assign) and isinstance(a.value, ast.Call) and call_name(a.value) == "self.group_expression.format"]
                odd = []
                for gst in grp:
                    for gtxt, pol in atomic_guards(guards_at(prog, f, gst)):
                        gt = gtxt.replace(" ", "")
                        allowed = (gt.startswith("isinstance(") or gt.startswith("isinstance(converted,str)") or gt.startswith("len(expanded)>") or "parent_chain" in gt or gt.startswith("len(enclosing)")
                                   or "self.precedence" in gt or gt.startswith("enclosing[0]in") or gt == "self.cidr_expressionisnotNone"
                                   or (gt == "self.group_expressionisNone" and pol is False and _none_branch_raises(f))
                                   or (syn is not None and gt == f"self.decide_convert_condition_as_in_expression({syn},state)" and pol is False))
                        if not allowed:
                            odd.append((gtxt, pol))
                if odd:
                    r.violation("C01.R3", q, f"grouping of the synthesised {call_name(c)[9:]} depends on {odd[0][0]}",
                                f"the handler skips grouping under {odd}: only the decision actually taken for the synthesised condition (decide_convert_condition_as_in_expression({syn}, state)) tells whether it became one atomic in-expression — a configuration flag alone does not (wildcard patterns are not folded when in_expressions_allow_wildcards is off), so the alternatives are emitted ungrouped under AND/NOT", loc)
                else:
                    r.ok("C01.R3", q, f"{call_name(c)}(...) for {vcls}: handler groups its own result by the enclosing operator's precedence", loc)
            else:
                r.violation("C01.R3", q, short(prog.enclosing_stmt(c), 120),
                            f"this handler turns a single value ({vcls}) into an {call_name(c)[9:]} of several conditions, but neither compare_precedence nor the handler accounts for it: under an enclosing AND/NOT the alternatives are emitted without grouping", loc)
    tbl = precedence_table(ctx)
    bad_exp = [w for w in tbl["wrong"] if "expansion" in w]
    if not bad_exp:
        r.ok("C01.R3", cp.qual, "expansion values are ranked as ConditionOR (interpreted table)", cp.loc)
    else:
        r.violation("C01.R3", cp.qual, f"compare_precedence: {bad_exp[0]}", "expansion values are not ranked with the precedence of OR", cp.loc)
    r.floor("C01.R3", 3)


# ------------------------------------------------------------------------------------------ R4
def r4_grouping(ctx) -> None:
    r, prog = ctx.r, ctx.prog
    r.rule("C01.R4", "grouping discipline: in the n-ary converters each child is converted directly iff compare_precedence(cond, child) and through convert_condition_group otherwise; NOT groups every child that is an operator or binds looser; the group function formats with group_expression or raises")
    # the n-ary converters, interpreted (sa.tabulate, Proxy; helper methods resolve from the source): children with a stand-in
    # compare_precedence answer, a direct and a group conversion; the result must hold every converted child in order, the
    # grouped form exactly for the children compare_precedence(cond, child) rejects, None/deferred children left out
    from ..tabulate import Proxy, call_method, Raised as _Raised

    class DeferredQueryExpression:
        pass

    class CorrelationConditionItem:
        def __init__(self, n: str = "", args: tuple = ()):
            self.n, self.args = n, list(args)

    class _Cond:
        def __init__(self, args): self.args = list(args)

    class _Leaf:
        def __init__(self, n: str): self.n = n

    dq = DeferredQueryExpression()
    for name in ("convert_condition_or", "convert_condition_and", "convert_extended_correlation_condition_or", "convert_extended_correlation_condition_and"):
        q = f"{TQ}.{name}"
        if not prog.has_func(q):
            continue
        f = prog.func(q)
        ext = "extended" in name
        tok = "OR" if name.endswith("_or") else "AND"
        problems: list[str] = []
        ncases = 0
        for sep, token in ((" ", tok), ("  ", tok), (" ", " ")):
            for scenario in ("mixed", "empty", "all skipped", "single grouped"):
                if ext:
                    mk = lambda n: CorrelationConditionItem(n)  # noqa: E731
                    kids = {"mixed": [(_Leaf("a"), True, "a"), (mk("b"), False, "b"), (mk("c"), True, "c"), (mk("d"), False, "d"), (_Leaf("e"), True, None), (_Leaf("g"), True, "g")],
                            "empty": [], "all skipped": [(_Leaf("x"), True, None)], "single grouped": [(mk("b"), False, "b")]}[scenario]
                    cond = CorrelationConditionItem("top", [k for k, _, _ in kids])
                else:
                    kids = {"mixed": [(_Leaf("a"), True, "a"), (_Leaf("b"), False, "b"), (_Leaf("c"), True, None), (_Leaf("d"), False, None), (_Leaf("e"), True, dq), (_Leaf("f"), False, dq), (_Leaf("g"), True, "g"), (_Leaf("h"), False, "h")],
                            "empty": [], "all skipped": [(_Leaf("x"), True, None), (_Leaf("y"), False, dq)], "single grouped": [(_Leaf("b"), False, "b")]}[scenario]
                    cond = _Cond([k for k, _, _ in kids])
                ncases += 1
                table = {id(k): (direct, text) for k, direct, text in kids}
                misuse: list[str] = []

                def compare_precedence(outer, inner, _c=cond, _t=table, _m=misuse):
                    if outer is not _c or id(inner) not in _t:
                        _m.append("compare_precedence is not asked about (cond, child)")
                        return True
                    return _t[id(inner)][0]

                def direct(arg, st, _t=table, _m=misuse):
                    if id(arg) not in _t:
                        _m.append("a non-child is converted")
                        return None
                    return _t[id(arg)][1]

                def group(arg, st, _t=table, _m=misuse):
                    v = direct(arg, st)
                    return f"({v})" if isinstance(v, str) else v

                attrs = {"token_separator": sep, "or_token": token, "and_token": token, "empty_or_expression": "<empty or>", "empty_and_expression": "<empty and>",
                         "compare_precedence": compare_precedence, "convert_condition": direct, "convert_condition_group": group,
                         "convert_extended_correlation_condition": direct, "convert_extended_correlation_condition_group": group}
                env = {"DeferredQueryExpression": DeferredQueryExpression, "CorrelationConditionItem": CorrelationConditionItem, "NotImplementedError": NotImplementedError, "TypeError": TypeError}
                me = Proxy(prog, TQ, env, attrs, interp_kwargs={"max_steps": 4000})
                parts = [(t if d else f"({t})") for _, d, t in kids if isinstance(t, str)]
                try:
                    got = call_method(prog, TQ, name, me, env, cond, "state" if not ext else "method", interp_kwargs={"max_steps": 4000})
                except _Raised as ex:
                    got = f"<raises {ex}>"
                if misuse:
                    problems.append(f"{scenario}: {misuse[0]}")
                    continue
                if not parts:
                    okv = (got in ("<empty or>", "<empty and>") and tok.lower() in got) if not ext else (got in ("", None))
                    if not okv:
                        problems.append(f"{scenario} (separator {sep!r}, token {token!r}): {got!r} instead of the empty-{tok} expression")
                    continue
                if not isinstance(got, str):
                    problems.append(f"{scenario} (separator {sep!r}, token {token!r}): {got!r} instead of the joined children {parts}")
                    continue
                # the converted children must appear in order, separated by text that holds the token and nothing else
                pos, seps, okc = 0, [], True
                for k, ptxt in enumerate(parts):
                    at = got.find(ptxt, pos)
                    if at < 0:
                        okc = False
                        break
                    seps.append(got[pos:at])
                    pos = at + len(ptxt)
                seps.append(got[pos:])
                if okc:
                    okc = seps[0].strip() == "" and seps[-1].strip() == "" and all(x.strip() == token.strip() for x in seps[1:-1])
                    if okc and not ext and token.strip():  # the documented joiner: separator + token + separator
                        okc = all(x == sep + token + sep for x in seps[1:-1]) and seps[0] == "" and seps[-1] == ""
                if not okc:
                    problems.append(f"{scenario} (separator {sep!r}, token {token!r}): {got!r} instead of {(' ' + token.strip() + ' ').join(parts)!r} (children in order; grouped exactly where compare_precedence(cond, child) is false; None and deferred children left out)")
        if problems:
            r.violation("C01.R4", q, f"{name}: {problems[0]}", f"{len(problems)} of {ncases} interpreted cases deviate: children must be converted directly exactly when compare_precedence(cond, child) holds and through the group function otherwise, every child in order (swapped branches, another test, a skipped or reordered child change which sub-expressions are parenthesised or present)", f.loc)
        else:
            r.ok("C01.R4", q, f"interpreted on {ncases} cases: direct conversion iff compare_precedence(cond, child), group otherwise; every child of cond.args in order; None/deferred children left out", f.loc)
    nt = prog.func(TQ + ".convert_condition_not")
    # NOT: interpreted (sa.tabulate, Proxy) on arguments of operator classes and on leaves, with a stand-in precedence answer:
    # the argument goes through the group function exactly if it is an operator or binds looser than NOT
    class _NLeaf:
        pass
    class ConditionNOT: pass
    class ConditionAND: pass
    class ConditionOR: pass
    bad_n = []
    for arg_cls, is_op in ((ConditionAND, True), (ConditionOR, True), (ConditionNOT, True), (_NLeaf, False)):
        for prec_ok in (True, False):
            calls_n: list = []
            argn = arg_cls.__new__(arg_cls)
            argn.__dict__.update(args=[], parent=None)
            condn = ConditionNOT.__new__(ConditionNOT)
            condn.__dict__.update(args=[argn], parent=None)
            envn = {"ConditionAND": ConditionAND, "ConditionOR": ConditionOR, "ConditionNOT": ConditionNOT, "DeferredQueryExpression": DeferredQueryExpression}
            men = Proxy(prog, TQ, envn, {"precedence": (ConditionNOT, ConditionAND, ConditionOR), "not_token": "NOT", "token_separator": " ", "convert_not_as_not_eq": False,
                                         "compare_precedence": lambda o_, i_, _p=prec_ok: _p,
                                         "convert_condition": lambda c_, s_: (calls_n.append("direct"), "ARG")[1],
                                         "convert_condition_group": lambda c_, s_: (calls_n.append("group"), "(ARG)")[1]}, interp_kwargs={"max_steps": 3000, "behaviours": (TypeError, NotImplementedError)})
            try:
                gotn = call_method(prog, TQ, "convert_condition_not", men, envn, condn, object(), interp_kwargs={"max_steps": 3000, "behaviours": (TypeError, NotImplementedError)})
            except _Raised as ex:
                gotn = f"raises {ex}"
            want_group = is_op or not prec_ok
            if calls_n != (["group"] if want_group else ["direct"]) or gotn != ("NOT (ARG)" if want_group else "NOT ARG"):
                bad_n.append(f"argument {arg_cls.__name__}{' (an operator)' if is_op else ''}, compare_precedence → {prec_ok}: {calls_n} → {gotn!r}")
    if not bad_n:
        r.ok("C01.R4", nt.qual, "NOT groups operator children and children that bind looser than NOT; others are converted directly (interpreted on 8 cases)", nt.loc)
    elif all("an operator" not in b_ for b_ in bad_n):
        r.violation("C01.R4", nt.qual, "if arg.__class__ in self.precedence: group",
                    f"NOT only groups AND/OR nodes: a child whose value converts into an OR of alternatives (expansion values) is negated as 'not a or b or c' — {bad_n[0]}", nt.loc)
    else:
        r.violation("C01.R4", nt.qual, "group under arg.__class__ in self.precedence or not self.compare_precedence(cond, arg)", f"expected the grouping test: {bad_n[0]}", nt.loc)
    gp = prog.func(TQ + ".convert_condition_group")
    # the group function, interpreted (sa.tabulate) on converted texts: every text gets the group, also one that already
    # starts and ends with the group delimiters — "(a or b) and (c or d)" is not a group
    from ..tabulate import Interp, Raised

    class _Def:
        pass

    deferred = _Def()
    cases = [("a or b", "(a or b)"), ("(a or b) and (c or d)", "((a or b) and (c or d))"), ("(a)", "((a))"), ("a", "(a)"), (None, None), (deferred, deferred)]
    wrong = []
    for expr, want in cases:
        me = type("B", (), {})()
        me.group_expression = "({expr})"
        me.convert_condition = lambda cond, state, _e=expr: _e
        it = Interp({"self": me, "cond": object(), "state": object(), "DeferredQueryExpression": _Def, "NotImplementedError": NotImplementedError}, max_steps=500)
        try:
            got = it.call(gp.node.body)
        except Raised as ex:
            got = f"<raises {ex}>"
        if got is not want and got != want:
            wrong.append(f"{expr!r} → {got!r} (a group is {want!r})")
    me = type("B", (), {})()
    me.group_expression = None
    me.convert_condition = lambda cond, state: "a or b"
    try:
        got = Interp({"self": me, "cond": object(), "state": object(), "DeferredQueryExpression": _Def, "NotImplementedError": NotImplementedError}, max_steps=500).call(gp.node.body)
        wrong.append(f"without group_expression 'a or b' → {got!r} instead of an error")
    except Raised:
        pass
    if wrong:
        r.violation("C01.R4", gp.qual, f"convert_condition_group: {wrong[0]}", f"{len(wrong)} of {len(cases) + 1} interpreted cases deviate: the caller asked for a group because the operator around it binds tighter (or is a NOT); returning the text ungrouped — also when it merely starts and ends with the group delimiters — changes the boolean structure: not ((a or b) and (c or d)) becomes not (a or b) and (c or d)", gp.loc)
    else:
        r.ok("C01.R4", gp.qual, f"group function interpreted on {len(cases) + 1} cases: every converted text is wrapped, None/deferred pass through, a missing template raises", gp.loc)
    r.floor("C01.R4", 6)


# ------------------------------------------------------------------------------------------ R5
def r5_negation_not_dropped(ctx) -> None:
    r, prog = ctx.r, ctx.prog
    r.rule("C01.R5", "a NOT is never dropped: every value returned by convert_condition_not is not_token + … / expr.negate() / None, except in the declared not-equals mode, which is sound only if every template reachable from the negated leaf is swapped and the ancestor test counts negations")
    nt = prog.func(TQ + ".convert_condition_not")
    # convert_condition_not interpreted (sa.tabulate, Proxy) over (kind of child) x (what the child converts into) x not-equals mode
    from ..tabulate import Proxy, call_method, Raised

    class ConditionNOT:
        def __init__(self, args): self.args = list(args)
    class ConditionAND(ConditionNOT): pass
    class ConditionOR(ConditionNOT): pass
    class _Leaf: pass
    class DeferredQueryExpression:
        def negate(self):
            self.negated = getattr(self, "negated", 0) + 1
            return self

    envn = {"ConditionNOT": ConditionNOT, "ConditionAND": ConditionAND, "ConditionOR": ConditionOR, "DeferredQueryExpression": DeferredQueryExpression, "NotImplementedError": NotImplementedError, "TypeError": TypeError}
    problems, dropped_group = [], []
    for noteq in (False, True):
        for kind in ("operator child", "leaf ranked as OR", "plain leaf"):
            for conv in ("text", "deferred", "nothing"):
                child = ConditionAND([]) if kind == "operator child" else _Leaf()
                dq = DeferredQueryExpression()
                val = {"text": "X", "deferred": dq, "nothing": None}[conv]
                me = Proxy(prog, TQ, envn, {"precedence": (ConditionNOT, ConditionAND, ConditionOR), "compare_precedence": (lambda o, i_, _k=kind: _k == "plain leaf"),
                                            "convert_condition_group": (lambda a, st, _v=val: (f"({_v})" if isinstance(_v, str) else _v)), "convert_condition": (lambda a, st, _v=val: _v),
                                            "not_token": "NOT", "token_separator": " ", "convert_not_as_not_eq": noteq}, interp_kwargs={"max_steps": 4000, "behaviours": (TypeError,)})
                try:
                    got = call_method(prog, TQ, "convert_condition_not", me, envn, ConditionNOT([child]), "state", interp_kwargs={"max_steps": 4000, "behaviours": (TypeError,)})
                except Raised as ex:
                    got = f"<raises {ex}>"
                case = f"{kind} converting into {conv}, not-equals mode {noteq}"
                grouped = kind != "plain leaf"
                if conv == "nothing":
                    # a leaf that converts into nothing has no negation: nothing, or the refusal the operator gives for a child without text
                    okc = got is None or (not grouped and isinstance(got, str) and "NotImplementedError" in got) or (not grouped and noteq and got is None)
                elif conv == "deferred":
                    okc = got is dq and (grouped or getattr(dq, "negated", 0) == 1)
                elif not noteq:
                    okc = got == ("NOT (X)" if grouped else "NOT X")
                elif grouped:
                    okc = True
                    if got == "(X)":
                        dropped_group.append(case)
                    elif got != "NOT (X)" and not (isinstance(got, str) and "X" in got):
                        okc = False
                else:
                    okc = got == "X"  # the leaf itself is rendered with the swapped (negated) templates
                if not okc:
                    problems.append(f"{case}: {got!r}")
    try:
        none_child = call_method(prog, TQ, "convert_condition_not", Proxy(prog, TQ, envn, {"precedence": (), "not_token": "NOT", "token_separator": " ", "convert_not_as_not_eq": False}, interp_kwargs={"max_steps": 2000}), envn, ConditionNOT([None]), "state", interp_kwargs={"max_steps": 2000})
    except Raised as ex:
        none_child = f"<raises {ex}>"
    if none_child is not None:
        problems.append(f"a child that vanished (None): {none_child!r} instead of None")
    # a backend without not_token cannot express the negation: an error, never the bare child
    for kind in ("operator child", "plain leaf"):
        child = ConditionAND([]) if kind == "operator child" else _Leaf()
        me = Proxy(prog, TQ, envn, {"precedence": (ConditionNOT, ConditionAND, ConditionOR), "compare_precedence": (lambda o, i_, _k=kind: _k == "plain leaf"), "convert_condition_group": (lambda a, st: "(X)"),
                                    "convert_condition": (lambda a, st: "X"), "not_token": None, "token_separator": " ", "convert_not_as_not_eq": False}, interp_kwargs={"max_steps": 4000, "behaviours": (TypeError,)})
        try:
            got = call_method(prog, TQ, "convert_condition_not", me, envn, ConditionNOT([child]), "state", interp_kwargs={"max_steps": 4000, "behaviours": (TypeError,)})
        except Raised as ex:
            got = f"<raises {ex}>"
        if isinstance(got, str) and not got.startswith("<raises"):
            problems.append(f"{kind} on a backend without not_token: {got!r} instead of an error")
    if not problems:
        r.ok("C01.R5", nt.qual, "interpreted on 19 cases: the result is not_token + separator + the (grouped) child, the negated deferred expression, or None; the bare child only in not-equals mode for a leaf (rendered with swapped templates)", nt.loc)
    else:
        r.violation("C01.R5", nt.qual, f"return of convert_condition_not: {problems[0]}", f"{len(problems)} cases deviate: the converted child is returned without negation (negation-dropping return outside the declared not-equals mode)", nt.loc)
    if dropped_group:
        r.violation("C01.R5", nt.qual, "return converted_group  [convert_not_as_not_eq, group child]",
                    "in not-equals mode the NOT of an AND/OR group is rendered as the group itself: only the leaf templates are swapped, the group operator is not dualised "
                    "(not (a and b) must become a!=… or b!=…), so the query is not the negation of the group", nt.loc)
    # templates swapped vs templates readable by the leaf handlers
    cm = prog.func(TQ + ".not_equals_context_manager")
    # which templates the manager swaps: interpreted (sa.tabulate, Proxy) with every template of the class set to a marker
    from .standins import class_swap_outcome
    swo = class_swap_outcome(ctx, TQ, "not_equals_context_manager")
    swapped = sorted(swo.at_yield)
    wrong_pair = [f"{k} ← {v}" for k, v in sorted(swo.at_yield.items()) if v not in (f"orig:not_{k}", "orig:" + k.replace("case_sensitive_", "case_sensitive_not_", 1))]
    if wrong_pair:
        r.violation("C01.R5", cm.qual, f"template swapped with another one's negation: {wrong_pair[0]}", "in not-equals mode every template is replaced by its own negated counterpart", cm.loc)
    elif swapped:
        r.ok("C01.R5", cm.qual, f"{len(swapped)} templates are replaced by their own negated counterparts while the manager is active (interpreted)", cm.loc)
    leaf_templates = {}
    # the leaf handlers and the private helpers of the class they call (a helper may select the template)
    leaf_funcs = [f for q, f in sorted(prog.funcs.items()) if q.startswith(TQ + ".convert_condition_field_") and f.name not in ("convert_condition_field_eq_val", "convert_condition_field_eq_expansion")]
    seen_h = {f.qual for f in leaf_funcs}
    work = list(leaf_funcs)
    while work:
        f0 = work.pop()
        for c0 in walk_no_nested(f0.node):
            if isinstance(c0, ast.Call) and call_name(c0).startswith("self._") and call_name(c0).count(".") == 1:
                hm = prog.lookup_method(TQ, call_name(c0)[5:])
                if hm is not None and hm.qual not in seen_h:
                    seen_h.add(hm.qual)
                    leaf_funcs.append(hm)
                    work.append(hm)
    for f in leaf_funcs:
        q = f.qual
        if True:
            for n in walk_no_nested(f.node):
                if isinstance(n, ast.Attribute) and unparse(n.value) == "self" and isinstance(n.ctx, ast.Load) and (n.attr.endswith("_expression") or n.attr.endswith("_token")) \
                        and not n.attr.endswith("_allow_special") and n.attr not in ("group_expression",) and prog.lookup_class_attr(TQ, n.attr) is not None \
                        and prog.lookup_method(TQ, n.attr) is None:
                    leaf_templates.setdefault(n.attr, q)
    unswapped = sorted(t for t in leaf_templates if t not in swapped and not t.startswith(("not_", "case_sensitive_not_")) and t not in ("field_exists_expression", "field_not_exists_expression", "explicit_not_exists_expression"))
    r.analysed["C01.swapped_templates"] = swapped
    r.analysed["C01.leaf_templates_not_swapped"] = unswapped
    for t in unswapped:
        r.violation("C01.R5", cm.qual, f"template not swapped: {t}",
                    f"in not-equals mode convert_condition_not returns the leaf expression as it is; a leaf handler ({leaf_templates[t].rsplit('.', 1)[-1]}) reads this template, which has no negated counterpart in the swap set, "
                    "so e.g. 'not a=1' (number), 'not a is null', comparisons and field references are rendered without any negation", cm.loc)
    if not unswapped:
        r.ok("C01.R5", cm.qual, f"every leaf template is in the swap set {swapped}", cm.loc)
    # when the negated templates are swapped in: TextQueryBackend.convert_condition_field_eq_val interpreted (sa.tabulate,
    # Proxy) on leaves below chains of ancestors, with a recording context manager
    import types as _types
    from ..tabulate import Proxy as _Pn, call_method as _cmn, Raised as _Rn
    fe = prog.func(TQ + ".convert_condition_field_eq_val")
    inner = next((g for g in prog.funcs.values() if g.qual.startswith(fe.qual + ".<locals>.") and g.name == "is_parent_not"), None)
    stn = _type_standins(ctx)
    NOT_, AND_, OR_ = stn["ConditionNOT"], stn["ConditionAND"], stn["ConditionOR"]

    def swap_decision(chain, mode):
        parent = None
        for k in reversed(chain):  # outermost first
            node = k()
            node.__dict__["parent"] = parent
            parent = node
        leaf = _types.SimpleNamespace(parent=parent, field="f", value=stn["SigmaString"](), source=None)
        seen = []
        class _CM:
            def __init__(self, flag): self.flag = flag
            def __enter__(self): seen.append(bool(self.flag))
            def __exit__(self, *a): return False
        envn = dict(stn)
        envn["super"] = lambda: _types.SimpleNamespace(convert_condition_field_eq_val=lambda c_, s_: "CONVERTED")
        me = _Pn(prog, TQ, envn, {"convert_not_as_not_eq": mode, "not_equals_context_manager": lambda use_negated_expressions=False, **k: _CM(use_negated_expressions)}, interp_kwargs={"max_steps": 4000})
        try:
            out = _cmn(prog, TQ, fe.name, me, envn, leaf, object(), interp_kwargs={"max_steps": 4000})
        except _Rn as ex:
            return f"raises {ex}"
        return (seen[0] if len(seen) == 1 else seen) if out == "CONVERTED" else f"returns {out!r}"
    chains = {"no ancestor": [], "below NOT": [NOT_], "below AND": [AND_], "below NOT > AND": [NOT_, AND_], "below AND > NOT": [AND_, NOT_], "below OR > NOT > AND": [OR_, NOT_, AND_],
              "below NOT > NOT": [NOT_, NOT_], "below NOT > AND > NOT": [NOT_, AND_, NOT_], "below NOT > NOT > NOT": [NOT_, NOT_, NOT_]}
    wrong_mode = [f"{nm}, not-equals mode off: {swap_decision(ch, False)!r}" for nm, ch in chains.items() if swap_decision(ch, False) is not False]
    single = {nm: swap_decision(ch, True) for nm, ch in chains.items() if sum(1 for k in ch if k is NOT_) <= 1}
    want_single = {nm: (sum(1 for k in ch if k is NOT_) == 1) for nm, ch in chains.items() if sum(1 for k in ch if k is NOT_) <= 1}
    parity_bad = [f"{nm}: swapped={swap_decision(ch, True)!r}" for nm, ch in chains.items() if sum(1 for k in ch if k is NOT_) >= 2 and swap_decision(ch, True) is not (sum(1 for k in ch if k is NOT_) % 2 == 1)]
    if wrong_mode or single != want_single:
        diff = wrong_mode or [f"{nm}: swapped={single[nm]!r}" for nm in single if single[nm] != want_single[nm]]
        r.violation("C01.R5", fe.qual, "negation = is_parent_not(cond) and self.convert_not_as_not_eq", f"the swap is not tied to (NOT ancestor ∧ not-equals mode): {diff[0]}", fe.loc)
    else:
        r.ok("C01.R5", fe.qual, "templates are swapped only under a NOT ancestor and only in not-equals mode (interpreted on 6 ancestor chains x both modes)", fe.loc)
    pw = fe  # keyed by the converter, not by the nested helper that holds the test today
    if parity_bad:
        r.violation("C01.R5", pw.qual, "if isinstance(cond.parent, ConditionNOT): return True",
                    f"the ancestor test stops at the first enclosing NOT and does not count negations: under two nested NOTs (not (sel and not (…))) the leaf is rendered negated although the two negations cancel ({parity_bad[0]})", pw.loc)
    else:
        r.ok("C01.R5", pw.qual, "ancestor test accounts for the parity of enclosing NOTs", pw.loc)
    # leaf handlers that synthesise an OR: inside the not-equals swap every alternative is rendered with the negated
    # template, so the link between them has to become AND (not (a or b) = not a and not b)
    for q, f in sorted(prog.funcs.items()):
        if not q.startswith(TQ + ".convert_condition_field_eq_") and not q.startswith("sigma.conversion.base.Backend.convert_condition_field_eq_"):
            continue
        for c in (x for x in walk_no_nested(f.node) if isinstance(x, ast.Call) and call_name(x) == "ConditionOR"):
            loc = f"{f.module.relpath}:{c.lineno}"
            src = unparse(f.node)
            dual = "ConditionAND" in src and ("negat" in src or "convert_not_as_not_eq" in src)
            if dual:
                r.ok("C01.R5", q, "the synthesised link operator depends on the negation context", loc)
            else:
                r.violation("C01.R5", q, f"ConditionOR(...) synthesised in {f.name} [convert_not_as_not_eq]",
                            "in not-equals mode this handler runs with the negated templates swapped in and convert_condition_not drops the NOT, but the alternatives stay OR-linked: "
                            "`not ip|cidr: 10.0.0.0/7` renders as (ip notstartswith \"10.\" or ip notstartswith \"11.\"), `not cmd|windash: -a` as (cmd!=\"-a\" or cmd!=\"/a\" …) — true for every event", loc)
    r.floor("C01.R5", 6)


# ------------------------------------------------------------------------------------------ R7
def r7_string_shortcuts(ctx) -> None:
    """Both string converters interpreted (sa.tabulate, Proxy) on stand-in strings, over every combination of defined
    templates and allow_special switches, and compared with the specified selection."""
    import itertools
    import types as _types
    from ..tabulate import Proxy, call_method, Raised
    r, prog = ctx.r, ctx.prog
    r.rule("C01.R7", "string shortcuts: the template chosen for a string, the part of the string passed to it and the wildcards stripped agree — startswith for 'x*' (rest without wildcards unless allowed), endswith for '*x', contains for '*x*', the wildcard-match template for other strings with wildcards, equality otherwise; the case-sensitive sibling selects alike and fails instead of falling back to a case-insensitive template (both converters interpreted over all template configurations x 14 string shapes)")
    WM, WS = "<*>", "<?>"

    class SigmaString:
        def __init__(self, e): self.e = list(e)
        def startswith(self, o): return bool(self.e) and (self.e[0] == o if o in (WM, WS) else self.e[0] not in (WM, WS) and self.e[0] == o)
        def endswith(self, o): return bool(self.e) and (self.e[-1] == o if o in (WM, WS) else self.e[-1] not in (WM, WS) and self.e[-1] == o)
        def contains_special(self): return any(x in (WM, WS) for x in self.e)
        def __getitem__(self, k):
            return SigmaString(self.e[k]) if isinstance(k, slice) else SigmaString([self.e[k]])
        def __len__(self): return len(self.e)
        def to_regex(self, *a, **k): return "re:" + "".join(self.e)
        def __str__(self): return "".join(self.e)
        __repr__ = __str__

    SpecialChars = _types.SimpleNamespace(WILDCARD_MULTI=WM, WILDCARD_SINGLE=WS)
    env = {"SigmaString": SigmaString, "SpecialChars": SpecialChars}
    IK = {"max_steps": 4000, "behaviours": (NotImplementedError, TypeError, AttributeError)}
    shapes = [["a", "b"], ["a", WM], [WM, "a"], [WM, "a", WM], ["a", WM, "b"], [WM, "a", WM, "b"], ["a", WM, "b", WM], [WM, "a", WM, "b", WM],
              ["a", WS], [WS, "a", WM], [WM], [WM, WM], [], [WM, WS, WM]]

    def spec(cfg, e, prefix):
        def has_special(x): return any(y in (WM, WS) for y in x)
        t = lambda n: cfg.get(prefix + n)  # noqa: E731
        if t("startswith_expression") is not None and e and e[-1] == WM and (cfg.get(prefix + "startswith_expression_allow_special") or not has_special(e[:-1])):
            return t("startswith_expression"), e[:-1]
        if t("endswith_expression") is not None and e and e[0] == WM and (cfg.get(prefix + "endswith_expression_allow_special") or not has_special(e[1:])):
            return t("endswith_expression"), e[1:]
        if t("contains_expression") is not None and e and e[0] == WM and e[-1] == WM and (cfg.get(prefix + "contains_expression_allow_special") or not has_special(e[1:-1])):
            return t("contains_expression"), e[1:-1]
        if not prefix:
            if cfg.get("wildcard_match_expression") is not None and has_special(e):
                return cfg["wildcard_match_expression"], e
            return cfg["eq_expression"], e
        if cfg.get("case_sensitive_match_expression") is not None:
            return cfg["case_sensitive_match_expression"], e
        return None, None

    n_cases = 0
    for fn, prefix in (("convert_condition_field_eq_val_str", ""), ("convert_condition_field_eq_val_str_case_sensitive", "case_sensitive_")):
        f = prog.func(f"{TQ}.{fn}")
        names = ["startswith_expression", "endswith_expression", "contains_expression"] + (["wildcard_match_expression"] if not prefix else ["match_expression"])
        bad = None
        for defined in itertools.product((True, False), repeat=4):
            for allow in ((False, False, False), (True, False, False), (False, True, False), (False, False, True), (True, True, True)):
                cfg = {prefix + n: (f"{prefix}{n}({{field}}|{{value}})" if d else None) for n, d in zip(names, defined)}
                cfg.update({prefix + n + "_allow_special": a for n, a in zip(names[:3], allow)})
                cfg["eq_expression"] = "eq_expression({field}|{value})"
                attrs = dict(cfg, escape_and_quote_field=lambda x: f"<{x}>", convert_value_str=lambda v, st: f"[{v}]", convert_value_re=lambda v, st: f"/{v}/", add_escaped_re="")
                me = Proxy(prog, TQ, env, attrs, interp_kwargs=IK)
                for e in shapes:
                    n_cases += 1
                    cond = _types.SimpleNamespace(field="f", value=SigmaString(e))
                    want_t, want_v = spec(cfg, e, prefix)
                    want = want_t.format(field="<f>", value="[" + "".join(want_v) + "]") if want_t is not None else "NotImplementedError"
                    try:
                        got = call_method(prog, TQ, fn, me, env, cond, object(), interp_kwargs=IK)
                    except Raised as ex:
                        got = "NotImplementedError" if "NotImplementedError" in str(ex) else f"raises {ex}"
                    if got != want and bad is None:
                        on = [n for n, d in zip(names, defined) if d]
                        bad = f"string {''.join(e)!r} with templates {on} defined, allow_special {dict(zip(names[:3], allow))}: {got!r} instead of {want!r}"
        if bad:
            r.violation("C01.R7", f.qual, "template and value slice chosen for a string",
                        f"a slice that does not strip exactly the guarded wildcards, or a template used for another wildcard position, changes the matched strings: {bad}", f.loc)
        else:
            r.ok("C01.R7", f.qual, f"template, stripped wildcards and special-character test agree with the specified selection for every template configuration and string shape ({n_cases} cases so far); the template receives the sliced value and the escaped field", f.loc)
    r.analysed["C01.string_shortcut_cases"] = n_cases
    r.floor("C01.R7", 2)


# ------------------------------------------------------------------------------------------ R8
def r8_field_escaping(ctx, rid: str = "C01.R8") -> None:
    r, prog = ctx.r, ctx.prog
    r.rule(rid, "field names are always escaped: every template argument named field/field1/field2 and every field used in a token concatenation in TextQueryBackend is the result of escape_and_quote_field (or of a helper that applies it)")
    c = prog.cls(TQ)
    n = 0
    for name, f in sorted(c.methods.items()):
        for call in (x for x in walk_no_nested(f.node) if isinstance(x, ast.Call) and isinstance(x.func, ast.Attribute) and x.func.attr in ("format", "_format_template")):
            for kw in call.keywords:
                if kw.arg in ("field", "field1", "field2", "fieldref"):
                    n += 1
                    loc = f"{f.module.relpath}:{kw.value.lineno}"
                    v = kw.value
                    ok_ = _escaped(prog, f, v)
                    if ok_:
                        r.ok(rid, f.qual, f"{kw.arg}={short(v, 60)}", loc)
                    else:
                        r.violation(rid, f.qual, f"{unparse(call.func.value)}.format({kw.arg}={short(v, 60)})",
                                    "the field name reaches the query text without escape_and_quote_field: a name with spaces, quotes or other special characters is emitted raw (and can change the meaning of the query)", loc)
    # token concatenations:  <field> + self.eq_token + <value>
    for name, f in sorted(c.methods.items()):
        for bo in (x for x in walk_no_nested(f.node) if isinstance(x, ast.BinOp) and isinstance(x.op, ast.Add) and not isinstance(prog.parent(x), ast.BinOp)):
            parts = []
            def flat(e):
                if isinstance(e, ast.BinOp) and isinstance(e.op, ast.Add):
                    flat(e.left); flat(e.right)
                else:
                    parts.append(e)
            flat(bo)
            if not any(unparse(p).startswith("self.") and unparse(p).endswith("_token") for p in parts):
                continue
            for p in parts:
                if unparse(p) in ("cond.field", "field", "field_name") or (isinstance(p, ast.Attribute) and p.attr == "field" and not unparse(p).startswith("self.")):
                    r.violation(rid, f.qual, short(bo, 120), "a raw field name is concatenated with an operator token", f"{f.module.relpath}:{bo.lineno}")
                elif isinstance(p, ast.Call) and call_name(p) == "self.escape_and_quote_field":
                    r.ok(rid, f.qual, f"{short(bo, 80)}: field escaped", f"{f.module.relpath}:{bo.lineno}")
    r.floor(rid, 15)


def _escaped(prog, f: FuncInfo, v: ast.AST, depth: int = 0) -> bool:
    if isinstance(v, ast.Call) and call_name(v) in ("self.escape_and_quote_field", "self.escape_and_quote_fieldref"):
        return True
    if isinstance(v, ast.Call) and call_name(v).startswith("self.convert_") and "field" in call_name(v):
        return True
    if isinstance(v, ast.IfExp):
        return _escaped(prog, f, v.body, depth) and _escaped(prog, f, v.orelse, depth)
    if isinstance(v, ast.Constant) and v.value in ("", None):
        return True
    if isinstance(v, ast.Name) and depth < 3:
        defs = assignments_to(f.node, v.id)
        if defs and all(isinstance(d, ast.Assign) and isinstance(d.value, ast.Call) and call_name(d.value) == "self.convert_condition_field_eq_field_escape_and_quote" for d in defs):
            return True  # helper applies escape_and_quote_field per the backend's field_equals_field_escaping_quoting setting
        vals = [d for d in defs if isinstance(d, ast.AST) and not isinstance(d, (ast.stmt, ast.comprehension))]
        if vals and len(vals) == len(defs):
            return all(_escaped(prog, f, d, depth + 1) for d in vals)
        # comprehension/loop variable over escaped list?
        return False
    if isinstance(v, ast.Call) and isinstance(v.func, ast.Attribute) and v.func.attr == "join":
        a = v.args[0] if v.args else None
        if isinstance(a, (ast.GeneratorExp, ast.ListComp)):
            return _escaped(prog, f, a.elt, depth)
        if isinstance(a, ast.Name):
            return _escaped(prog, f, a, depth)
    if isinstance(v, (ast.ListComp, ast.GeneratorExp)):
        return _escaped(prog, f, v.elt, depth)
    return False


# ------------------------------------------------------------------------------------------ R9
def r9_in_list(ctx) -> None:
    r, prog = ctx.r, ctx.prog
    r.rule("C01.R9", "in-list preconditions: `return True` of the decision function is dominated by: feature enabled for this operator class, all arguments field=value, exactly one field, admitted value classes, wildcard restriction; the renderer picks or_in_operator/and_in_operator by node class and renders every argument")
    f = prog.func(B + ".decide_convert_condition_as_in_expression")
    # the decision function as a truth table and the renderer on sample nodes, both interpreted (sa.tabulate, Proxy)
    import itertools
    from ..tabulate import Proxy, call_method, Raised

    class ConditionOR:
        def __init__(self, args): self.args = list(args)
    class ConditionAND:
        def __init__(self, args): self.args = list(args)

    class ConditionFieldEqualsValueExpression:
        def __init__(self, field, value): self.field, self.value = field, value
    class ConditionValueExpression:
        def __init__(self, value): self.value = value
    class SigmaString:
        def __init__(self, t, special=False): self.t, self.special = t, special
        def contains_special(self): return self.special
        def __str__(self): return self.t
    class SigmaCasedString(SigmaString): pass
    class SigmaNumber:
        def __init__(self, n): self.n = n
        def __str__(self): return str(self.n)
    class SigmaTimestampPart(SigmaNumber): pass
    class SigmaRegularExpression:
        pass

    env = {k: v for k, v in locals().items() if isinstance(v, type) and k[:1].isupper()}
    env["cast"] = lambda t, v: v
    FE = ConditionFieldEqualsValueExpression
    arg_sets = {
        "two strings, one field": ([FE("f", SigmaString("a")), FE("f", SigmaString("b"))], True, False),
        "string and number, one field": ([FE("f", SigmaString("a")), FE("f", SigmaNumber(1))], True, False),
        "one argument": ([FE("f", SigmaString("a"))], True, False),
        "two fields": ([FE("f", SigmaString("a")), FE("g", SigmaString("b"))], False, False),
        "a value-only argument": ([FE("f", SigmaString("a")), ConditionValueExpression(SigmaString("b"))], False, False),
        "a nested operator": ([FE("f", SigmaString("a")), ConditionOR([])], False, False),
        "a regular expression": ([FE("f", SigmaString("a")), FE("f", SigmaRegularExpression())], False, False),
        "a case-sensitive string": ([FE("f", SigmaString("a")), FE("f", SigmaCasedString("B"))], False, False),
        "a timestamp part": ([FE("f", SigmaNumber(1)), FE("f", SigmaTimestampPart(2))], False, False),
        "a string with wildcard": ([FE("f", SigmaString("a")), FE("f", SigmaString("b*", True))], True, True),
    }
    wrong = []
    n = 0
    for K in (ConditionOR, ConditionAND):
        for or_in, and_in, allow_wc in itertools.product((False, True), repeat=3):
            for what, (args, eligible, has_wc) in arg_sets.items():
                n += 1
                me = Proxy(prog, B, env, {"convert_or_as_in": or_in, "convert_and_as_in": and_in, "in_expressions_allow_wildcards": allow_wc}, interp_kwargs={"max_steps": 4000})
                try:
                    got = call_method(prog, B, "decide_convert_condition_as_in_expression", me, env, K(args), "state", interp_kwargs={"max_steps": 4000})
                except Raised as ex:
                    got = f"<raises {ex}>"
                want = (or_in if K is ConditionOR else and_in) and eligible and (allow_wc or not has_wc)
                if got is not want:
                    wrong.append(f"{K.__name__[9:]} of {what}; convert_or_as_in={or_in}, convert_and_as_in={and_in}, in_expressions_allow_wildcards={allow_wc}: {got!r} instead of {want}")
    if not wrong:
        r.ok("C01.R9", f.qual, f"decision table ({n} interpreted rows): an in-list only if the feature is enabled for this operator class, all arguments are field=value on exactly one field with plain string/number values, and no wildcard unless allowed", f.loc)
    else:
        r.violation("C01.R9", f.qual, f"in-list decision: {wrong[0]}", f"{len(wrong)} of {n} rows deviate: `return True` must be dominated by: feature enabled for this operator class, all arguments field=value, exactly one field, admitted value classes, wildcard restriction", f.loc)
    g = prog.func(TQ + ".convert_condition_as_in_expression")
    outs = {}
    for K, opn in ((ConditionOR, "OR-IN"), (ConditionAND, "AND-IN")):
        me = Proxy(prog, TQ, env, {"field_in_list_expression": "{field} {op} ({list})", "list_separator": ", ", "or_in_operator": "OR-IN", "and_in_operator": "AND-IN",
                                   "escape_and_quote_field": lambda f_: f"<{f_}>", "convert_value_str": lambda v, st: f"'{v.t}'"}, interp_kwargs={"max_steps": 4000})
        try:
            outs[K.__name__] = call_method(prog, TQ, "convert_condition_as_in_expression", me, env, K([FE("f", SigmaString("a")), FE("f", SigmaNumber(2)), FE("f", SigmaString("c"))]), "state", interp_kwargs={"max_steps": 4000})
        except Raised as ex:
            outs[K.__name__] = f"<raises {ex}>"
    if outs == {"ConditionOR": "<f> OR-IN ('a', 2, 'c')", "ConditionAND": "<f> AND-IN ('a', 2, 'c')"}:
        r.ok("C01.R9", g.qual, "operator token chosen by node class; every argument's value is rendered in order; field escaped (interpreted)", g.loc)
    else:
        r.violation("C01.R9", g.qual, f"in-list rendering: {outs}", "the in-list operator must be or_in_operator for OR and and_in_operator for AND, every argument rendered into the list in order, the field escaped", g.loc)
    r.floor("C01.R9", 2)


# ------------------------------------------------------------------------------------------ R10
def r10_tokens(ctx) -> None:
    r, prog = ctx.r, ctx.prog
    r.rule("C01.R10", "operator/token pairing: the OR converter reads only or_token/empty_or_expression, the AND converter only and_token/empty_and_expression, NOT only not_token; compare_precedence answers `inner index <= outer index` over the backend's own precedence tuple")
    pairs = {"convert_condition_or": ("or_token", "empty_or_expression", "and"), "convert_condition_and": ("and_token", "empty_and_expression", "or")}
    for fn, (tok, empty, other) in pairs.items():
        f = prog.func(f"{TQ}.{fn}")
        attrs = {n.attr for n in walk_no_nested(f.node) if isinstance(n, ast.Attribute) and unparse(n.value) == "self"}
        bad = {a for a in attrs if a.startswith(other + "_") or a == f"empty_{other}_expression" or a == "not_token"}
        if tok in attrs and empty in attrs and not bad:
            r.ok("C01.R10", f.qual, f"reads {tok}, {empty}", f.loc)
        else:
            r.violation("C01.R10", f.qual, f"reads {sorted(a for a in attrs if 'token' in a or 'empty' in a)}", f"{fn} must join with {tok} and return {empty} for no arguments, never the {other}/not tokens", f.loc)
    nt = prog.func(TQ + ".convert_condition_not")
    nt_funcs = [nt] + [hm for c0 in walk_no_nested(nt.node) if isinstance(c0, ast.Call) and call_name(c0).startswith("self._") and call_name(c0).count(".") == 1
                       and (hm := prog.lookup_method(TQ, call_name(c0)[5:])) is not None]
    attrs = {n.attr for f_ in nt_funcs for n in walk_no_nested(f_.node) if isinstance(n, ast.Attribute) and unparse(n.value) == "self" and n.attr.endswith("_token")} - {"token_separator"}
    if attrs == {"not_token"}:
        r.ok("C01.R10", nt.qual, "reads not_token only", nt.loc)
    else:
        r.violation("C01.R10", nt.qual, f"tokens {sorted(attrs)}", "NOT converter must use not_token only", nt.loc)
    cp = prog.func(TQ + ".compare_precedence")
    tbl = precedence_table(ctx)
    other = [w for w in tbl["wrong"] if "expansion" not in w and "not exists" not in w]
    if not other:
        r.ok("C01.R10", cp.qual, f"compare_precedence interpreted on {tbl['n']} cases (3 precedence tuples of the backend itself x outer operator x inner kind, parenthesize mode): inner rank <= outer rank", cp.loc)
    else:
        r.violation("C01.R10", cp.qual, f"compare_precedence: {other[0]}", f"{len(other)} of {tbl['n']} interpreted cases deviate: precedence comparison must be `inner rank <= outer rank` over the backend's own precedence tuple (a strict or reversed comparison, or ranks cached across backend classes, change which children are parenthesised)", cp.loc)
    pa = prog.lookup_class_attr(TQ, "precedence")
    if pa and unparse(pa[1].value).replace(" ", "") == "(ConditionNOT,ConditionAND,ConditionOR)":
        r.ok("C01.R10", TQ, "default precedence (NOT, AND, OR)")
    else:
        r.violation("C01.R10", TQ, f"precedence = {unparse(pa[1].value) if pa else None}", "default precedence must be (ConditionNOT, ConditionAND, ConditionOR)")
    # no shared-state writer in conversion code (rank caches etc.)
    before = len(r.findings)
    c15.r1_inventory(ctx, "C01.R10")
    r.floor("C01.R10", 6)


# ------------------------------------------------------------------------------------------ R11
def r11_linking(ctx) -> None:
    r, prog = ctx.r, ctx.prog
    r.rule("C01.R11", "linking constants: a detection given as map links its items with AND, a list with OR; a value list links with OR unless 'all' set AND; 0 values → null, 1 → bare expression, n → value_linking(...); negation wraps the item in exactly one ConditionNOT whose parent links are set both ways")
    D = "sigma.rule.detection"
    pi = prog.func(D + ".SigmaDetection.__post_init__")
    # __post_init__ interpreted (sa.tabulate, Proxy) on member lists of detection items, nested detections and both
    from ..tabulate import Proxy as _Pl, call_method as _cml, Raised as _Rl
    class SigmaDetectionItem: pass
    class SigmaDetection: pass
    class _ItemSub(SigmaDetectionItem): pass
    class ConditionAND: pass
    class ConditionOR: pass
    class SigmaDetectionError(Exception):
        def __init__(self, *a, **k): super().__init__(*a)
    import types as _typesl
    envl = {"SigmaDetectionItem": SigmaDetectionItem, "SigmaDetection": SigmaDetection, "ConditionAND": ConditionAND, "ConditionOR": ConditionOR,
            "sigma_exceptions": _typesl.SimpleNamespace(SigmaDetectionError=SigmaDetectionError), "SigmaDetectionError": SigmaDetectionError}
    outs_l = {}
    for nm_l, members, given in (("items (a map)", [SigmaDetectionItem(), SigmaDetectionItem()], None), ("one item", [SigmaDetectionItem()], None), ("nested detections (a list)", [SigmaDetection(), SigmaDetection()], None),
                                 ("items and a nested detection", [SigmaDetection(), SigmaDetectionItem()], None), ("linking given", [SigmaDetectionItem()], ConditionOR), ("no members", [], None)):
        mel = _Pl(prog, D + ".SigmaDetection", envl, {"detection_items": members, "item_linking": given, "source": None}, interp_kwargs={"max_steps": 3000, "behaviours": (SigmaDetectionError,)})
        try:
            _cml(prog, D + ".SigmaDetection", "__post_init__", mel, envl, interp_kwargs={"max_steps": 3000, "behaviours": (SigmaDetectionError,)})
            outs_l[nm_l] = getattr(mel.item_linking, "__name__", repr(mel.item_linking))
        except _Rl as ex:
            outs_l[nm_l] = "error" if "SigmaDetectionError" in str(ex) else f"raises {ex}"
    want_l = {"items (a map)": "ConditionAND", "one item": "ConditionAND", "nested detections (a list)": "ConditionOR", "items and a nested detection": "ConditionAND", "linking given": "ConditionOR", "no members": "error"}
    if outs_l == want_l:
        r.ok("C01.R11", pi.qual, "item_linking = AND iff detection items are members (map), else OR (list); a given linking is kept; an empty detection is refused (interpreted on 6 member lists)", pi.loc)
    else:
        r.violation("C01.R11", pi.qual, f"item_linking table { {k_: v_ for k_, v_ in outs_l.items() if want_l[k_] != v_} }", f"item linking must be ConditionAND for maps and ConditionOR for lists: expected { {k_: want_l[k_] for k_ in outs_l if want_l[k_] != outs_l[k_]} }", pi.loc)
    dc = prog.cls(D + ".SigmaDetectionItem")
    vl = [s for s in dc.node.body if isinstance(s, ast.AnnAssign) and unparse(s.target) == "value_linking"]
    if vl and unparse(vl[0].value) == "ConditionOR":
        r.ok("C01.R11", dc.qual, "value_linking defaults to ConditionOR", f"{dc.module.relpath}:{vl[0].lineno}")
    else:
        r.violation("C01.R11", dc.qual, "value_linking default", "value lists must be OR-linked by default")
    ng = [s for s in dc.node.body if isinstance(s, ast.AnnAssign) and unparse(s.target) == "negated"]
    if ng and unparse(ng[0].value) == "False":
        r.ok("C01.R11", dc.qual, "negated defaults to False")
    else:
        r.violation("C01.R11", dc.qual, "negated default", "detection items must not be negated by default")
    pp = prog.func(D + ".SigmaDetectionItem.postprocess")
    dp = prog.func(D + ".SigmaDetection.postprocess")
    # both postprocess methods interpreted (sa.tabulate, Proxy) on stand-in conditions that record the parent they are given
    from ..tabulate import Proxy, call_method, Raised
    import types as _types

    class _C:
        operator = False

        def __init__(self, *a):
            self.a, self.parent, self.source, self.pp = a, None, None, None

        def postprocess(self, detections, parent=None, source=None):
            self.pp, self.parent, self.source = (parent, source), parent, source
            return self

    class ConditionFieldEqualsValueExpression(_C): pass
    class ConditionValueExpression(_C): pass
    class ConditionNOT(_C): pass
    class ConditionOR(_C): pass
    class ConditionAND(_C): pass

    class SigmaNull:
        def __eq__(self, o): return isinstance(o, SigmaNull)
        __hash__ = None

    class SigmaConditionError(Exception):
        def __init__(self, *a, **k): super().__init__(*a)

    env = {"ConditionFieldEqualsValueExpression": ConditionFieldEqualsValueExpression, "ConditionValueExpression": ConditionValueExpression, "ConditionNOT": ConditionNOT,
           "ConditionOR": ConditionOR, "ConditionAND": ConditionAND, "SigmaNull": SigmaNull, "sigma_exceptions": _types.SimpleNamespace(SigmaConditionError=SigmaConditionError),
           "SigmaConditionError": SigmaConditionError, "cast": lambda t, v: v}
    IK = {"behaviours": (SigmaConditionError, AttributeError), "max_steps": 4000}
    DI = D + ".SigmaDetectionItem"
    rows: dict[str, list[str]] = {"0 values → field is null (an error without field)": [], "1 value → bare expression": [], "n values → value_linking over all values": [], "negated → ConditionNOT([cond]) with parent links both ways": []}
    ncases = 0
    for fieldname in (None, "f"):
        for values in ([], ["v1"], ["v1", "v2", "v3"]):
            for negated in (False, True):
                for linking in (ConditionOR, ConditionAND):
                    ncases += 1
                    me = Proxy(prog, DI, env, {"field": fieldname, "value": list(values), "negated": negated, "value_linking": linking, "source": "src", "modifiers": []}, interp_kwargs=IK)
                    par, dets = object(), object()
                    key = {0: "0 values → field is null (an error without field)", 1: "1 value → bare expression"}.get(len(values), "n values → value_linking over all values")
                    desc = f"field={fieldname!r}, {len(values)} value(s), negated={negated}, linking={linking.__name__}"
                    try:
                        got = call_method(prog, DI, "postprocess", me, env, dets, par, None, interp_kwargs=IK)
                    except Raised as ex:
                        got = ex
                    if not values and fieldname is None:
                        if not isinstance(got, Raised):
                            rows[key].append(f"{desc}: {got!r} instead of a SigmaConditionError")
                        continue
                    if isinstance(got, Raised):
                        rows[key].append(f"{desc}: raises {got}")
                        continue
                    cond = got
                    if negated:
                        nk = "negated → ConditionNOT([cond]) with parent links both ways"
                        if not (isinstance(got, ConditionNOT) and len(got.a) == 1 and isinstance(got.a[0], list) and len(got.a[0]) == 1):
                            rows[nk].append(f"{desc}: result {type(got).__name__} is not one ConditionNOT around the item's condition")
                            continue
                        cond = got.a[0][0]
                        if isinstance(cond, ConditionNOT):
                            rows[nk].append(f"{desc}: the item's condition is wrapped in two NOTs")
                        if got.parent is not par:
                            rows[nk].append(f"{desc}: the NOT is not linked to the item's parent")
                        if cond.parent is not got:
                            rows[nk].append(f"{desc}: the item's condition is not linked to the NOT")
                        if got.source != "src":
                            rows[nk].append(f"{desc}: the NOT carries no source")
                    elif isinstance(got, ConditionNOT):
                        rows["negated → ConditionNOT([cond]) with parent links both ways"].append(f"{desc}: an item that is not negated yields a NOT")
                        continue
                    leafcls = ConditionFieldEqualsValueExpression if fieldname is not None else ConditionValueExpression
                    mkargs = (lambda v: (fieldname, v)) if fieldname is not None else (lambda v: (v,))
                    if len(values) == 0:
                        if not (type(cond) is ConditionFieldEqualsValueExpression and cond.a == ("f", SigmaNull())):
                            rows[key].append(f"{desc}: {type(cond).__name__}{getattr(cond, 'a', '')} instead of field = null")
                    elif len(values) == 1:
                        if not (type(cond) is leafcls and cond.a == mkargs("v1")):
                            rows[key].append(f"{desc}: {type(cond).__name__}{getattr(cond, 'a', '')} instead of {leafcls.__name__}{mkargs('v1')}")
                    else:
                        okl = type(cond) is linking and len(cond.a) == 1 and isinstance(cond.a[0], list) and [(type(x), x.a) for x in cond.a[0]] == [(leafcls, mkargs(v)) for v in values]
                        if not okl:
                            rows[key].append(f"{desc}: {type(cond).__name__}{[(type(x).__name__, x.a) for x in cond.a[0]] if getattr(cond, 'a', None) and isinstance(cond.a[0], list) else ''} instead of {linking.__name__} over all values in order")
                    if getattr(cond, "pp", None) is None and not negated:
                        rows[key].append(f"{desc}: the condition is not postprocessed (no parent link)")
    for what, bad in rows.items():
        if bad:
            r.violation("C01.R11", pp.qual, f"{what}: {bad[0]}", f"{len(bad)} deviation(s) in {ncases} interpreted cases: value-count table / negation wrapping of detection item postprocessing altered (the negated item must be wrapped in exactly one ConditionNOT, the NOT linked to the item's parent and the item's condition linked to the NOT: the not-equals rendering and the precedence logic find the NOT only through these parent links)", pp.loc)
        else:
            r.ok("C01.R11", pp.qual, f"{what} ({ncases} interpreted cases)", pp.loc)
    # SigmaDetection.postprocess
    SD = D + ".SigmaDetection"

    class _Item:
        def __init__(self, n, res=True):
            self.n, self.res, self.seen = n, res, None

        def postprocess(self, detections, parent=None, source=None):
            c = _C(self.n) if self.res else None
            if c is not None:
                c.parent = parent
            return c

    import copy as _copy
    bad = []
    for count in (0, 1, 2, 4):
        for linking in (ConditionOR, ConditionAND):
            items = [_Item(f"i{k}") for k in range(count)]
            me = Proxy(prog, SD, dict(env, copy=_copy), {"detection_items": items, "item_linking": linking, "source": "src"}, interp_kwargs=IK)
            par = object()
            try:
                got = call_method(prog, SD, "postprocess", me, dict(env, copy=_copy), object(), par, None, interp_kwargs=IK)
            except Raised as ex:
                bad.append(f"{count} item(s): raises {ex}")
                continue
            if count == 0:
                okd = got is None
            elif count == 1:
                okd = isinstance(got, _C) and got.a == ("i0",) and got.parent is me
            else:
                okd = type(got) is linking and len(got.a) == 1 and [getattr(x, "a", None) for x in got.a[0]] == [(f"i{k}",) for k in range(count)] and got.pp is not None and got.pp[0] is par and all(x.parent is me for x in got.a[0])
            if not okd:
                bad.append(f"{count} item(s), linking {linking.__name__}: {type(got).__name__}{getattr(got, 'a', '')}")
    if bad:
        r.violation("C01.R11", dp.qual, f"SigmaDetection.postprocess: {bad[0]}", "item-count table of detection postprocessing altered (1 item → itself; n items → item_linking(items) over all items in order, linked to the parent; items linked to the detection)", dp.loc)
    else:
        r.ok("C01.R11", dp.qual, "1 item → itself; n items → item_linking(items) over all items (interpreted: 0/1/2/4 items, both linkings)", dp.loc)
    am = prog.func("sigma.modifiers.SigmaAllModifier.modify")
    import types as _types2
    from ..tabulate import Proxy as _Pa, call_method as _cma, Raised as _Ra
    class ConditionAND: pass
    item_a = _types2.SimpleNamespace(value_linking="before", negated=False, field="f")
    try:
        _cma(prog, "sigma.modifiers.SigmaAllModifier", "modify", _Pa(prog, "sigma.modifiers.SigmaAllModifier", {"ConditionAND": ConditionAND}, {"detection_item": item_a, "applied_modifiers": [], "source": None}, interp_kwargs={"max_steps": 2000}),
             {"ConditionAND": ConditionAND}, ["v"], interp_kwargs={"max_steps": 2000})
    except _Ra:
        pass
    if item_a.value_linking is ConditionAND:
        r.ok("C01.R11", am.qual, "'all' → value_linking = ConditionAND (interpreted)", am.loc)
    else:
        r.violation("C01.R11", am.qual, "value_linking = ConditionAND", f"'all' modifier does not switch value linking to AND (it is {item_a.value_linking!r} afterwards)", am.loc)
    r.floor("C01.R11", 9)


def r14_parent_links_per_reference(ctx) -> None:
    """Grouping of expanded values and the not-equals decision walk the parent chain of a leaf. The chain is written by
    postprocess(); it is only right if every object that gets a parent link belongs to one reference alone."""
    r, prog = ctx.r, ctx.prog
    r.rule("C01.R14", "parent links are per reference: every `x.postprocess(detections, parent, …)` in the condition and detection classes is invoked on a fresh object (constructor result, copy.copy/deepcopy, a local bound to one, an argument of the per-parse deep-copied tree) — never on an object taken from the shared detection map or a detection's item list")
    FRESH_ATTR_CALLS = ("value_linking", "cond_class", "item_linking")
    n = 0

    def fresh(fi: FuncInfo, e: ast.AST, depth: int = 0) -> Optional[str]:
        """reason why e denotes an object private to this postprocess run, else None"""
        if isinstance(e, ast.Call):
            d = call_name(e)
            if d in ("copy.copy", "copy.deepcopy", "deepcopy"):
                return f"{d}(...)"
            if d == "super":
                return "super(): the receiver itself (its freshness is the caller's obligation)"
            if isinstance(e.func, ast.Call) and call_name(e.func) == "cast":
                return "instance of a class object (cast(...)(…))"
            if isinstance(e.func, ast.Attribute) and e.func.attr in FRESH_ATTR_CALLS:
                return f"instance of self.{e.func.attr}"
            if isinstance(e.func, ast.Name) and depth < 3:
                # a local that holds the class object: linking = cast(…, self.item_linking) / = self.value_linking
                cdefs = [st.value for st in walk_no_nested(fi.node) if isinstance(st, ast.Assign) and len(st.targets) == 1 and isinstance(st.targets[0], ast.Name) and st.targets[0].id == e.func.id]
                def class_object(v: ast.AST) -> bool:
                    if isinstance(v, ast.Call) and call_name(v) == "cast" and len(v.args) == 2:
                        return class_object(v.args[1])
                    return isinstance(v, ast.Attribute) and v.attr in FRESH_ATTR_CALLS and unparse(v.value) == "self"
                if len(cdefs) == 1 and class_object(cdefs[0]) and e.func.id not in fi.params():
                    return f"instance of the class object held in {e.func.id}"
            q = prog.resolve_expr(fi.module, e.func)
            if q and q in prog.classes:
                return f"constructor {q.rsplit('.', 1)[-1]}(…)"
            if isinstance(e.func, ast.Attribute) and e.func.attr == "postprocess":
                return fresh(fi, e.func.value, depth + 1)
            # a helper (function nested in this one, or method of the same class) all of whose returns are fresh
            helper = None
            if isinstance(e.func, ast.Name):
                nd = next((x for x in ast.walk(fi.node) if isinstance(x, ast.FunctionDef) and x is not fi.node and x.name == e.func.id), None)
                if nd is not None:
                    helper = (fi, nd)
            elif isinstance(e.func, ast.Attribute) and unparse(e.func.value) == "self" and fi.cls and prog.has_func(f"{fi.cls.qual}.{e.func.attr}"):
                hf = prog.func(f"{fi.cls.qual}.{e.func.attr}")
                helper = (hf, hf.node)
            elif isinstance(e.func, ast.Name) or (isinstance(e.func, ast.Attribute) and isinstance(e.func.value, ast.Name)):
                hq = prog.resolve_expr(fi.module, e.func)
                if hq and prog.has_func(hq) and prog.func(hq).cls is None:
                    hf = prog.func(hq)
                    helper = (hf, hf.node)
            if helper is None and isinstance(e.func, ast.Name):
                hq = prog.resolve_expr(fi.module, e.func)
                if hq and prog.has_func(hq) and prog.func(hq).cls is None:
                    hf = prog.func(hq)
                    helper = (hf, hf.node)
            if helper is not None and depth < 3:
                hfi, nd = helper
                rets = [x for st in nd.body for x in ast.walk(st) if isinstance(x, ast.Return)]
                whys = [fresh(hfi, x.value, depth + 1) if x.value is not None else None for x in rets]
                if rets and all(whys):
                    return f"result of helper {nd.name}(): " + "; ".join(sorted(set(whys)))
            return None
        if isinstance(e, ast.Name) and depth < 4:
            srcs = []
            for st in walk_no_nested(fi.node):
                if isinstance(st, ast.Assign) and any(isinstance(t, ast.Name) and t.id == e.id for t in st.targets):
                    srcs.append(("assign", st.value, st))
                elif isinstance(st, ast.For) and any(isinstance(t, ast.Name) and t.id == e.id for t in ast.walk(st.target)):
                    srcs.append(("iter", st.iter, st))
                elif isinstance(st, ast.comprehension) and any(isinstance(t, ast.Name) and t.id == e.id for t in ast.walk(st.target)):
                    srcs.append(("iter", st.iter, st))
            if not srcs:
                return None
            # keep the definitions that reach the use (CFG: a path from the definition to the use that passes no other definition)
            cfg = cfg_of(fi)
            use_nodes = set(cfg.node_of_expr(e, prog.parent))
            def_nodes = {id(st_): set(cfg.nodes_of(st_)) for _, _, st_ in srcs if not isinstance(st_, ast.comprehension)}
            all_defs = set().union(*def_nodes.values()) if def_nodes else set()
            if use_nodes and all_defs:
                kept = []
                for kind, v, st_ in srcs:
                    if isinstance(st_, ast.comprehension):
                        kept.append((kind, v, st_))
                        continue
                    starts = [x for d_ in def_nodes[id(st_)] for x in cfg.nodes[d_].succ]
                    if use_nodes & cfg.reachable(starts, blocked=all_defs - use_nodes):
                        kept.append((kind, v, st_))
                srcs = kept or srcs
            why = []
            for kind, v, _st in srcs:
                if kind == "assign" and isinstance(v, ast.Subscript) and unparse(v.value) == "self.args":
                    why.append("argument of the condition tree (deep-copied per parse, C01.R12)")
                elif kind == "assign":
                    w = fresh(fi, v, depth + 1)
                    if w is None:
                        return None
                    why.append(w)
                else:
                    if unparse(v) == "self.args":
                        why.append("argument of the condition tree (deep-copied per parse, C01.R12)")
                    else:
                        return None
            return "; ".join(sorted(set(why)))
        return None

    for q, fi in sorted(prog.funcs.items()):
        if fi.module.name not in ("sigma.conditions", "sigma.rule.detection"):
            continue
        for c in (x for x in ast.walk(fi.node) if isinstance(x, ast.Call) and isinstance(x.func, ast.Attribute) and x.func.attr == "postprocess"):
            recv = c.func.value
            loc = f"{fi.module.relpath}:{c.lineno}"
            n += 1
            why = fresh(fi, recv)
            if why:
                r.ok("C01.R14", q, f"{short(c, 80)} — receiver is {why}", loc)
            else:
                r.violation("C01.R14", q, short(c, 120),
                            "postprocess() writes the parent link into an object that is shared between all references to the detection (taken from the detection map / item list without a copy): a detection referenced twice keeps the operator context of its last reference, so grouping of an expanded CIDR value and the not-equals decision are taken for the wrong branch", loc)
    r.analysed["C01.postprocess_call_sites"] = n
    r.floor("C01.R14", 10)
