"""C03 — value modifiers produce exactly the values the specification defines (structural clauses)."""
from __future__ import annotations

import ast
from typing import Optional

from ..prog import AnalysisError, FuncInfo, call_name, short, stmt_head, unparse, walk_no_nested
from ..raises import explicit_raises, is_sigma_error
from ..util import assignments_to, atomic_guards, cfg_of, const_eval, guards_at

M = "sigma.modifiers"
BASE = M + ".SigmaModifier"

CONSTS = {  # identifier -> (class attribute, expected enum member)
    "lt": ("op", "CompareOperators.LT"), "lte": ("op", "CompareOperators.LTE"), "gt": ("op", "CompareOperators.GT"),
    "gte": ("op", "CompareOperators.GTE"),
    "i": ("flag", "SigmaRegularExpressionFlag.IGNORECASE"), "ignorecase": ("flag", "SigmaRegularExpressionFlag.IGNORECASE"),
    "m": ("flag", "SigmaRegularExpressionFlag.MULTILINE"), "multiline": ("flag", "SigmaRegularExpressionFlag.MULTILINE"),
    "s": ("flag", "SigmaRegularExpressionFlag.DOTALL"), "dotall": ("flag", "SigmaRegularExpressionFlag.DOTALL"),
    "minute": ("time_part_unit", "TimestampPart.MINUTE"), "hour": ("time_part_unit", "TimestampPart.HOUR"),
    "day": ("time_part_unit", "TimestampPart.DAY"), "week": ("time_part_unit", "TimestampPart.WEEK"),
    "month": ("time_part_unit", "TimestampPart.MONTH"), "year": ("time_part_unit", "TimestampPart.YEAR"),
}
NAMED = {  # identifier -> class name fragment the registry must map it to
    "all": "SigmaAllModifier", "base64": "SigmaBase64Modifier", "base64offset": "SigmaBase64OffsetModifier", "cased": "SigmaCaseSensitiveModifier",
    "cidr": "SigmaCIDRModifier", "contains": "SigmaContainsModifier", "endswith": "SigmaEndswithModifier", "startswith": "SigmaStartswithModifier",
    "exists": "SigmaExistsModifier", "expand": "SigmaExpandModifier", "fieldref": "SigmaFieldReferenceModifier", "re": "SigmaRegularExpressionModifier",
    "windash": "SigmaWindowsDashModifier", "wide": "SigmaWideModifier", "utf16": "SigmaUTF16Modifier", "utf16be": "SigmaUTF16BEModifier",
}


def _registry(ctx) -> dict[str, str]:
    prog = ctx.prog
    mm = prog.module(M)
    for st in mm.tree.body:
        tgt = st.targets[0] if isinstance(st, ast.Assign) else (st.target if isinstance(st, ast.AnnAssign) else None)
        if tgt is not None and unparse(tgt) == "modifier_mapping" and isinstance(st.value, ast.Dict):  # type: ignore[union-attr]
            return {k.value: prog.resolve_expr(mm, v) for k, v in zip(st.value.keys, st.value.values)}  # type: ignore[union-attr]
    raise AnalysisError("anchor vanished: sigma.modifiers.modifier_mapping dict literal")


def run(ctx) -> None:
    r = ctx.r
    r.explanation = (
        "Structural clauses of the modifier contract decided on the source: registry totality and the per-identifier constants, "
        "unavoidability of the type gate in front of every modify(), guard–action agreement of the wildcard adders, effect "
        "signatures (only 'all' and the negation modifier write to the detection item, and exactly their one field), that only "
        "Sigma errors are raised by modifiers (explicit raises + the indexing operations on possibly empty strings), that string "
        "operations preserve the string class (case sensitivity) and never consult the stale `original` text, and the windash "
        "constants. The produced values themselves (dash variants, placeholder insertion on arbitrary strings, chains) are values "
        "of runtime strings and are not decided.")
    reg = _registry(ctx)
    r1_registry(ctx, reg)
    r2_type_gate(ctx)
    r3_wildcard_adders(ctx)
    r4_effects(ctx, reg)
    r5_only_sigma_errors(ctx)
    r6_class_and_original(ctx)
    r7_windash(ctx)
    from . import c12
    c12.r6_rebuild_sites(ctx, "C03.R8", scope=("sigma.modifiers",), floor=0)
    r9_argument_not_mutated(ctx)
    r10_re_needs_text(ctx)
    r11_placeholder_delimiters(ctx)
    r12_numbers_exact(ctx)
    # type-changing modifiers take over the parts of the value; printing and parsing it again changes it (shared with C05.R5)
    from . import c05
    c05.r5_reparse_sites(ctx, "C03.R13")


def r1_registry(ctx, reg: dict[str, str]) -> None:
    r, prog = ctx.r, ctx.prog
    r.rule("C03.R1", "every concrete SigmaModifier subclass is registered; every documented identifier maps to its class; the reverse mapping is derived from the registry")
    concrete = [c for c in prog.subclasses(BASE, strict=True) if not prog.is_abstract(c) and prog.lookup_method(c, "modify") is not None
                and not any(d.endswith("abstractmethod") for d in prog.lookup_method(c, "modify").decorators)]
    registered = set(reg.values())
    for c in concrete:
        # a class that registered classes derive from is a generic base: its subclasses supply the constants / are the reachable forms
        has_const_base = c.rsplit(".", 1)[-1] in ("SigmaValueModifier", "SigmaListModifier") or any(sc in registered for sc in prog.subclasses(c, strict=True))
        if c.endswith(".SigmaNotEqualModifier"):
            r.ok("C03.R1", c, "kept but deliberately unregistered: the identifier 'neq' is implemented by SigmaNegateModifier (negation of the whole item), this numeric variant is unreachable from rules")
        elif c in registered:
            r.ok("C03.R1", c, f"registered as {[k for k, v in reg.items() if v == c]}")
        elif has_const_base:
            r.ok("C03.R1", c, "generic base class (constants supplied by registered subclasses)")
        else:
            r.violation("C03.R1", c, "missing from modifier_mapping", "concrete modifier class is not reachable through any identifier")
    for ident, frag in NAMED.items():
        if reg.get(ident, "").endswith("." + frag):
            r.ok("C03.R1", M + ".modifier_mapping", f"{ident!r} → {frag}")
        else:
            r.violation("C03.R1", M + ".modifier_mapping", f"{ident!r} → {reg.get(ident)}", f"identifier {ident!r} must map to {frag}")
    for ident, (attr, want) in CONSTS.items():
        cq = reg.get(ident)
        a = prog.lookup_class_attr(cq, attr) if cq else None
        v = unparse(a[1].value) if a and getattr(a[1], "value", None) is not None else None
        if v == want:
            r.ok("C03.R1", cq or ident, f"{ident!r}: {attr} = {want}")
        else:
            r.violation("C03.R1", cq or ident, f"{ident!r}: {attr} = {v}", f"modifier registered as {ident!r} must carry {attr} = {want}")
    mm = prog.module(M)
    rev = mm.assigns.get("reverse_modifier_mapping")
    # the statement that builds the reverse mapping, interpreted (sa.tabulate) over a stand-in registry of the same shape
    from ..tabulate import Interp as _Ir
    reg_dict = next((st.value for st in mm.assigns.get("modifier_mapping", []) if isinstance(getattr(st, "value", None), ast.Dict)), None)
    derived = False
    why_rev = "reverse_modifier_mapping is not assigned at module level"
    if rev and reg_dict is not None:
        classes_ = {unparse(v): type(unparse(v), (), {}) for v in reg_dict.values}
        table_ = {k.value: classes_[unparse(v)] for k, v in zip(reg_dict.keys, reg_dict.values) if isinstance(k, ast.Constant)}
        table_["added-later"] = type("AddedLaterModifier", (), {})  # an identifier the source does not know: only a derivation can map it
        it_ = _Ir(dict(classes_, modifier_mapping=table_), max_steps=4000)
        try:
            it_.run([rev[-1]])
            got_rev = it_.env.get("reverse_modifier_mapping")
            want_rev = {v.__name__: k for k, v in table_.items()}
            derived = got_rev == want_rev
            why_rev = f"{len([k for k in want_rev if (got_rev or {}).get(k) != want_rev[k]])} class names map to another identifier than the registry gives" if not derived else ""
        except Exception as ex:  # noqa: BLE001
            why_rev = f"the statement cannot be evaluated over a stand-in registry: {ex}"
    if derived:
        r.ok("C03.R1", M + ".reverse_modifier_mapping", "derived from modifier_mapping (class name → identifier; interpreted over a registry with an added entry)")
    else:
        r.violation("C03.R1", M + ".reverse_modifier_mapping", "reverse mapping", f"reverse mapping is no longer derived from the registry: {why_rev}")
    r.floor("C03.R1", 50)


def r2_type_gate(ctx) -> None:
    r, prog = ctx.r, ctx.prog
    r.rule("C03.R2", "the type gate is unavoidable: in SigmaModifier.apply every path to modify(val) passes type_check(val) with SigmaTypeError on failure; expansion members go through apply again; apply_modifiers reaches modify only through apply")
    ap = prog.func(BASE + ".apply")
    loc = ap.loc
    # apply() interpreted (sa.tabulate, Proxy: helper methods and the recursion resolve from the source) with a recording
    # modify() and a type gate that admits a chosen set of values
    from ..tabulate import Proxy, call_method, Raised
    import typing as _typing
    import types as _types

    class SigmaExpansion:
        def __init__(self, values): self.values = list(values)

    class SigmaTypeError(Exception):
        def __init__(self, *a, **k): super().__init__(*a)

    env = {"SigmaExpansion": SigmaExpansion, "SigmaTypeError": SigmaTypeError, "cast": lambda t, v: v, "T": None, "SigmaType": object}
    IK = {"behaviours": (SigmaTypeError,), "max_steps": 6000}

    def run_apply(val, admitted, results):
        calls, checked = [], []

        def modify(v):
            calls.append(v)
            return results.get(v, f"m({v})")

        def type_check(v, explicit_type=None):
            checked.append(v)
            return v in admitted
        me = Proxy(prog, BASE, env, {"modify": modify, "type_check": type_check, "source": None}, interp_kwargs=IK)
        try:
            out = call_method(prog, BASE, "apply", me, env, val, interp_kwargs=IK)
        except Raised as ex:
            out = ex
        return out, calls, checked

    def show(o):
        if isinstance(o, SigmaExpansion):
            return "Expansion" + repr([show(x) for x in o.values])
        if isinstance(o, list):
            return [show(x) for x in o]
        return o

    gate, regate, flat = [], [], []
    out, calls, checked = run_apply("a", {"a"}, {})
    if show(out) != ["m(a)"] or calls != ["a"] or "a" not in checked:
        gate.append(f"admitted plain value: result {show(out)!r}, modify called with {calls}, gate asked about {checked}")
    out, calls, checked = run_apply("a", {"a"}, {"a": ["x", "y"]})
    if show(out) != ["x", "y"]:
        gate.append(f"modify returning a list: result {show(out)!r} instead of its items")
    out, calls, checked = run_apply("b", {"a"}, {})
    if not (isinstance(out, Raised) and "SigmaTypeError" in str(out)) or calls:
        gate.append(f"value the gate rejects: {'modify() was called with ' + repr(calls) if calls else 'result ' + repr(show(out))} instead of SigmaTypeError")
    # the gate is asked whatever the class of the value is: one stand-in per value class of sigma.types
    tm = prog.module("sigma.types")
    for cn in sorted(c.rsplit(".", 1)[-1] for c in prog.subclasses("sigma.types.SigmaType", strict=True) if c.startswith("sigma.types.")):
        if cn == "SigmaExpansion":
            continue
        K = type(cn, (), {"__repr__": lambda self: f"<{type(self).__name__}>"})
        env[cn] = K
        v = K()
        out, calls, checked = run_apply(v, set(), {})
        if not (isinstance(out, Raised) and "SigmaTypeError" in str(out)) or calls:
            gate.append(f"{cn} value the gate rejects: {'modify() was called with it' if calls else 'result ' + repr(show(out))} instead of SigmaTypeError")
        env.pop(cn)
    out, calls, checked = run_apply(SigmaExpansion(["a", "b"]), {"a", "b"}, {})
    if show(out) != ["Expansion['m(a)', 'm(b)']"] or calls != ["a", "b"] or not {"a", "b"} <= set(checked):
        regate.append(f"expansion of admitted members: result {show(out)!r}, modify called with {calls}, gate asked about {[show(c) for c in checked]}")
    out, calls, checked = run_apply(SigmaExpansion(["a", "b"]), {"a"}, {})
    if not (isinstance(out, Raised) and "SigmaTypeError" in str(out)) or "b" in calls:
        regate.append(f"expansion with a member the gate rejects: {'modify() was called with it' if 'b' in calls else 'result ' + repr(show(out))} instead of SigmaTypeError")
    out, calls, checked = run_apply(SigmaExpansion(["a", "b"]), {"a", "b"}, {"a": SigmaExpansion(["x", "y"]), "b": ["p", "q"]})
    if show(out) != ["Expansion['x', 'y', 'p', 'q']"]:
        flat.append(f"members that expand again: result {show(out)!r} instead of one flat expansion of x, y, p, q")
    if not gate:
        r.ok("C03.R2", ap.qual, "modify(val) only after type_check(val) succeeded; a failed type check raises SigmaTypeError (interpreted)", loc)
    else:
        r.violation("C03.R2", ap.qual, f"apply: {gate[0]}", "modify() reachable without a successful type_check of its argument, or a failed type check does not raise SigmaTypeError: an inadmissible chain produces a value instead of SigmaTypeError", loc)
    if not regate:
        r.ok("C03.R2", ap.qual, "expansion members are fed through the gate individually (interpreted)", loc)
    else:
        r.violation("C03.R2", ap.qual, f"SigmaExpansion branch: {regate[0]}", "members of an expansion value are not re-gated through apply()", loc)
    if not flat:
        r.ok("C03.R2", ap.qual, "results of expansion members that are expansions themselves are merged into one flat expansion (interpreted)", loc)
    else:
        r.violation("C03.R2", ap.qual, f"SigmaExpansion branch: {flat[0]}", "an expanding modifier applied to an expansion (windash|base64offset, base64offset|base64offset) nests an expansion inside an expansion: conversion iterates one level of values and fails with AttributeError on the inner one", loc)
    am = prog.func("sigma.rule.detection.SigmaDetectionItem.apply_modifiers")
    calls = [call_name(c) for c in walk_no_nested(am.node) if isinstance(c, ast.Call)]
    if "modifier_instance.apply" in calls and not any(c.endswith(".modify") for c in calls):
        r.ok("C03.R2", am.qual, "modifiers are applied only through .apply()", am.loc)
    else:
        r.violation("C03.R2", am.qual, "modifier_instance.apply(...)", "apply_modifiers calls modify() directly, bypassing the type gate", am.loc)
    # nobody else calls .modify( on a modifier
    for q, f in sorted(prog.funcs.items()):
        if q == ap.qual:
            continue
        for c in (x for x in walk_no_nested(f.node) if isinstance(x, ast.Call) and isinstance(x.func, ast.Attribute) and x.func.attr == "modify"):
            recv = ctx.types.class_names(f.module, c.func.value)
            if any(t in prog.classes and prog.is_subclass(t, BASE) for t in recv):
                if call_name(c).startswith("super()"):
                    continue
                r.violation("C03.R2", q, short(c, 80), "modify() of a modifier called outside SigmaModifier.apply", f"{f.module.relpath}:{c.lineno}")
    # type_check: annotation-driven
    tc = prog.func(BASE + ".type_check")
    tenv = {"get_origin": _typing.get_origin, "get_args": _typing.get_args, "Union": _typing.Union, "Any": _typing.Any, "types": _types, "Optional": _typing.Optional, "typing": _typing}
    hints = [
        (_typing.Any, [("a", True), (1, True), (None, True)]),
        (str, [("a", True), (1, False), (["a"], False)]),
        (_typing.Union[str, int], [("a", True), (1, True), (1.5, False), (["a"], False)]),
        (str | int, [("a", True), (1, True), (1.5, False)]),
        (list[str], [(["a", "b"], True), (["a", 1], False), ("a", False), ([], True)]),
        (list[_typing.Union[str, int]], [(["a", 1], True), (["a", 1.5], False)]),
        (_typing.Sequence[str], [(["a"], False), ("a", False)]),
    ]
    # admission is by class *membership*: a value of a subclass (a cased string is a Sigma string) is admitted wherever its
    # base class is — in every shape of annotation
    class _SubStr(str):
        pass

    class _SubInt(int):
        pass
    hints += [
        (str, [(_SubStr("a"), True)]),
        (_typing.Union[str, int], [(_SubStr("a"), True), (_SubInt(1), True)]),
        (str | int, [(_SubStr("a"), True), (_SubInt(1), True)]),
        (list[str], [([_SubStr("a"), "b"], True)]),
        (list[_typing.Union[str, int]], [([_SubStr("a"), _SubInt(1)], True)]),
    ]
    wrong = []
    ncases = 0
    for hint, samples in hints:
        for v, want in samples:
            ncases += 1
            me = Proxy(prog, BASE, tenv, {"_get_modify_type_hint": (lambda h=hint: h)}, interp_kwargs={"max_steps": 4000})
            try:
                got = call_method(prog, BASE, "type_check", me, tenv, v, interp_kwargs={"max_steps": 4000})
            except Raised as ex:
                got = f"<raises {ex}>"
            if got is not want:
                wrong.append(f"annotation {hint}, value {v!r}: {got!r} instead of {want}")
    ncases += 1
    me = Proxy(prog, BASE, tenv, {"_get_modify_type_hint": (lambda: str)}, interp_kwargs={"max_steps": 4000})
    try:
        got = call_method(prog, BASE, "type_check", me, tenv, 1, interp_kwargs={"max_steps": 4000}, explicit_type=int)
    except Raised as ex:
        got = f"<raises {ex}>"
    if got is not True:
        wrong.append(f"explicit_type=int, value 1: {got!r} instead of True")
    if not wrong:
        r.ok("C03.R2", tc.qual, f"type_check derives the admitted classes from modify()'s annotation; unknown shapes → False ({ncases} interpreted cases: Any, plain, both union forms, list[…])", tc.loc)
    else:
        r.violation("C03.R2", tc.qual, f"type_check: {wrong[0]}", f"{len(wrong)} of {ncases} interpreted cases deviate: type_check no longer derives admissibility from the modify() annotation (unknown shapes must be refused)", tc.loc)
    r.floor("C03.R2", 5)


def r3_wildcard_adders(ctx) -> None:
    r, prog = ctx.r, ctx.prog
    r.rule("C03.R3", "wildcard adders: a leading wildcard is added only when the value does not start with one, a trailing one only when it does not end with one; contains has both, startswith only the trailing, endswith only the leading; regex branches mirror it with '.*' and anchors; field references get the matching flags")
    spec = {"SigmaContainsModifier": (True, True), "SigmaStartswithModifier": (False, True), "SigmaEndswithModifier": (True, False)}
    for cn, (lead, trail) in spec.items():
        f = prog.lookup_method(f"{M}.{cn}", "modify")
        if f is None:
            raise AnalysisError(f"anchor vanished: {M}.{cn}.modify")
        _r3_wildcard_table(ctx, f, cn, lead, trail)
    # the same guard-action rule for the keyword-to-field wildcard adder (interpreted, shared with C12.R5)
    from . import c12
    before = len(r.findings)
    text3 = r.rule_text.get("C03.R3")
    c12.r5_keyword_wildcards(ctx)
    if text3 is not None:
        r.rule_text["C03.R3"] = text3
    for o in r.obligations:
        if o.get("rule") == "C12.R5":
            o["rule"] = "C03.R3"
    for fnd in r.findings[before:]:
        if fnd.rule == "C12.R5":
            fnd.rule = "C03.R3"
    r.rule_counts["C03.R3"] = r.rule_counts.get("C03.R3", 0) + r.rule_counts.pop("C12.R5", 0)
    r.rule_text.pop("C12.R5", None)
    r.floor_failures[:] = [x.replace("C12.R5", "C03.R3") if isinstance(x, str) else x for x in r.floor_failures]
    r.floor("C03.R3", 10)


REGEX_SAMPLES = ["foo", ".*foo", "foo.*", "^foo", "foo$", "foo\\$", "foo\\\\$", "foo\\.*", "foo\\\\.*", ".*foo.*", "^foo$", "\\.*foo", "", "a|b", "foo\\\\\\$"]


def _unescaped_tail(rx: str, tail: str) -> bool:
    if not rx.endswith(tail):
        return False
    head = rx[:-len(tail)]
    return (len(head) - len(head.rstrip("\\"))) % 2 == 0


PLAIN_SAMPLES = [["a", "b", "c"], ["*", "a", "b"], ["a", "b", "*"], ["*", "a", "*"], [], ["*"], ["a", "b", "\\*"], ["\\*", "a"], ["?", "a", "?"], ["a", "*", "b"]]


def _r3_wildcard_table(ctx, f: FuncInfo, cn: str, lead: bool, trail: bool) -> None:
    """A wildcard adder, tabulated: modify() of the concrete class is interpreted (sa.tabulate, Proxy — inherited bodies and
    class constants resolve from the source; nothing of pySigma runs) on stand-in values.
    plain strings: sequences of characters, wildcards and *escaped* wildcard characters — a multi wildcard is added in front
    (behind) exactly if the class asks for it and the first (last) element is not the multi wildcard itself;
    regular expressions: '.*' is added in front unless the text starts with '.*' or '^', and behind unless it ends with an
    *unescaped* '.*' or '$'; field references get the matching flags; the modified value is returned."""
    from ..tabulate import Proxy, call_method, Raised
    r, prog = ctx.r, ctx.prog

    class _W:  # SpecialChars.WILDCARD_MULTI
        def __repr__(self): return "<*>"

    wm = _W()

    class _S:  # SigmaString stand-in: elements are characters, the multi wildcard (wm) or an escaped literal ('\\*')
        def __init__(self, t=""):
            self.e = [wm if c == "*" else c for c in t] if isinstance(t, str) else list(t)

        @staticmethod
        def _el(o):
            return [wm] if o is wm else list(o.e) if isinstance(o, _S) else [wm if c == "*" else c for c in o]

        def __add__(self, o): return _S(self.e + _S._el(o))
        def __radd__(self, o): return _S(_S._el(o) + self.e)
        def startswith(self, o): return bool(self.e) and (self.e[0] is wm if o is wm else str(self).startswith(o))
        def endswith(self, o): return bool(self.e) and (self.e[-1] is wm if o is wm else str(self).endswith(o))
        def __str__(self): return "".join("*" if x is wm else x for x in self.e)
        def __len__(self): return len(self.e)

    class _RX:
        def __init__(self, t, *args, **kwargs):
            self.regexp = t if isinstance(t, _S) else _S(t)
            self.compiled = 0

        def compile(self):
            self.compiled += 1

    class _FR:
        def __init__(self, field="f", starts_with=False, ends_with=False): self.field, self.starts_with, self.ends_with = field, starts_with, ends_with

    sc = type("SpecialChars", (), {"WILDCARD_MULTI": wm})
    env = {"SigmaString": _S, "SigmaRegularExpression": _RX, "SigmaFieldReference": _FR, "SpecialChars": sc}
    cq = f"{M}.{cn}"

    def modify(v):
        me = Proxy(prog, cq, env, {"applied_modifiers": [], "source": None, "detection_item": None}, interp_kwargs={"max_steps": 4000})
        try:
            return call_method(prog, cq, "modify", me, env, v, interp_kwargs={"max_steps": 4000})
        except Raised as ex:
            return ex

    bad = []
    for els in PLAIN_SAMPLES:
        src = _S([wm if x == "*" else x for x in els])
        out = modify(src)
        want = ([wm] if lead and not (src.e and src.e[0] is wm) else []) + src.e
        want = want + ([wm] if trail and not (want and want[-1] is wm and (src.e and src.e[-1] is wm or not src.e and lead)) else [])
        # an empty value asked for both sides: one or two wildcards denote the same; accept both
        got = out.e if isinstance(out, _S) else None
        okp = got is not None and (len(got) == len(want) and all(a is b or a == b for a, b in zip(got, want)) or (not src.e and lead and trail and got in ([wm], [wm, wm])))
        if not okp:
            bad.append((f"plain value {els}", f"gives {got if got is not None else out!r}, specified {want}"))
    if bad:
        what, why = bad[0]
        r.violation("C03.R3", f.qual, f"{cn}.modify on {what}", f"{why} (+{len(bad) - 1} more sample(s)): a leading wildcard is added only when the value does not start with one, a trailing one only when it does not end with one (an escaped '*' at the edge is a literal character, the wildcard is still missing); {cn} adds leading={lead}, trailing={trail}", f.loc)
    else:
        r.ok("C03.R3", f.qual, f"plain strings tabulated on {len(PLAIN_SAMPLES)} samples: leading={lead}, trailing={trail} wildcard added exactly where missing; the modified value is returned", f.loc)
    bad = []
    for rx in REGEX_SAMPLES:
        v = _RX(rx)
        out = modify(v)
        got = str(out.regexp) if isinstance(out, _RX) else repr(out)
        want = ("" if not lead or rx.startswith(".*") or rx.startswith("^") else ".*") + rx + \
               ("" if not trail or _unescaped_tail(rx, ".*") or _unescaped_tail(rx, "$") else ".*")
        if got != want:
            bad.append((rx, f"gives {got!r}, specified {want!r}"))
    if bad:
        rx, why = bad[0]
        r.violation("C03.R3", f.qual, f"regular expression branch of {cn}.modify on {rx!r}",
                    f"{why} (+{len(bad) - 1} more sample(s)): '.*' is added in front unless the expression starts with '.*' or '^', and behind unless it ends with an unescaped '.*' or '$' — a '$' or '.' behind an odd number of backslashes is a literal character, the wildcard is still missing", f.loc)
    else:
        r.ok("C03.R3", f.qual, f"regular expression branch tabulated on {len(REGEX_SAMPLES)} sample texts: '.*' added exactly where missing (escaped tails counted as literals)", f.loc)
    badf = []
    for sw in (False, True):
        for ew in (False, True):
            out = modify(_FR("fld", sw, ew))
            flags = (out.field, out.starts_with, out.ends_with) if isinstance(out, _FR) else repr(out)
            want_flags = ("fld", sw or trail, ew or lead)
            if flags != want_flags:
                badf.append(f"reference (field, starts_with, ends_with)=('fld', {sw}, {ew}) becomes {flags}, expected {want_flags}")
    if not badf:
        r.ok("C03.R3", f.qual, f"field reference flags: starts_with |= {trail}, ends_with |= {lead}; flags set by an earlier modifier are kept", f.loc)
    else:
        r.violation("C03.R3", f.qual, f"field reference flags: {badf[0]}", f"{len(badf)} of 4 cases deviate: the modifier adds its own flag(s) to the reference and keeps those an earlier modifier of the chain has set", f.loc)


def r4_effects(ctx, reg: dict[str, str]) -> None:
    r, prog = ctx.r, ctx.prog
    r.rule("C03.R4", "effect signatures: 'all' stores exactly detection_item.value_linking = ConditionAND, the negation modifier exactly detection_item.negated = True; no other modifier writes to the detection item; type-changing modifiers return a constructor call built from val")
    allowed = {M + ".SigmaAllModifier.modify": ("value_linking", "ConditionAND"), M + ".SigmaNegateModifier.modify": ("negated", "True")}
    for cq in sorted(set(reg.values()) | {c for c in prog.subclasses(BASE, strict=True)}):
        c = prog.classes.get(cq)
        if c is None:
            continue
        for name, f in c.methods.items():
            stores = [n for n in walk_no_nested(f.node) if isinstance(n, ast.Attribute) and isinstance(n.ctx, (ast.Store, ast.Del)) and unparse(n.value) == "self.detection_item"]
            muts = [x for x in walk_no_nested(f.node) if isinstance(x, ast.Call) and isinstance(x.func, ast.Attribute) and unparse(x.func.value).startswith("self.detection_item") and x.func.attr in ("append", "extend", "clear", "pop", "insert", "remove", "update", "apply_modifiers")]
            for n in stores:
                st = prog.enclosing_stmt(n)
                loc = f"{f.module.relpath}:{n.lineno}"
                want = allowed.get(f.qual)
                if want and n.attr == want[0] and isinstance(st, ast.Assign):
                    r.ok("C03.R4", f.qual, f"{unparse(st)[:80]} (the documented attribute; its value is decided by interpretation)", loc)
                else:
                    r.violation("C03.R4", f.qual, unparse(st)[:120], "a modifier writes to the detection item outside the two documented effects (all → value_linking = ConditionAND, neq → negated = True)", loc)
            for x in muts:
                r.violation("C03.R4", f.qual, short(x, 100), "a modifier mutates the detection item", f"{f.module.relpath}:{x.lineno}")
    # effects and results: modify() of each of these modifiers interpreted (sa.tabulate, Proxy) on stand-in values
    import types as _types
    from ..tabulate import Proxy as _Pe, call_method as _cme, Raised as _Re

    class ConditionAND: pass
    class _Rec:
        """a value class of sigma.types: remembers how it was built"""
        def __init__(self, *a, **k): self.a, self.k = a, k
        def __eq__(self, o): return type(o) is type(self) and o.a == self.a and o.k == self.k
        def __hash__(self): return 1
        def __repr__(self): return f"{type(self).__name__}{self.a}{self.k or ''}"
    class SigmaCIDRExpression(_Rec): pass
    class SigmaCompareExpression(_Rec): pass
    class SigmaFieldReference(_Rec): pass
    class SigmaExists(_Rec): pass
    class SigmaRegularExpression(_Rec): pass
    class SigmaTimestampPart(_Rec): pass
    class SigmaCasedString(_Rec):
        @classmethod
        def from_sigma_string(cls, v): return cls("from_sigma_string", v)
    class SigmaValueError(Exception):
        def __init__(self, *a, **k): super().__init__(*a)
    class _Val:
        original, boolean, number = "ORIGINAL-TEXT", True, 5.0
        def to_plain(self, regex=False): return "CHARACTERS" if regex else "ESCAPED-FORM"
        def insert_placeholders(self): return "WITH-PLACEHOLDERS"
        def contains_special(self): return False
        def contains_placeholder(self, *a, **k): return False
        def __str__(self): return "TEXT-FORM"
    env_e = {k_: v_ for k_, v_ in locals().items() if isinstance(v_, type) and not k_.startswith("_")}
    IKe = {"max_steps": 4000, "behaviours": (SigmaValueError,)}

    def run_modify(cn, extra=None, val=None):
        item = _types.SimpleNamespace(value_linking="OR-BEFORE", negated=False, field="f", modifiers=[], value=["v"])
        before = dict(vars(item))
        me = _Pe(prog, f"{M}.{cn}", env_e, dict({"detection_item": item, "applied_modifiers": [], "source": "SRC"}, **(extra or {})), interp_kwargs=IKe)
        v = _Val() if val is None else val
        try:
            out = _cme(prog, f"{M}.{cn}", "modify", me, env_e, v, interp_kwargs=IKe)
        except _Re as ex:
            out = f"raises {ex}"
        changed = {k_: v_ for k_, v_ in vars(item).items() if before.get(k_, "<new>") is not v_ and before.get(k_, "<new>") != v_}
        return out, changed, v
    for cn, want_change in (("SigmaAllModifier", {"value_linking": ConditionAND}), ("SigmaNegateModifier", {"negated": True})):
        f = prog.func(f"{M}.{cn}.modify")
        vals = ["a", "b"]
        out, changed, v = run_modify(cn, val=vals)
        if changed != want_change:
            r.violation("C03.R4", f.qual, f"self.detection_item.{list(want_change)[0]} = {list(want_change.values())[0] if not isinstance(list(want_change.values())[0], type) else list(want_change.values())[0].__name__}", f"documented effect missing or another attribute written: the detection item changes by {changed!r}", f.loc)
        else:
            r.ok("C03.R4", f.qual, f"exactly detection_item.{list(want_change)[0]} is set (interpreted)", f.loc)
        if out is not vals or vals != ["a", "b"]:
            r.violation("C03.R4", f.qual, "return val", f"list modifier must hand the values back unchanged: returns {out!r}", f.loc)
        else:
            r.ok("C03.R4", f.qual, "values returned unchanged", f.loc)
    the_val = _Val()
    ctor = {  # modifier → (instance attributes, specified result)
        "SigmaCaseSensitiveModifier": ({}, SigmaCasedString("from_sigma_string", the_val)),
        "SigmaCIDRModifier": ({}, SigmaCIDRExpression("TEXT-FORM", source="SRC")),
        "SigmaCompareModifier": ({"op": "OP"}, SigmaCompareExpression(the_val, "OP", "SRC")),
        "SigmaFieldReferenceModifier": ({}, SigmaFieldReference("CHARACTERS")),  # the characters of the value (C05.R9), not its escaped source form
        "SigmaExistsModifier": ({}, SigmaExists(True)),
        "SigmaRegularExpressionModifier": ({}, SigmaRegularExpression("ORIGINAL-TEXT")),
        "SigmaTimestampModifier": ({"time_part_unit": "UNIT"}, SigmaTimestampPart("UNIT", 5)),
        "SigmaExpandModifier": ({}, "WITH-PLACEHOLDERS"),
    }
    for cn, (extra, want) in ctor.items():
        f = prog.func(f"{M}.{cn}.modify")
        out, changed, _v = run_modify(cn, extra, the_val)
        same = (out == want) and (type(out) is type(want)) and not changed
        if same and isinstance(out, _Rec) and any(type(x) is float for x in out.a):
            same = False
        if same:
            r.ok("C03.R4", f.qual, f"returns {want!r} for the stand-in value (interpreted)", f.loc)
        else:
            r.violation("C03.R4", f.qual, f"returns {out!r}" + (f", detection item changed by {changed!r}" if changed else ""), f"type-changing modifier must return {want!r} (content of the value unchanged)", f.loc)
    f = prog.func(M + ".SigmaRegularExpressionFlagModifier.modify")
    flags_added: list = []
    rx_val = _types.SimpleNamespace(add_flag=lambda fl: flags_added.append(fl))
    out, changed, _v = run_modify("SigmaRegularExpressionFlagModifier", {"flag": "THE-FLAG"}, rx_val)
    if out is rx_val and flags_added == ["THE-FLAG"] and not changed:
        r.ok("C03.R4", f.qual, "adds exactly its own flag", f.loc)
    else:
        r.violation("C03.R4", f.qual, "val.add_flag(self.flag); return val", f"flag modifier must add exactly its class flag: flags added {flags_added}, returns {'the expression' if out is rx_val else repr(out)}", f.loc)
    # guards of the 'only unmodified values' modifiers
    for cn in ("SigmaRegularExpressionModifier", "SigmaCIDRModifier", "SigmaExistsModifier"):
        f = prog.func(f"{M}.{cn}.modify")
        outs4 = unmodified_guard_outcomes(ctx, cn)
        ok_ = outs4 == {0: "accepted", 1: "refused", 2: "refused"}
        if ok_:
            r.ok("C03.R4", f.qual, "refuses already modified values", f.loc)
        else:
            r.violation("C03.R4", f.qual, "if len(self.applied_modifiers) > 0: raise SigmaValueError", "modifier must refuse a value that earlier modifiers changed (its input is the original text)", f.loc)
    f = prog.func(M + ".SigmaFieldReferenceModifier.modify")
    if any(isinstance(n, ast.If) and unparse(n.test) == "val.contains_special()" and isinstance(n.body[0], ast.Raise) for n in walk_no_nested(f.node)):
        r.ok("C03.R4", f.qual, "field references with wildcards are refused", f.loc)
    else:
        r.violation("C03.R4", f.qual, "if val.contains_special(): raise", "fieldref must refuse wildcard values", f.loc)
    r.floor("C03.R4", 16)


def r5_only_sigma_errors(ctx) -> None:
    r, prog = ctx.r, ctx.prog
    r.rule("C03.R5", "modifiers raise only Sigma errors: every explicit raise in modify()/apply() is a SigmaError, and no modify() indexes a string that can be empty")
    roots5 = [q for q, f in prog.funcs.items() if f.module.name == M and f.cls is not None and f.name in ("modify", "apply", "type_check")]
    # … and the helpers of the module they call (a guard may live in a helper)
    scope5 = sorted(q for q in ctx.cg.reachable(roots5) if q in prog.funcs and prog.funcs[q].module.name == M)
    for q in scope5:
        f = prog.funcs[q]
        for node, cls, h in explicit_raises(prog, f):
            if cls is None:
                continue
            loc = f"{f.module.relpath}:{node.lineno}"
            if is_sigma_error(prog, cls) or h is not None:
                r.ok("C03.R5", q, f"raise {cls.rsplit('.', 1)[-1]}", loc)
            else:
                r.violation("C03.R5", q, " ".join(unparse(node).split())[:120], f"{cls} is not a Sigma error", loc)
        for n in walk_no_nested(f.node):
            if isinstance(n, ast.Subscript) and isinstance(n.ctx, ast.Load) and not isinstance(n.slice, ast.Slice):
                t = ctx.types.type_str(f.module, n.value)
                if t in ("builtins.str", "str") and isinstance(n.slice, (ast.Constant, ast.UnaryOp)):
                    gs = atomic_guards(guards_at(prog, f, n))
                    nonempty = any(p and (g in (unparse(n.value), f"len({unparse(n.value)}) > 0", f"{unparse(n.value)} != ''")) for g, p in gs)
                    loc = f"{f.module.relpath}:{n.lineno}"
                    if nonempty:
                        r.ok("C03.R5", q, f"{unparse(n)} under a non-empty guard", loc)
                    else:
                        r.violation("C03.R5", q, unparse(n), "indexing a string that can be empty (e.g. an empty regular expression) raises IndexError instead of a Sigma error", loc)
    r.floor("C03.R5", 10)


def r6_class_and_original(ctx) -> None:
    r, prog = ctx.r, ctx.prog
    r.rule("C03.R6", "string operations preserve the string class (a SigmaCasedString stays case-sensitive): methods of SigmaString that build a new string from self instantiate self.__class__; the unparsed `original` text is consulted only for values no modifier has touched")
    sc = prog.cls("sigma.types.SigmaString")
    # the string builders interpreted (sa.tabulate) on a value of a string subclass: every result is of that subclass
    import re as _re
    from ..tabulate import Raised
    from .standins import string_standin
    Str, Cased, PH, spc, senv = string_standin(ctx)
    W = spc.WILDCARD_MULTI
    scenarios = [
        ("__add__", "cased + plain string object", lambda: Cased(["ab"]).call("__add__", Str(["cd", W])), ["abcd", W]),
        ("__add__", "cased + text", lambda: Cased(["ab"]).call("__add__", "cd"), ["abcd"]),
        ("__add__", "cased + wildcard", lambda: Cased(["ab"]).call("__add__", W), ["ab", W]),
        ("__radd__", "text + cased", lambda: Cased(["ab"]).call("__radd__", "x"), ["xab"]),
        ("__radd__", "wildcard + cased", lambda: Cased(["ab"]).call("__radd__", W), [W, "ab"]),
        ("__getitem__", "slice inside one part", lambda: Cased(["abcdef"]).call("__getitem__", slice(1, 4)), ["bcd"]),
        ("__getitem__", "slice over a wildcard", lambda: Cased(["abc", W, "def"]).call("__getitem__", slice(2, 5)), ["c", W, "d"]),
        ("__getitem__", "single position", lambda: Cased(["abc"]).call("__getitem__", 1), ["b"]),
        ("__getitem__", "empty range", lambda: Cased(["abc"]).call("__getitem__", slice(2, 1)), []),
        ("replace_with_placeholder", "a match becomes a placeholder", lambda: Cased(["a-b"]).call("replace_with_placeholder", _re.compile("-"), "_dash"), None),
        ("map_parts", "string parts mapped", lambda: Cased(["ab", W, "cd"]).call("map_parts", (lambda x: x.upper()), (lambda x: isinstance(x, str))), ["AB", W, "CD"]),
    ]
    per_method: dict[str, list[str]] = {}
    for name, what, run, want in scenarios:
        if name not in sc.methods:
            raise AnalysisError(f"anchor vanished: SigmaString.{name}")
        try:
            out = run()
        except Raised as ex:
            per_method.setdefault(name, []).append(f"{what}: raises {ex}")
            continue
        if type(out) is not Cased:
            per_method.setdefault(name, []).append(f"{what}: the result is a {type(out).__name__} ({getattr(out, 's', out)!r}), not a string of the value's class")
        elif want is not None and out.s != want:
            per_method.setdefault(name, []).append(f"{what}: parts {out.s!r} instead of {want!r}")
        else:
            per_method.setdefault(name, [])
    for name, probs in per_method.items():
        f = sc.methods[name]
        if not probs:
            r.ok("C03.R6", f.qual, "new strings have the class of the value (interpreted on a string subclass)", f.loc)
        elif name == "__add__" and "plain string object" in probs[0]:
            r.violation("C03.R6", f.qual, f"operand tests: {probs[0]}", "'+' accepts a string operand only if it is of the left operand's own class: a case-sensitive string cannot be joined with the plain strings placeholder replacement produces (TypeError for expand|cased with a value list)", f.loc)
        else:
            r.violation("C03.R6", f.qual, f"{name}: {probs[0]}", "a new string is built as plain SigmaString: for a SigmaCasedString operand the result silently loses its case sensitivity (e.g. cased|endswith, cased|contains, cased|windash)", f.loc)
    # replace_placeholders: decided with the other placeholder rules (C17.R3 interprets it on a string subclass)
    from .c17 import _r3_string_expansion
    n_before = len(r.findings)
    _r3_string_expansion(ctx, sc.methods["replace_placeholders"])
    for o in r.obligations:
        if o.get("rule") == "C17.R3":
            o["rule"] = "C03.R6"
    for fnd in r.findings[n_before:]:
        if fnd.rule == "C17.R3":
            fnd.rule = "C03.R6"
    r.rule_counts["C03.R6"] = r.rule_counts.get("C03.R6", 0) + r.rule_counts.pop("C17.R3", 0)
    original_reads(ctx, "C03.R6")
    r.floor("C03.R6", 8)


def unmodified_guard_outcomes(ctx, cn: str) -> dict[int, str]:
    """modify() of the modifier class ``cn`` interpreted (sa.tabulate, Proxy) on a stand-in value with 0, 1 and 2 modifiers
    applied before: 'accepted' | 'refused' (SigmaValueError) | 'raises …' each."""
    from ..tabulate import Proxy as _P4, call_method as _cm4, Raised as _R4
    from .c06_keys import U as _U4
    prog = ctx.prog
    cache = ctx.__dict__.setdefault("_c03_unmodified", {})
    if cn in cache:
        return cache[cn]

    class SigmaValueError(Exception):
        def __init__(self, *a, **k): super().__init__(*a)
    env4 = {"SigmaValueError": SigmaValueError}
    IK4 = {"max_steps": 4000, "behaviours": (SigmaValueError,)}
    outs4 = {}
    for before in (0, 1, 2):
        me4 = _P4(prog, f"{M}.{cn}", env4, {"applied_modifiers": [object()] * before, "source": None, "detection_item": _U4("item")}, interp_kwargs=IK4)
        try:
            _cm4(prog, f"{M}.{cn}", "modify", me4, env4, _U4("val"), interp_kwargs=IK4)
            outs4[before] = "accepted"
        except _R4 as ex:
            outs4[before] = "refused" if "SigmaValueError" in str(ex) else f"raises {ex}"
    cache[cn] = outs4
    return outs4


def original_reads(ctx, rid: str) -> None:
    """Reads of SigmaString.original (shared with C05.R8)."""
    r, prog = ctx.r, ctx.prog
    for q, f in sorted(prog.funcs.items()):
        if not f.module.name.startswith(("sigma.types", "sigma.modifiers", "sigma.rule", "sigma.processing", "sigma.conversion")):
            continue
        for n in walk_no_nested(f.node):
            if isinstance(n, ast.Attribute) and n.attr == "original" and isinstance(n.ctx, ast.Load):
                recv = ctx.types.class_names(f.module, n.value)
                if not any(t.endswith(("SigmaString", "SigmaCasedString")) for t in recv):
                    continue
                loc = f"{f.module.relpath}:{n.lineno}"
                gs = atomic_guards(guards_at(prog, f, n))
                if q == M + ".SigmaRegularExpressionModifier.modify" and unmodified_guard_outcomes(ctx, "SigmaRegularExpressionModifier") == {0: "accepted", 1: "refused", 2: "refused"}:
                    r.ok(rid, q, "val.original read only for unmodified values (re must see the raw text)", loc)
                elif q.endswith("SigmaCasedString.from_sigma_string") or f.name in ("__init__", "from_str", "__repr__"):
                    r.ok(rid, q, f"{unparse(n)} copied/kept, not interpreted", loc)
                else:
                    r.violation(rid, q, short(prog.enclosing_stmt(n), 100),
                                "`original` is the unparsed source text; it is empty or stale for every string rebuilt by an earlier modifier (contains/startswith/endswith add wildcards through +, wide/utf16* assign .s): decisions taken on it ignore the actual value", loc)


def r7_windash(ctx) -> None:
    r, prog = ctx.r, ctx.prog
    r.rule("C03.R7", "windash: parameter-position dashes are found with the pattern \\B[-/]\\b compiled without flags (Unicode word boundaries) and replaced by exactly '-', '/', en dash, em dash, horizontal bar")
    f = prog.func(M + ".SigmaWindowsDashModifier.modify")
    c = prog.cls(M + ".SigmaWindowsDashModifier")
    # modify() interpreted (sa.tabulate, Proxy) on a recording stand-in string: which pattern marks the dashes, under which
    # placeholder name, and what the replacement callback yields for that placeholder and for a foreign one
    import re as _re
    from ..tabulate import Proxy, call_method, Raised

    class Placeholder:
        def __init__(self, name): self.name = name

    class SigmaExpansion:
        def __init__(self, values): self.values = list(values)

    seen = {}

    class _Marked:
        def replace_placeholders(self, callback):
            own, foreign = Placeholder(seen["name"]), Placeholder("user_defined")
            seen["own"] = list(callback(own))
            got = list(callback(foreign))
            seen["foreign_kept"] = len(got) == 1 and got[0] is foreign
            return ["<variants>"]

    class _Val:
        def replace_with_placeholder(self, regex, name):
            seen["regex"], seen["name"] = regex, name
            return _Marked()

    env = {"re": _re, "Placeholder": Placeholder, "SigmaExpansion": SigmaExpansion, "cast": lambda t, v: v, "SigmaType": object}
    IK = {"max_steps": 4000}
    try:
        out = call_method(prog, c.qual, "modify", Proxy(prog, c.qual, env, {"applied_modifiers": [], "source": None}, interp_kwargs=IK), env, _Val(), interp_kwargs=IK)
    except Raised as ex:
        out = ex
    if not isinstance(seen.get("regex"), _re.Pattern) or "own" not in seen:
        raise AnalysisError(f"{f.qual}: the value is not marked with replace_with_placeholder(<pattern>, <name>) and expanded with replace_placeholders (result {out!r})")
    rx = seen["regex"]
    ref = _re.compile("\\B[-/]\\b")
    samples = ["-a", "/a", "a-b", " -param", "--x", "-\u00e9", "\u00e9-\u00e9", "a -1", "-", "x/-y", "cmd /c -enc", "\u00e9 -\u00e9", "a/b", "- a", "-_a", "(-x)"]
    diff = [t for t in samples if [m.span() for m in rx.finditer(t)] != [m.span() for m in ref.finditer(t)]]
    if not diff and rx.flags == ref.flags:
        r.ok("C03.R7", c.qual, f"dash pattern {rx.pattern!r} without flags: marks the same positions as \\B[-/]\\b on {len(samples)} sample texts (incl. non-ASCII letters)", f.loc)
    else:
        r.violation("C03.R7", c.qual, f"re.compile({rx.pattern!r}, flags={rx.flags})", "dash positions must be found with \\B[-/]\\b and default (Unicode) word boundaries: with re.ASCII a dash before a non-ASCII letter is missed and one between non-ASCII letters is wrongly expanded" + (f" (differs on {diff[0]!r})" if diff else ""), f.loc)
    want = ["-", "/", chr(0x2013), chr(0x2014), chr(0x2015)]
    if seen["own"] == want:
        r.ok("C03.R7", f.qual, "five variants '-', '/', U+2013, U+2014, U+2015 for the internal placeholder", f.loc)
    else:
        r.violation("C03.R7", f.qual, f"variants {seen['own']!r}", "dash variants must be exactly ('-', '/', en dash, em dash, horizontal bar)", f.loc)
    if seen["foreign_kept"]:
        r.ok("C03.R7", f.qual, "other placeholders handed back", f.loc)
    else:
        r.violation("C03.R7", f.qual, "callback", "other placeholders must be yielded back unchanged", f.loc)
    if isinstance(out, SigmaExpansion) and out.values == ["<variants>"]:
        r.ok("C03.R7", f.qual, "returns the expansion of all variants", f.loc)
    else:
        r.violation("C03.R7", f.qual, f"returns {out!r}", "the modifier must return the expansion of all variants", f.loc)
    if str(seen["name"]).startswith("_"):
        r.ok("C03.R7", f.qual, f"internal placeholder name {seen['name']!r} starts with '_'", f.loc)
    else:
        r.violation("C03.R7", f.qual, f"placeholder name {seen['name']!r}", "the internal placeholder must not collide with user placeholders", f.loc)
    r.floor("C03.R7", 5)


def r9_argument_not_mutated(ctx, rid: str = "C03.R9") -> None:
    r, prog = ctx.r, ctx.prog
    r.rule(rid, "a modifier does not change the string it is given: the first modifier of a chain receives the very object the detection item keeps as original value (for conversion back to a plain data structure), so modify() may only call methods of SigmaString that build a new string")
    mutating = set()
    for cq in prog.subclasses("sigma.types.SigmaString"):
        for name, f in prog.cls(cq).methods.items():
            if name in ("__init__", "__post_init__"):
                continue
            if any(isinstance(n, (ast.Assign, ast.AugAssign)) and any(isinstance(t, (ast.Attribute, ast.Subscript)) and unparse(t).startswith("self.") for t in (n.targets if isinstance(n, ast.Assign) else [n.target])) for n in walk_no_nested(f.node)):
                mutating.add(name)
    n = 0
    for cq in sorted(prog.subclasses(BASE, strict=True)):
        f = prog.cls(cq).methods.get("modify")
        if f is None:
            continue
        param = f.params()[1] if len(f.params()) > 1 else "val"
        for c in walk_no_nested(f.node):
            if isinstance(c, ast.Call) and isinstance(c.func, ast.Attribute) and isinstance(c.func.value, ast.Name) and c.func.value.id == param:
                recv = ctx.types.class_names(f.module, c.func.value)
                if not any(t.endswith((".SigmaString", ".SigmaCasedString")) for t in recv):
                    continue
                n += 1
                loc = f"{f.module.relpath}:{c.lineno}"
                if c.func.attr in mutating:
                    r.violation(rid, f.qual, short(c, 80), f"SigmaString.{c.func.attr}() changes the string in place; applied to the original value object it changes what to_plain()/to_dict() write (an escaped \\%PATH\\% is written back as %PATH% and expanded on load)", loc)
                else:
                    r.ok(rid, f.qual, f"{short(c, 60)}: builds a new value", loc)
        for st in walk_no_nested(f.node):
            if isinstance(st, (ast.Assign, ast.AugAssign)):
                for t in (st.targets if isinstance(st, ast.Assign) else [st.target]):
                    if isinstance(t, (ast.Attribute, ast.Subscript)) and unparse(t).split(".")[0].split("[")[0] == param:
                        recv = ctx.types.class_names(f.module, t.value) if isinstance(t, ast.Attribute) else []
                        if any(x.endswith((".SigmaString", ".SigmaCasedString")) for x in recv):
                            r.violation(rid, f.qual, stmt_head(st), "the modifier assigns into the string it was given", f"{f.module.relpath}:{st.lineno}")
    r.note(f"{rid}: self-mutating SigmaString methods: {sorted(mutating)}")
    r.floor(rid, 5)


def _raises_sigma(prog, f: FuncInfo, rs: ast.Raise) -> bool:
    e = rs.exc.func if isinstance(rs.exc, ast.Call) else rs.exc
    q = prog.resolve_expr(f.module, e) if e is not None else None
    return bool(q) and is_sigma_error(prog, q)


def r10_re_needs_text(ctx, rid: str = "C03.R10") -> None:
    """`re` is applied before typing: from_mapping wraps the raw YAML value into a SigmaString itself (no escaping), so the
    generic type gate of SigmaModifier.apply sees a SigmaString whatever the YAML value was."""
    r, prog = ctx.r, ctx.prog
    r.rule(rid, "a raw value is wrapped with SigmaString.from_str only if it is a str: the call is guarded by isinstance(v, str), or a refusal (Sigma error) for `not all(isinstance(v, str) …)` under the same modifier test precedes it")
    n = 0
    # SigmaDetectionItem.from_mapping interpreted (sa.tabulate): which raw values reach the literal wrapping, under which modifiers
    from ..tabulate import ClassProxy, call_method, Raised
    import types as _types
    DI = "sigma.rule.detection.SigmaDetectionItem"
    fm = prog.func(DI + ".from_mapping")

    class _SE(Exception): pass
    class SigmaDetectionError(_SE): pass
    class SigmaModifierError(_SE): pass
    class SigmaTypeError(_SE): pass
    for k_ in (SigmaDetectionError, SigmaModifierError, SigmaTypeError):
        k_.__init__ = lambda self_, *a, **k: Exception.__init__(self_, *a)
    # the modifier table of the source, with a stand-in class under the name of every modifier class
    mm = prog.modules["sigma.modifiers"].assigns.get("modifier_mapping", [])
    mm_dict = next((st.value for st in mm if isinstance(getattr(st, "value", None), ast.Dict)), None)
    if mm_dict is None or len(mm_dict.keys) < 20:
        raise AnalysisError("anchor vanished: sigma.modifiers.modifier_mapping is no longer a dict display of ≥ 20 modifiers")
    mod_classes = {unparse(v): type(unparse(v), (), {}) for v in mm_dict.values}
    mod_table = {k.value: mod_classes[unparse(v)] for k, v in zip(mm_dict.keys, mm_dict.values) if isinstance(k, ast.Constant)}
    SigmaRegularExpressionModifier = mod_table["re"]
    wrapped, typed = [], []
    class SigmaString:
        @staticmethod
        def from_str(v):
            wrapped.append(v)
            return ("literal", v)
    def sigma_type(v):
        typed.append(v)
        return ("typed", v)
    exc_ns = _types.SimpleNamespace(SigmaDetectionError=SigmaDetectionError, SigmaModifierError=SigmaModifierError, SigmaTypeError=SigmaTypeError)
    env = {"sigma_exceptions": exc_ns, "SigmaDetectionError": SigmaDetectionError, "SigmaModifierError": SigmaModifierError, "SigmaTypeError": SigmaTypeError,
           "modifier_mapping": mod_table, "SigmaString": SigmaString, "sigma_type": sigma_type}
    env.update(mod_classes)
    IK = {"max_steps": 6000, "behaviours": (_SE,)}
    built = []
    klass = ClassProxy(prog, DI, env, ctor=lambda *a, **k: (built.append((a, k)), ("item", a, k))[1], interp_kwargs=IK)
    bad10 = []
    for key, val, want in ((
            ("f|re", "a\\*b", ("literal", ["a\\*b"])), ("f|re", ["x", "y*"], ("literal", ["x", "y*"])), ("f|re|i", "x", ("literal", ["x"])), ("f|re", [], ("literal", [])),
            ("|re", "kw", ("literal", ["kw"])),
            ("f|re", 5, "refused"), ("f|re", ["x", 5], "refused"), ("f|re", None, "refused"), ("f|re", [True], "refused"), ("f|re|i", 1.5, "refused"),
            ("f", "a*", ("typed", ["a*"])), ("f", 5, ("typed", [5])), ("f|contains", ["a", 5], ("typed", ["a", 5])), ("f|base64", "a\\*", ("typed", ["a\\*"])),
            (None, "kw*", ("typed", ["kw*"])), ("f|i", "x", ("typed", ["x"])), ("f|base64offset|contains", "a*", ("typed", ["a*"])))
            + tuple((f"f|{mid}", "a\\*", ("typed", ["a\\*"])) for mid in sorted(mod_table) if mid != "re")
            + tuple((f"f|{mid}|contains", ["a*", "b"], ("typed", ["a*", "b"])) for mid in sorted(mod_table) if mid != "re")):
        del wrapped[:], typed[:], built[:]
        try:
            call_method(prog, DI, "from_mapping", klass, env, key, val, None, interp_kwargs=IK)
            got = ("literal", list(wrapped)) if wrapped and not typed else ("typed", list(typed)) if typed and not wrapped else ("literal", []) if not wrapped and not typed and "re" in (key or "").split("|") else ("mixed", list(wrapped), list(typed))
            if not wrapped and not typed and "re" not in (key or "").split("|"):
                got = ("typed", [])
        except Raised as ex:
            got = "refused" if "SigmaTypeError" in str(ex) else f"raises {ex}"
        if got != want:
            bad10.append(f"{key!r}: {val!r} → {got!r} instead of {want!r}")
        elif isinstance(want, tuple) and (len(built) != 1 or list(built[0][0][2] if len(built[0][0]) > 2 else built[0][1].get("value", [])) != [(want[0], v) for v in want[1]]):
            bad10.append(f"{key!r}: {val!r} → the item is built from {built!r}")
    n += 1
    if bad10:
        nonstr = any("refused" in b.split("instead of")[-1] for b in bad10)
        r.violation(rid, fm.qual, "sigma_val = [SigmaString.from_str(cast('str', v)) for v in val_list]" if nonstr else "literal wrapping of the raw value under the re modifier only",
                    (f"a value that comes from the YAML document is wrapped into a SigmaString unchecked: `f|re: 123` yields a regular expression holding an int (later TypeError/AttributeError in modifiers and backends instead of a Sigma type error) — {bad10[0]}"
                     if nonstr else f"the raw text of the value is taken literally under another modifier than `re`, or parsed under `re`: escapes and wildcards are part of the Sigma value for every modifier but `re` — {bad10[0]}"), fm.loc)
    else:
        r.ok(rid, fm.qual, "interpreted on the key/value pairs of every modifier of the table: under `re` text values are wrapped literally and anything else is refused with a Sigma type error; without `re` every value goes through sigma_type", fm.loc)
    covered = {q_ for q_ in ctx.cg.reachable([fm.qual]) if q_.startswith(DI + ".")} | {fm.qual}
    for q, f in sorted(prog.funcs.items()):
        if f.module.name not in ("sigma.rule.detection", "sigma.modifiers") or q in covered:
            continue
        for c in (x for x in ast.walk(f.node) if isinstance(x, ast.Call) and call_name(x).endswith("SigmaString.from_str")):
            n += 1
            loc = f"{f.module.relpath}:{c.lineno}"
            arg = c.args[0] if c.args else None
            while isinstance(arg, ast.Call) and call_name(arg) == "cast" and len(arg.args) == 2:
                arg = arg.args[1]
            if isinstance(arg, ast.Constant) and isinstance(arg.value, str):
                r.ok(rid, q, f"{short(c, 60)}: constant text", loc)
                continue
            at = unparse(arg) if arg is not None else "?"
            # literal wrapping (no escape/wildcard parsing) is the meaning of the re modifier alone: every other modifier gets
            # the parsed value, in which \\* is a star and * a wildcard
            mods = set()
            def _mods(e, depth=0):
                for x in ast.walk(e):
                    if isinstance(x, ast.Name) and x.id.endswith("Modifier"):
                        mods.add(x.id)
                    elif isinstance(x, ast.Name) and depth < 2:
                        for v in assignments_to(f.node, x.id):
                            if isinstance(v, ast.AST) and not isinstance(v, (ast.For, ast.comprehension, ast.With, ast.ExceptHandler)):
                                _mods(v, depth + 1)
            for t_, pol_ in guards_at(prog, f, c):
                if pol_:
                    _mods(t_)
            extra = sorted(mods - {"SigmaRegularExpressionModifier"})
            if extra:
                r.violation(rid, q, short(prog.enclosing_stmt(c), 120),
                            f"the raw text of the value is also taken literally under {extra}: escapes and wildcards are part of the Sigma value for every modifier but `re` — `f|base64: 'a\\*'` would encode the backslash, and an unescaped wildcard would be encoded instead of refused", loc)
                continue
            # (a) element-wise guard
            gs = atomic_guards(guards_at(prog, f, c))
            if (f"isinstance({at}, str)", True) in gs:
                r.ok(rid, q, f"{short(c, 60)} under isinstance({at}, str)", loc)
                continue
            # (b) a refusal before the call, read off the CFG guards: (A and not all(isinstance(x, str) for x in L)) is False
            # and A is True at the call  =>  every element of L is a str; the wrapped value must be an element of L
            refused = False
            raw = guards_at(prog, f, c)
            true_txt = {unparse(t) for t, pol in raw if pol}
            for t, pol in raw:
                if pol or not (isinstance(t, ast.BoolOp) and isinstance(t.op, ast.And)):
                    continue
                rest = [v for v in t.values if unparse(v) not in true_txt]
                if len(rest) != 1 or not (isinstance(rest[0], ast.UnaryOp) and isinstance(rest[0].op, ast.Not)):
                    continue
                x = rest[0].operand
                if isinstance(x, ast.Call) and call_name(x) == "all" and x.args and isinstance(x.args[0], (ast.GeneratorExp, ast.ListComp)):
                    g = x.args[0]
                    el = g.elt
                    if isinstance(el, ast.Call) and call_name(el) == "isinstance" and unparse(el.args[1]) == "str" and len(g.generators) == 1 \
                            and unparse(el.args[0]) == unparse(g.generators[0].target):
                        lst = unparse(g.generators[0].iter)
                        comp = next((a for a in prog.ancestors(c) if isinstance(a, (ast.ListComp, ast.GeneratorExp))), None)
                        if comp is not None and unparse(comp.generators[0].iter) == lst and unparse(comp.generators[0].target) == at:
                            refused = True
            if refused:
                r.ok(rid, q, f"{short(c, 60)}: non-text values are refused with a Sigma error before the wrapping", loc)
            else:
                r.violation(rid, q, short(prog.enclosing_stmt(c), 120),
                            f"{at} comes from the YAML document and is wrapped into a SigmaString unchecked: `f|re: 123` yields a regular expression holding an int (later TypeError/AttributeError in modifiers and backends instead of a Sigma type error)", loc)
    r.floor(rid, 1)


def r11_placeholder_delimiters(ctx) -> None:
    """expand: only unescaped %name% becomes a placeholder. Decided on the syntax tree of the pattern (re._parser)."""
    import re._parser as sp  # type: ignore[import-not-found]
    r, prog = ctx.r, ctx.prog
    r.rule("C03.R11", "placeholder pattern: the opening '%' is not preceded by a backslash (negative look-behind) and the closing '%' cannot be an escaped one (the name class excludes '\\' and '%', or the closing delimiter has its own look-behind)")
    f = prog.func("sigma.types.SigmaString.insert_placeholders")
    pats = [c for c in ast.walk(f.node) if isinstance(c, ast.Call) and call_name(c) in ("re.finditer", "re.compile", "re.search", "re.sub") and c.args]
    # a pattern compiled once at module or class level and used here through its name
    for c in ast.walk(f.node):
        if isinstance(c, ast.Call) and isinstance(c.func, ast.Attribute) and c.func.attr in ("finditer", "search", "sub", "match", "split", "findall"):
            recv = c.func.value
            defs = []
            if isinstance(recv, ast.Name):
                defs = [st.value for st in f.module.assigns.get(recv.id, []) if getattr(st, "value", None) is not None]
            elif isinstance(recv, ast.Attribute) and unparse(recv.value) in ("self", "cls", "self.__class__") and f.cls is not None:
                a_ = prog.lookup_class_attr(f.cls.qual, recv.attr)
                defs = [a_[1].value] if a_ and getattr(a_[1], "value", None) is not None else []
            pats += [d for d in defs if isinstance(d, ast.Call) and call_name(d) == "re.compile" and d.args]
    if not pats and f.cls is not None:
        # the pattern used by a helper of the class that insert_placeholders delegates to: every regex with a constant
        # pattern that mentions the delimiter, anywhere in the class
        for c in ast.walk(f.cls.node):
            if isinstance(c, ast.Call) and call_name(c) in ("re.finditer", "re.compile", "re.search", "re.sub", "re.split", "re.findall") and c.args:
                try:
                    pv = const_eval(prog, f.module, c.args[0])
                except ValueError:
                    continue
                if isinstance(pv, str) and "%" in pv:
                    pats.append(c)
    if not pats:
        raise AnalysisError(f"{f.qual}: placeholder pattern not found")
    for c in pats:
        loc = f"{f.module.relpath}:{c.lineno}"
        pat = const_eval(prog, f.module, c.args[0])
        if not isinstance(pat, str):
            r.violation("C03.R11", f.qual, short(c, 100), "placeholder pattern is not a constant", loc)
            continue
        tree = list(sp.parse(pat))
        ops = [str(op) for op, _ in tree]
        pct = [i for i, (op, av) in enumerate(tree) if str(op) == "LITERAL" and av == ord("%")]
        problems = []
        if len(pct) != 2:
            problems.append("expected exactly two literal '%' delimiters")
        else:
            o, cl = pct
            def lookbehind_bs(i):
                return i > 0 and str(tree[i - 1][0]) == "ASSERT_NOT" and tree[i - 1][1][0] == -1 and [(str(a), b) for a, b in tree[i - 1][1][1]] == [("LITERAL", 92)]
            if not lookbehind_bs(o):
                problems.append("the opening '%' has no negative look-behind for a backslash")
            # name part between the delimiters
            inner = tree[o + 1:cl]
            excl = set()
            for op, av in inner:
                if str(op) == "SUBPATTERN":
                    for op2, av2 in av[3]:
                        if str(op2) in ("MAX_REPEAT", "MIN_REPEAT"):
                            for op3, av3 in av2[2]:
                                if str(op3) == "IN" and av3 and str(av3[0][0]) == "NEGATE":
                                    excl |= {b for a, b in av3[1:] if str(a) == "LITERAL"}
                                elif str(op3) == "NOT_LITERAL":  # [^x] with one member
                                    excl.add(av3)
            closing_guarded = lookbehind_bs(cl)
            if ord("%") not in excl:
                problems.append("the name may contain '%'")
            if ord("\\") not in excl and not closing_guarded:
                problems.append("an escaped '\\%' can close a placeholder: the name class admits the backslash and the closing '%' has no look-behind ('%a\\%' becomes Placeholder('a\\'))")
        if problems:
            r.violation("C03.R11", f.qual, f"pattern {pat!r}", "; ".join(problems), loc)
        else:
            r.ok("C03.R11", f.qual, f"pattern {pat!r}: opening delimiter guarded by (?<!\\\\), closing delimiter cannot be escaped", loc)
    r.floor("C03.R11", 1)


def r12_numbers_exact(ctx) -> None:
    """lt/lte/gt/gte and plain numbers: the type changes, the content does not. SigmaNumber.__post_init__ tabulated."""
    from math import isfinite
    from ..tabulate import Interp, Raised
    r, prog = ctx.r, ctx.prog
    r.rule("C03.R12", "SigmaNumber keeps the content of a number: an int (also above 2**53, also given as text) is stored as that int, an integral float as int, any other finite float as that float; non-finite values are refused")
    f = prog.func("sigma.types.SigmaNumber.__post_init__")
    samples = [0, 5, -3, 2 ** 53 + 1, 2 ** 63 - 1, 10 ** 30, -(2 ** 53) - 1, 1.5, 2.0, 1000.0, -0.25, "12", "9007199254740993", True]
    bad = []
    for x in samples:
        me = type("N", (), {})()
        it = Interp({"self": me, "init_number": x, "isfinite": isfinite, "SigmaValueError": type("SigmaValueError", (Exception,), {}),
                     "ValueError": ValueError, "OverflowError": OverflowError})
        try:
            it.call(f.node.body)
        except Raised as ex:
            bad.append((x, f"refused ({ex})"))
            continue
        got = getattr(me, "number", None)
        want = int(x) if isinstance(x, (int, str)) or float(x) == int(x) else x
        if got != want or type(got) is not type(want):
            bad.append((x, f"stored as {got!r} ({type(got).__name__}), content is {want!r}"))
    for x in (float("inf"), float("nan")):
        me = type("N", (), {})()
        it = Interp({"self": me, "init_number": x, "isfinite": isfinite, "SigmaValueError": type("SigmaValueError", (Exception,), {}),
                     "ValueError": ValueError, "OverflowError": OverflowError})
        try:
            it.call(f.node.body)
            bad.append((x, f"accepted as {getattr(me, 'number', None)!r}"))
        except Raised:
            pass
    if bad:
        x, why = bad[0]
        r.violation("C03.R12", f.qual, f"SigmaNumber({x!r})", f"{why} (+{len(bad) - 1} more sample(s)): `f|gt: 9007199254740993` would be emitted as f>9007199254740992.0 — another boundary", f.loc)
    else:
        r.ok("C03.R12", f.qual, f"tabulated on {len(samples) + 2} sample inputs: content kept, non-finite refused", f.loc)
    r.floor("C03.R12", 1)
