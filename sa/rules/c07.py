"""C07 — malformed documents raise Sigma errors only; collecting mode never raises."""
from __future__ import annotations

import ast
from typing import Optional

from ..escape import EscapeAnalysis
from ..prog import AnalysisError, FuncInfo, call_name, short, stmt_head, unparse, walk_no_nested
from ..raises import is_sigma_error
from ..util import assignments_to, atomic_guards, cfg_of, guards_at

ENTRY = {
    "sigma.rule.rule.SigmaRule.from_dict": {"rule"},
    "sigma.correlations.SigmaCorrelationRule.from_dict": {"rule"},
    "sigma.filters.SigmaFilter.from_dict": {"sigma_filter"},
    "sigma.collection.SigmaCollection.from_dicts": {"rules"},
}
SCOPE = ("sigma.rule", "sigma.correlations", "sigma.filters", "sigma.collection", "sigma.conditions", "sigma.modifiers", "sigma.types")


# escapes that are infeasible for a reason the analysis cannot see, one line each: (function, construct prefix) -> reason
REVIEWED_INFEASIBLE = {
    ("sigma.rule.attributes.SigmaRelatedItem.from_dict", "value['id']"):
        "the only caller SigmaRelated.from_dict raises SigmaRelatedError unless 'id' and 'type' are among v.keys()",
    ("sigma.rule.attributes.SigmaRelatedItem.from_dict", "value['type']"):
        "same caller-side key check",
    ("sigma.correlations.SigmaCorrelationCondition.from_dict", "d['percentile']: key may be missing"):
        "evaluated in the `except ValueError` handler of int(d['percentile']): the key was just read successfully",
}
REVIEWED_INFEASIBLE[("sigma.collection.SigmaCollection.__post_init__", "raise TypeError(f'Object of type")] = \
    "init_rules handed over by from_dicts/merge are objects these functions built themselves (SigmaRule, SigmaCorrelationRule, SigmaFilter): the else branch is a guard for API misuse, not for document content"
REVIEWED_INFEASIBLE[("sigma.correlations.SigmaCorrelationTimespan.__post_init__", "self.spec[-1]")] = \
    "for a spec shorter than two characters int(self.spec[:-1]) on the line before raises ValueError first (handled)"
for _pre, _why in (
    ("raise sigma_exceptions.SigmaCorrelationRuleError('Sigma correlation rule without rules list requires",
     "from_dict turns the rules list into None only when the condition is a SigmaExtendedCorrelationCondition"),
    ("raise sigma_exceptions.SigmaCorrelationConditionError('Extended conditions can only be used with temporal",
     "from_dict builds a SigmaExtendedCorrelationCondition only for temporal types (otherwise it records an error and keeps the placeholder condition)"),
    ("raise sigma_exceptions.SigmaCorrelationRuleError('Non-temporal Sigma correlation rule without condition'",
     "from_dict always passes a SigmaCorrelationCondition for non-temporal types (parsed or placeholder, with the error recorded)"),
):
    REVIEWED_INFEASIBLE[("sigma.correlations.SigmaCorrelationRule.__post_init__", _pre)] = _why
# locals that look possibly-unassigned but are bound on every feasible path: (function, name) -> reason
REVIEWED_ASSIGNED = {
    ("sigma.correlations.SigmaCorrelationCondition.from_dict", "cond_op"):
        "exactly one operator key is present (guard `len(d_keys.intersection(ops)) != 1` raises above), so the loop body's assignment runs",
    ("sigma.correlations.SigmaCorrelationCondition.from_dict", "cond_count"):
        "same loop iteration as cond_op; int() failure raises",
}


def in_scope(fi: FuncInfo) -> bool:
    return fi.module.name.startswith(SCOPE)


# infeasible only on paths through the named function (the same raise reached another way is still reported)
REVIEWED_VIA = {
    ("sigma.rule.detection.SigmaDetections.__post_init__", "raise sigma_exceptions.SigmaConditionError('Sigma rule must contain at least one condition'", "sigma.filters.SigmaFilter.apply_on_rule"):
        "apply_on_rule re-runs __post_init__ on the detections of a rule that loaded (so it has a condition) after rewriting every condition string: the list is not empty",
    ("sigma.rule.detection.SigmaDetections.__post_init__", "raise sigma_exceptions.SigmaDetectionError('No detections defined in Sigma rule'", "sigma.filters.SigmaFilter.apply_on_rule"):
        "apply_on_rule re-runs __post_init__ after adding the filter's detections to a rule that already had some: the map is not empty",
    ("sigma.rule.logsource.SigmaLogSource.__contains__", "raise SigmaTypeError('Containment check only allowed between log sources'", "sigma.filters.SigmaFilter._should_apply_on_rule"):
        "both operands are log source objects built by the loaders (SigmaLogSource or its placeholder subclass, whose own __contains__ answers False): the isinstance guard cannot fail",
}


def run(ctx) -> None:
    r = ctx.r
    r.explanation = (
        "Error discipline of the loaders decided on the source: a forward taint from the document parameters of the four loading "
        "entry points (projections by get/[]/items/iteration, propagated through calls; mypy's narrowing and dominating isinstance "
        "guards end it) marks document-derived values; every operation on such a value that can raise a non-Sigma exception by the "
        "stdlib's rules (attribute on an unchecked value, subscript, iteration, UUID()/int()/enum lookup …) and every explicit raise "
        "is propagated interprocedurally minus what enclosing handlers catch; whatever reaches an entry point must be a SigmaError, "
        "and in collecting mode nothing may reach it at all; every local read in an entry point is definitely assigned on all "
        "paths (exception edges included); the strict-mode error is errors[0] of the same list. Equality of the first collected and "
        "the raised error for arbitrary documents is not executed.")
    assume = {q: set(v) for q, v in ENTRY.items()}  # for from_dicts: `rules` is the list built by from_yaml; its *elements* stay unchecked
    ea = EscapeAnalysis(ctx, in_scope, ENTRY, assume_mapping=assume)
    r.assumptions = ['the document handed to SigmaRule/SigmaCorrelationRule/SigmaFilter.from_dict is a mapping (their from_yaml turns an empty document into {}); elements of a YAML stream given to SigmaCollection.from_dicts are NOT assumed to be mappings', 'stdlib behaviour table for operations on unchecked values (attribute → AttributeError, str-key subscript → KeyError|TypeError, iteration → TypeError, UUID()/int() → ValueError|TypeError|AttributeError)', 'no monkey-patching; third-party callees (yaml, re, uuid, ipaddress) behave as documented']
    ea.run(list(ENTRY))
    r.analysed["C07.functions_in_loader_closure"] = len([q for q in ea.reached if q in ctx.prog.funcs])
    r.analysed["C07.operations_on_document_values"] = ea.n_ops
    r1_r2(ctx, ea)
    r3_definite_assignment(ctx)
    r4_one_error_list(ctx)
    r5_placeholders_inert(ctx)
    r1b_text_parsers(ctx)
    r6_yaml_documents_checked(ctx)


def r1_r2(ctx, ea: EscapeAnalysis) -> None:
    r, prog = ctx.r, ctx.prog
    r.rule("C07.R1", "no non-Sigma exception can leave a loading entry point: every operation on a document-derived value that can raise one is narrowed by isinstance or inside a try whose handlers cover it")
    r.rule("C07.R2", "in collecting mode no Sigma error leaves a loading entry point either: every raising step is inside a try whose handler appends to the error list")
    reported: set[tuple] = set()
    for entry in ENTRY:
        esc = ea.escapes.get(entry, {})
        for k, e in sorted(esc.items(), key=lambda kv: (kv[1].origin_fn, kv[1].origin)):
            sigma = is_sigma_error(prog, e.exc)
            rev = next((v for (fn, pre), v in REVIEWED_INFEASIBLE.items() if fn == e.origin_fn and e.origin.startswith(pre)), None)
            if rev is None:
                rev = next((v for (fn, pre, via), v in REVIEWED_VIA.items() if fn == e.origin_fn and e.origin.startswith(pre) and via in e.path), None)
                if rev is not None and "SigmaLogSource.__contains__" in e.origin_fn and "__contains__" not in prog.cls("sigma.rule.logsource.EmptyLogSource").methods:
                    rev = None  # the review rests on the placeholder answering False itself
            if rev:
                r.ok("C07.R1", e.origin_fn, f"{e.origin} — infeasible: {rev}", e.loc)
                continue
            path = [entry] + [p for p in e.path if p != entry] + ([e.origin_fn] if e.origin_fn not in (entry,) + e.path else [])
            if not sigma:
                if (k, "R1") in reported:
                    continue
                reported.add((k, "R1"))
                r.violation("C07.R1", e.origin_fn, e.origin,
                            f"{e.exc.rsplit('.', 1)[-1]} can escape from {entry.rsplit('.', 2)[-2]}.{entry.rsplit('.', 1)[-1]}: {e.why}; no isinstance narrowing and no enclosing handler for it on the way up",
                            e.loc, path)
            else:
                if getattr(e, "strict_only", False):
                    r.ok("C07.R2", e.origin_fn, f"{e.origin} — only when not collecting", e.loc)
                    continue
                if (k, "R2") in reported:
                    continue
                reported.add((k, "R2"))
                r.violation("C07.R2", e.origin_fn, e.origin,
                            f"{e.exc.rsplit('.', 1)[-1]} raised here is not caught on the way to {entry.rsplit('.', 2)[-2]}.{entry.rsplit('.', 1)[-1]}: with collect_errors=True loading still raises instead of recording the error",
                            e.loc, path)
    # discharged obligations: operations that were examined and are caught/narrowed
    n_local = sum(len(v) for v in ea.escapes.values())
    r.ok("C07.R1", "loader closure", f"{ea.n_ops} operations on document-derived values examined in {len(ea.reached)} functions; escapes propagated to {len(ENTRY)} entry points")
    for q in sorted(ea.reached):
        fi = prog.funcs.get(q)
        if fi is None or not in_scope(fi):
            continue
        tries = [t for t in walk_no_nested(fi.node) if isinstance(t, ast.Try)]
        for t in tries:
            for h in t.handlers:
                appends = [c for s in h.body for c in ast.walk(s) if isinstance(c, ast.Call) and call_name(c) == "errors.append"]
                if appends:
                    r.ok("C07.R2", q, f"except {unparse(h.type) if h.type else ''}: errors.append(...)", f"{fi.module.relpath}:{h.lineno}")
    r.floor("C07.R2", 15)


def r3_definite_assignment(ctx) -> None:
    """Forward must-be-assigned dataflow over the CFG, exception edges taking the state *before* the raising statement."""
    r, prog = ctx.r, ctx.prog
    r.rule("C07.R3", "every local read in a loading entry point is assigned on every path that reaches the read (exception edges included)")
    targets = list(ENTRY) + ["sigma.correlations.SigmaCorrelationCondition.from_dict", "sigma.correlations.SigmaCorrelationFieldAliases.from_dict",
                             "sigma.rule.base.SigmaRuleBase.from_dict_common_params", "sigma.rule.logsource.SigmaLogSource.from_dict",
                             "sigma.rule.detection.SigmaDetections.from_dict", "sigma.rule.detection.SigmaDetectionItem.from_mapping",
                             "sigma.filters.SigmaGlobalFilter.from_dict"]
    for q in targets:
        if not prog.has_func(q):
            continue
        fi = prog.func(q)
        cfg = cfg_of(fi)
        params = set(fi.params())
        locals_ = set()
        for n in walk_no_nested(fi.node):
            if isinstance(n, ast.Name) and isinstance(n.ctx, ast.Store):
                locals_.add(n.id)
            if isinstance(n, ast.ExceptHandler) and n.name:
                locals_.add(n.name)
        locals_ -= params
        nested_defs = {n.name for n in walk_no_nested(fi.node) if isinstance(n, (ast.FunctionDef, ast.ClassDef)) and n is not fi.node}
        # definitions per CFG node
        def defs_of(node) -> set[str]:
            a = node.ast
            out: set[str] = set()
            if a is None:
                return out
            if node.kind == "stmt":
                if isinstance(a, (ast.FunctionDef, ast.ClassDef)):
                    return {a.name}
                for x in walk_no_nested(a):
                    if isinstance(x, ast.Name) and isinstance(x.ctx, ast.Store):
                        # comprehension variables are not function locals
                        if any(isinstance(p, (ast.ListComp, ast.SetComp, ast.DictComp, ast.GeneratorExp)) for p in _anc_until(prog, x, a)):
                            continue
                        if isinstance(a, ast.AnnAssign) and a.value is None:
                            continue
                        out.add(x.id)
                    if isinstance(x, (ast.Import, ast.ImportFrom)):
                        out |= {(al.asname or al.name).split(".")[0] for al in x.names}
            elif node.kind == "branch" and isinstance(a, ast.For) and node.polarity:
                out |= {x.id for x in ast.walk(a.target) if isinstance(x, ast.Name)}
            elif node.kind == "except" and isinstance(a, ast.ExceptHandler) and a.name:
                out.add(a.name)
            elif node.kind == "with-enter":
                for it in a.items:
                    if it.optional_vars is not None:
                        out |= {x.id for x in ast.walk(it.optional_vars) if isinstance(x, ast.Name)}
            elif node.kind == "test":
                for x in ast.walk(a):
                    if isinstance(x, ast.NamedExpr):
                        out.add(x.target.id)
            return out

        ALL = frozenset(locals_ | nested_defs)
        IN = {n.id: ALL for n in cfg.nodes}
        OUT = {n.id: ALL for n in cfg.nodes}
        IN[cfg.entry] = frozenset()
        OUT[cfg.entry] = frozenset()
        reach = cfg.reachable([cfg.entry])
        changed = True
        while changed:
            changed = False
            for n in cfg.nodes:
                if n.id not in reach or n.id == cfg.entry:
                    continue
                ins = []
                for p in n.pred:
                    if p not in reach:
                        continue
                    exceptional = n.kind == "except" or (n.kind == "join" and n.label == "finally[exc]") or n.id == cfg.raise_exit
                    pn = cfg.nodes[p]
                    ins.append(IN[p] if (exceptional and pn.kind in ("stmt", "test", "for", "with-enter")) else OUT[p])
                new_in = frozenset.intersection(*ins) if ins else frozenset()
                new_out = new_in | frozenset(defs_of(n))
                if new_in != IN[n.id] or new_out != OUT[n.id]:
                    IN[n.id], OUT[n.id] = new_in, new_out
                    changed = True
        # uses
        seen: set[str] = set()
        n_reads = 0
        for n in cfg.nodes:
            if n.id not in reach or n.ast is None or n.kind not in ("stmt", "test", "for", "with-enter"):
                continue
            a = n.ast
            uses_root = a.iter if (n.kind == "for" and isinstance(a, ast.For)) else a
            if isinstance(a, (ast.FunctionDef, ast.ClassDef)):
                continue
            local_defs_in_stmt: set[str] = set()
            for x in walk_no_nested(uses_root):
                if isinstance(x, ast.Name) and isinstance(x.ctx, ast.Load) and x.id in locals_ and x.id not in nested_defs:
                    if any(isinstance(p, (ast.ListComp, ast.SetComp, ast.DictComp, ast.GeneratorExp)) and x.id in {y.id for g in p.generators for y in ast.walk(g.target) if isinstance(y, ast.Name)} for p in _anc_until(prog, x, uses_root)):
                        continue
                    n_reads += 1
                    if x.id not in IN[n.id] and x.id not in seen:
                        # walrus / earlier part of the same statement?
                        if any(isinstance(y, ast.NamedExpr) and y.target.id == x.id for y in ast.walk(uses_root)):
                            continue
                        seen.add(x.id)
                        if (q, x.id) in REVIEWED_ASSIGNED:
                            r.ok("C07.R3", q, f"{x.id} — bound on every feasible path: {REVIEWED_ASSIGNED[(q, x.id)]}", f"{fi.module.relpath}:{x.lineno}")
                            continue
                        gs = atomic_guards(guards_at(prog, fi, x))
                        if any(g == "collect_errors" and p is False for g, p in gs):
                            continue
                        r.violation("C07.R3", q, f"read of {x.id} in {stmt_head(prog.enclosing_stmt(x), 90)}",
                                    f"local {x.id!r} is not assigned on every path to this read (e.g. when the step that assigns it failed and its error was only collected): "
                                    f"loading then dies with UnboundLocalError instead of returning the collected errors", f"{fi.module.relpath}:{x.lineno}")
        r.ok("C07.R3", q, f"{n_reads} local reads checked against must-be-assigned sets ({len(locals_)} locals)", fi.loc)
    r.floor("C07.R3", 6)


def _anc_until(prog, x: ast.AST, stop: ast.AST):
    for a in prog.ancestors(x):
        if a is stop:
            yield a
            return
        yield a


TEXT_PARSERS = {
    # parser of document-controlled text -> exceptions it raises for a str argument (CPython 3.12 re/_parser.py, ipaddress.py)
    "re.compile": ("re.error", "OverflowError", "RecursionError"),
    "ip_network": ("ValueError",), "ipaddress.ip_network": ("ValueError",),
    # the pyparsing condition grammar: ParseException for bad syntax, RecursionError for deep nesting (each applied filter
    # and add_condition item adds a parenthesis level)
    "_parse_condition_string": ("ParseException", "RecursionError"),
}


def r1b_text_parsers(ctx) -> None:
    from ..raises import caught_locally
    r, prog = ctx.r, ctx.prog
    n = 0
    for f in prog.functions_in("sigma.types", "sigma.modifiers", "sigma.correlations", "sigma.conditions"):
        for c in walk_no_nested(f.node):
            if not isinstance(c, ast.Call) or call_name(c) not in TEXT_PARSERS or not c.args or isinstance(c.args[0], ast.Constant):
                continue
            n += 1
            loc = f"{f.module.relpath}:{c.lineno}"
            def selector_regex(e: ast.AST, depth: int = 0) -> bool:
                """e is a constant, the selector pattern with '*' replaced by '.*', a choice between such, or a local bound to one"""
                if isinstance(e, ast.Constant) and isinstance(e.value, str):
                    import re as _re
                    try:
                        _re.compile(e.value)
                        return True
                    except Exception:
                        return False
                if isinstance(e, ast.IfExp):
                    return selector_regex(e.body, depth) and selector_regex(e.orelse, depth)
                if isinstance(e, ast.Name) and depth < 3:
                    defs = [st.value for st in walk_no_nested(f.node) if isinstance(st, ast.Assign) and any(isinstance(t, ast.Name) and t.id == e.id for t in st.targets)]
                    return bool(defs) and all(selector_regex(d, depth + 1) for d in defs)
                return unparse(e).replace('"', "'") == "self.pattern.replace('*', '.*')"
            if f.cls is not None and f.cls.qual == "sigma.conditions.ConditionSelector" and selector_regex(c.args[0]):
                r.ok("C07.R1", f.qual, "re.compile of a selector pattern: its alphabet is letters, digits, '_', '-' and '*' (C02.R4), so the expression is always valid", loc)
                continue
            def converted(fi, call, exc, depth=0) -> bool:
                """the exception is turned into a Sigma error by a handler around the call, or — for a helper — around every call of the helper"""
                h = caught_locally(prog, fi, call, exc)
                if h is not None:
                    return any(isinstance(x, ast.Raise) and x.exc is not None and "Sigma" in unparse(x.exc) for x in ast.walk(h))
                # inside `with <context manager of the program>:` whose generator body converts the exception around its yield
                for anc in prog.ancestors(call):
                    if anc is fi.node:
                        break
                    if isinstance(anc, ast.With):
                        for item in anc.items:
                            ce = item.context_expr
                            if not isinstance(ce, ast.Call):
                                continue
                            cmf = None
                            if isinstance(ce.func, ast.Attribute) and isinstance(ce.func.value, ast.Name) and ce.func.value.id in ("self", "cls") and fi.cls is not None:
                                cmf = prog.lookup_method(fi.cls.qual, ce.func.attr)
                            elif isinstance(ce.func, ast.Name):
                                cq_ = prog.resolve_expr(fi.module, ce.func)
                                cmf = prog.funcs.get(cq_) if cq_ else None
                            if cmf is None or not any(d_.split(".")[-1] == "contextmanager" for d_ in cmf.decorators):
                                continue
                            for t_ in (x for x in walk_no_nested(cmf.node) if isinstance(x, ast.Try)):
                                if not any(isinstance(y, (ast.Yield, ast.YieldFrom)) for st_ in t_.body for y in ast.walk(st_)):
                                    continue
                                for h_ in t_.handlers:
                                    hn = [unparse(x).rsplit(".", 1)[-1] for x in (h_.type.elts if isinstance(h_.type, ast.Tuple) else [h_.type])] if h_.type is not None else ["BaseException"]
                                    if exc.rsplit(".", 1)[-1] in hn or "Exception" in hn or "BaseException" in hn:
                                        return any(isinstance(x, ast.Raise) and x.exc is not None and "Sigma" in unparse(x.exc) for x in ast.walk(h_))
                if depth >= 3:
                    return False
                sites = []
                for g in prog.functions_in("sigma"):
                    for c2 in walk_no_nested(g.node):
                        if not isinstance(c2, ast.Call):
                            continue
                        if fi.cls is None:
                            if call_name(c2).split(".")[-1] == fi.name and prog.resolve_expr(g.module, c2.func) == fi.qual:
                                sites.append((g, c2))
                        elif call_name(c2) in (f"self.{fi.name}", f"cls.{fi.name}") and g.cls is not None and (prog.is_subclass(g.cls.qual, fi.cls.qual) or prog.is_subclass(fi.cls.qual, g.cls.qual)):
                            sites.append((g, c2))
                        elif call_name(c2).split(".")[-1] == fi.name and fi.qual in ctx.types.callee_fullnames(g.module, c2):
                            sites.append((g, c2))
                if fi.cls is not None and not fi.name.startswith("_"):
                    return False  # a public method can be called from outside
                return bool(sites) and all(converted(g, c2, exc, depth + 1) for g, c2 in sites)
            missing = [exc for exc in TEXT_PARSERS[call_name(c)] if not converted(f, c, exc)]
            if missing:
                r.violation("C07.R1", f.qual, f"{short(c, 60)}: {', '.join(missing)} not converted", f"{call_name(c)}() parses text taken from the rule document and can raise {missing} for it (e.g. a repetition count a{{99999999999999}} → OverflowError); no enclosing handler turns that into a Sigma error, so a non-Sigma exception leaves rule loading", loc)
            else:
                r.ok("C07.R1", f.qual, f"{short(c, 50)}: {', '.join(TEXT_PARSERS[call_name(c)])} → Sigma error", loc)
    if n < 3:
        raise AnalysisError(f"only {n} parser calls on document text found (3 confirmed: re.compile, ip_network, the condition parser)")


def r6_yaml_documents_checked(ctx) -> None:
    """The entry assumption of R1 ("the document handed to from_dict is a mapping") must be established by the library's own
    from_yaml functions: whatever yaml.load returned is checked to be a dict before it is handed to a mapping-assuming loader."""
    r, prog = ctx.r, ctx.prog
    r.rule("C07.R6", "a YAML document is checked to be a map before it is handed to a loader that assumes one: every value obtained from yaml.load/safe_load that reaches from_dict of a rule class passes an isinstance(…, dict) test (None → {})")
    n = 0
    for f in prog.functions_in(*SCOPE):
        loads = [(a.targets[0].id, a) for a in walk_no_nested(f.node) if isinstance(a, ast.Assign) and isinstance(a.targets[0], ast.Name)
                 and isinstance(a.value, ast.Call) and call_name(a.value) in ("yaml.load", "yaml.safe_load")]
        for name, a in loads:
            for c in walk_no_nested(f.node):
                if isinstance(c, ast.Call) and isinstance(c.func, ast.Attribute) and c.func.attr == "from_dict" and c.args and isinstance(c.args[0], ast.Name) and c.args[0].id == name:
                    n += 1
                    gs = atomic_guards(guards_at(prog, f, c))
                    loc = f"{f.module.relpath}:{c.lineno}"
                    if (f"isinstance({name}, dict)", True) in gs:
                        r.ok("C07.R6", f.qual, f"{short(c, 60)} only for a dict document", loc)
                    else:
                        r.violation("C07.R6", f.qual, short(c, 80), f"the parsed YAML document {name} is handed to from_dict without a test that it is a map: a document that is a list or a scalar fails with AttributeError ('list' object has no attribute 'get') in both modes", loc)
    if n < 1:
        raise AnalysisError("no yaml.load → from_dict hand-over found (SigmaRuleBase.from_yaml confirmed)")


def r5_placeholders_inert(ctx) -> None:
    """The placeholder a loader substitutes for an invalid part must never be operated on."""
    from ..tabulate import Interp, Raised
    r, prog = ctx.r, ctx.prog
    r.rule("C07.R5", "placeholders are inert: the applicability predicate of a filter evaluates to False on the EmptySigmaGlobalFilter placeholder (rules = [], condition = []) that collecting mode substitutes for an invalid filter section, so apply_on_rule never indexes its empty condition list")
    ph = prog.cls("sigma.filters.EmptySigmaGlobalFilter")
    f = prog.func("sigma.filters.SigmaFilter._should_apply_on_rule")
    g = prog.func("sigma.filters.SigmaFilter.apply_on_rule")
    # the guard of apply_on_rule
    first = g.node.body[0]
    if isinstance(first, ast.If) and "not self._should_apply_on_rule(rule)" in unparse(first.test) and isinstance(first.body[0], ast.Return):
        r.ok("C07.R5", g.qual, "returns the rule untouched unless _should_apply_on_rule(rule)", g.loc)
    else:
        r.violation("C07.R5", g.qual, stmt_head(first), "apply_on_rule no longer starts with the applicability guard", g.loc)

    class _LS:
        def __contains__(self, o):
            return True

    class _Filt:
        rules: list = []
        condition: list = []

    class _Rule:
        logsource = object()

    class _Self:
        filter = _Filt()
        logsource = _LS()

    class _Corr:
        pass

    class _Coll:
        def __init__(self, rules):
            pass

        def __getitem__(self, k):
            raise KeyError(k)

    class _Exc:
        SigmaRuleNotFoundError = KeyError

    it = Interp({"self": _Self(), "rule": _Rule(), "SigmaCorrelationRule": _Corr, "SigmaCollection": _Coll, "sigma_exceptions": _Exc})
    try:
        res = it.call(f.node.body)
    except Raised as e:
        res = f"<raises {e}>"
    if res is False:
        r.ok("C07.R5", f.qual, "evaluated on the placeholder filter state (rules=[], condition=[]) with a matching log source: False", f.loc)
    else:
        r.violation("C07.R5", f.qual, f"_should_apply_on_rule(placeholder) = {res!r}", "the placeholder filter that stands for an invalid filter section counts as applicable: apply_on_rule then reads self.filter.condition[0] of an empty list and IndexError leaves SigmaCollection.from_dicts(..., collect_errors=True)", f.loc)
    defaults = {k: unparse(v[-1].value) if getattr(v[-1], "value", None) is not None else "" for k, v in ph.assigns.items()}
    if "rules" in defaults and "list" not in defaults["rules"] and "[]" not in defaults["rules"]:
        r.violation("C07.R5", ph.qual, f"rules = {defaults['rules']}", "the placeholder filter must not target any rule", f"{ph.module.relpath}:{ph.node.lineno}")
    # the log source placeholder (EmptyLogSource, a subclass) must be an admissible operand of the containment test that
    # every applied filter performs on the rule: interpreted with stand-in classes
    from ..tabulate import Interp, Raised
    lc = prog.func("sigma.rule.logsource.SigmaLogSource.__contains__")

    class _LS:
        category = product = service = source = None

    class _ELS(_LS):
        pass
    flt = _LS()
    flt.category = "test"
    outcomes = {}
    for nm, other in (("placeholder of a rule with an invalid log source", _ELS()), ("log source of the same class", _LS())):
        it = Interp({"self": flt, "other": other, "SigmaTypeError": type("SigmaTypeError", (Exception,), {})}, max_steps=200)
        try:
            outcomes[nm] = it.call(lc.node.body)
        except Raised as ex:
            outcomes[nm] = f"<raises {ex}>"
    badc = {k: v for k, v in outcomes.items() if not isinstance(v, bool)}
    if badc:
        k, v = next(iter(badc.items()))
        r.violation("C07.R5", lc.qual, f"`{k}` in a filter's log source: {v}", "the containment test refuses an operand that collecting mode itself produces: a collection with one rule whose log source is invalid plus any filter raises SigmaTypeError from SigmaCollection.from_yaml(..., collect_errors=True) when the filters are applied", lc.loc)
    else:
        r.ok("C07.R5", lc.qual, "the log source placeholder (a subclass instance) and plain log sources are admissible operands of the containment test", lc.loc)
    r.floor("C07.R5", 2)


def r4_one_error_list(ctx) -> None:
    r, prog = ctx.r, ctx.prog
    r.rule("C07.R4", "one error list, one order: strict mode raises errors[0] of the list that collecting mode returns, right before construction; handlers append the caught object itself; recorded error objects are never modified afterwards; the collection propagates each rule's errors in document order")
    # recorded errors are not touched again (strict mode raises the untouched object: the two modes must agree)
    n_scan = 0
    for sf in prog.functions_in(*SCOPE):
        if sf.module.name.startswith("sigma.exceptions"):
            continue
        for n in walk_no_nested(sf.node):
            tg = n.targets[0] if isinstance(n, ast.Assign) else n.target if isinstance(n, (ast.AugAssign, ast.AnnAssign)) else None
            if isinstance(tg, ast.Attribute):
                n_scan += 1
                cls = ctx.types.class_names(sf.module, tg.value)
                if any(c in prog.classes and is_sigma_error(prog, c) for c in cls):
                    r.violation("C07.R4", sf.qual, stmt_head(n), "a recorded error object is modified after the fact: strict loading raises the unmodified error, so the first collected error no longer equals the one strict mode raises (SigmaError equality includes the source)", f"{sf.module.relpath}:{n.lineno}")
    r.ok("C07.R4", "loading modules", f"{n_scan} attribute stores scanned: none writes to a SigmaError object")
    for q in list(ENTRY)[:3]:
        fi = prog.func(q)
        raises = [x for x in walk_no_nested(fi.node) if isinstance(x, ast.Raise)]
        strict = [x for x in raises if x.exc is not None and unparse(x.exc) == "errors[0]"]
        loc = fi.loc
        if len(strict) == 1:
            gs = atomic_guards(guards_at(prog, fi, strict[0]))
            if ("collect_errors", False) in gs and ("errors", True) in gs:
                r.ok("C07.R4", q, "if not collect_errors and errors: raise errors[0]", f"{fi.module.relpath}:{strict[0].lineno}")
            else:
                r.violation("C07.R4", q, stmt_head(strict[0]), f"errors[0] raised under {gs}; expected `not collect_errors and errors`", f"{fi.module.relpath}:{strict[0].lineno}")
        else:
            r.violation("C07.R4", q, "raise errors[0]", f"{len(strict)} strict-mode raise sites (exactly one expected)", loc)
        others = [x for x in raises if x not in strict and x.exc is not None]
        for x in others:
            r.violation("C07.R4", q, " ".join(unparse(x).split())[:120], "an entry point raises directly instead of going through the error list (collecting mode would raise, and strict mode may raise a later error than errors[0])", f"{fi.module.relpath}:{x.lineno}")
        # errors passed to the constructor is the same list
        ctor = [c for c in walk_no_nested(fi.node) if isinstance(c, ast.Call) and call_name(c) == "cls" and any(kw.arg == "errors" for kw in c.keywords)]
        if ctor and unparse(next(kw.value for kw in ctor[0].keywords if kw.arg == "errors")) == "errors":
            r.ok("C07.R4", q, "cls(..., errors=errors, ...)", f"{fi.module.relpath}:{ctor[0].lineno}")
        else:
            r.violation("C07.R4", q, "cls(..., errors=errors)", "the object does not carry the list of collected errors", loc)
        # common params first (metadata errors come first in both modes)
        first = next((n for n in fi.node.body if isinstance(n, ast.Assign)), None)
        if first is not None and "from_dict_common_params" in unparse(first.value) and unparse(first.targets[0]) in ("(kwargs, errors)", "kwargs, errors"):
            r.ok("C07.R4", q, "kwargs, errors = from_dict_common_params(...) is the first step", f"{fi.module.relpath}:{first.lineno}")
        else:
            r.violation("C07.R4", q, "kwargs, errors = super().from_dict_common_params(...)", "the shared error list is not created by the common-parameter step first: the first collected error can differ from the one strict loading raises", loc)
        for t in (x for x in walk_no_nested(fi.node) if isinstance(x, ast.Try)):
            for h in t.handlers:
                if h.name:
                    apps = [c for s in h.body for c in ast.walk(s) if isinstance(c, ast.Call) and call_name(c) == "errors.append"]
                    for a in apps:
                        if unparse(a.args[0]) != h.name:
                            r.violation("C07.R4", q, short(a, 80), "handler records a different object than the caught error", f"{fi.module.relpath}:{a.lineno}")
    fd = prog.func("sigma.collection.SigmaCollection.from_dicts")
    # from_dicts interpreted (sa.tabulate, ClassProxy) on a stream with every kind of document and action; the per-document
    # loaders are recorders whose objects carry one error each: the collection must receive every one of them, in document
    # order, together with its own errors, and hand the caller's collect_errors flag to every loader
    from ..tabulate import ClassProxy as _CPf, call_method as _cmf, Raised as _Rf
    SCq = "sigma.collection.SigmaCollection"
    loads: list = []
    def _loader(kind):
        class _K:
            @classmethod
            def from_dict(cls, doc, *a, **k):
                args = dict(zip(("collect_errors", "source"), a)); args.update(k)
                n_ = len(loads) + 1
                loads.append((kind, args.get("collect_errors", "<not given>"), dict(doc) if isinstance(doc, dict) else doc))
                o_ = cls()
                o_.errors, o_.source, o_.n = [f"error of load {n_} ({kind})"], None, n_
                return o_
        _K.__name__ = kind
        return _K
    SigmaRule, SigmaCorrelationRule, SigmaFilter = _loader("SigmaRule"), _loader("SigmaCorrelationRule"), _loader("SigmaFilter")
    class SigmaCollectionError(Exception):
        def __init__(self, *a, **k): super().__init__(*a)
    def deep_dict_update(dest, src):
        d_ = dict(dest); d_.update(src); return d_
    envf = {"SigmaRule": SigmaRule, "SigmaCorrelationRule": SigmaCorrelationRule, "SigmaFilter": SigmaFilter, "SigmaCollectionError": SigmaCollectionError, "deep_dict_update": deep_dict_update}
    IKf = {"max_steps": 20000, "behaviours": (SigmaCollectionError, AttributeError, TypeError, KeyError)}
    built_f: dict = {}
    klass_f = _CPf(prog, SCq, envf, ctor=lambda *a_, **k_: (built_f.update(k_), "COLLECTION")[1], interp_kwargs=IKf)
    pre = SigmaRule()
    pre.errors, pre.source = [], None
    docs_f = [{"title": "r1"}, {"correlation": {}}, {"filter": {}}, {"action": "global", "level": "high"}, {"title": "r2"}, {"action": "repeat", "title": "r3"}, {"action": "reset"},
              {"title": "r4"}, 5, {"action": "nonsense"}, pre, {"title": "r5"}]
    try:
        _cmf(prog, SCq, "from_dicts", klass_f, envf, [dict(d_) if isinstance(d_, dict) else d_ for d_ in docs_f], True, None, interp_kwargs=IKf)
        raised_f = None
    except _Rf as ex:
        raised_f = str(ex)
    errs_f = [e_ if isinstance(e_, str) else type(e_).__name__ for e_ in built_f.get("errors", [])]
    want_errs = ["error of load 1 (SigmaRule)", "error of load 2 (SigmaCorrelationRule)", "error of load 3 (SigmaFilter)", "error of load 4 (SigmaRule)", "error of load 5 (SigmaRule)",
                 "error of load 6 (SigmaRule)", "SigmaCollectionError", "SigmaCollectionError", "error of load 7 (SigmaRule)"]
    if raised_f is not None:
        r.violation("C07.R4", fd.qual, "from_dicts on a stream of twelve documents in collecting mode", f"raises {raised_f}", fd.loc)
    else:
        bad_flag = [f"load {i_ + 1} ({k_})" for i_, (k_, flag_, _d) in enumerate(loads) if flag_ is not True]
        if bad_flag:
            r.violation("C07.R4", fd.qual, f"{bad_flag[0]}: from_dict(..., collect_errors, ...)", "the caller's collect_errors flag is not handed to this per-document load: in collecting mode the collection raises instead of recording the error", fd.loc)
        else:
            r.ok("C07.R4", fd.qual, f"collect_errors passed on to all {len(loads)} per-document loads (interpreted)", fd.loc)
        if errs_f == want_errs:
            r.ok("C07.R4", fd.qual, "the errors of every loaded object and the collection's own errors reach the collection, in document order (interpreted: rules, correlation, filter, global/repeat/reset, a scalar document, an unknown action, an already parsed rule)", fd.loc)
        else:
            r.violation("C07.R4", fd.qual, "errors.extend(parsed_rule.errors)", f"the errors of a loaded object are not propagated on every path to the next document: the collection receives {errs_f} instead of {want_errs}", fd.loc)
        kinds_f = [k_ for k_, _f, _d in loads]
        if kinds_f == ["SigmaRule", "SigmaCorrelationRule", "SigmaFilter", "SigmaRule", "SigmaRule", "SigmaRule", "SigmaRule"] and len(built_f.get("init_rules", [])) == 8:
            r.ok("C07.R4", fd.qual, "every document is loaded once by the loader of its kind; the parsed rule is taken over as it is", fd.loc)
        else:
            r.violation("C07.R4", fd.qual, f"loads {kinds_f}, {len(built_f.get('init_rules', []))} objects in the collection", "documents are not loaded once each by the loader of their kind", fd.loc)
    r.floor("C07.R4", 7)
