"""C08 — a failing rule never changes other rules' output; every query is accounted for."""
from __future__ import annotations

import ast
from typing import Optional

from ..prog import AnalysisError, FuncInfo, call_name, short, stmt_head, unparse, walk_no_nested
from ..raises import explicit_raises, is_sigma_error
from ..util import atomic_guards, cfg_of, guards_at
from . import c15

CONVERT = "sigma.conversion.base.Backend.convert"
PER_RULE = ["sigma.conversion.base.Backend.convert_rule", "sigma.conversion.base.Backend.convert_correlation_rule"]


def run(ctx) -> None:
    r = ctx.r
    r.explanation = (
        "Per-rule containment decided on the source: both functions in the per-rule slot of Backend.convert wrap "
        "pipeline application, conversion and finalisation in a try whose SigmaError handler records (rule, error) "
        "and yields no query iff collect_errors (else re-raises), gate their result on rule._output and store it; "
        "every exception class raised explicitly by code reachable from that try is a SigmaError (so that it is "
        "collected); convert builds its result with one flat, ordered comprehension over the rules and one state "
        "and at most one append per condition; state a half-converted rule could leave behind (class templates, "
        "per-rule pipeline fields) is restored/reset. Equality of each query with the stand-alone conversion is not observed.")
    r1_containment(ctx)
    r2_only_sigma_errors(ctx)
    r3_order_multiplicity(ctx)
    r5_no_swallowing_handlers(ctx)
    r.rule("C08.R4", "state a failed conversion could leave behind is restored/reset (class templates: finally-restore; pipeline per-rule fields: reset at the top of apply)")
    c15.r3_reset_complete(ctx, "C08.R4")
    c15.r4_class_attr_writes(ctx, "C08.R4")
    # nothing one rule's conversion writes may be a process-wide object: every writer of a module-/class-level mutable
    # binding is in the reviewed table (shared with C15.R1)
    c15.r1_inventory(ctx, "C08.R6")
    c15.r12_rule_objects_fresh(ctx, "C08.R7")


def _slot_functions(ctx) -> list[str]:
    """Functions called per rule inside Backend.convert's comprehension."""
    prog = ctx.prog
    cv = prog.func(CONVERT)
    # the per-rule step: a comprehension or a loop over the rules of the collection
    comps = [n for n in walk_no_nested(cv.node) if isinstance(n, (ast.ListComp, ast.GeneratorExp, ast.For))]
    out: list[str] = []
    for comp in comps:
        for c in (x for x in ast.walk(comp) if isinstance(x, ast.Call)):
            d = call_name(c)
            if d.startswith("self.convert"):
                q_ = "sigma.conversion.base.Backend." + d.split(".", 1)[1]
                if q_ not in out:
                    out.append(q_)
            elif d.startswith("self._") and d.count(".") == 1:
                # a private helper that dispatches to the per-rule converters for one member of the collection
                hm = prog.lookup_method("sigma.conversion.base.Backend", d[5:])
                if hm is not None:
                    for c2 in (x for x in ast.walk(hm.node) if isinstance(x, ast.Call)):
                        d2 = call_name(c2)
                        if d2.startswith("self.convert"):
                            q_ = "sigma.conversion.base.Backend." + d2.split(".", 1)[1]
                            if q_ not in out:
                                out.append(q_)
    if not out:
        raise AnalysisError(f"{CONVERT}: no per-rule conversion call found inside a comprehension")
    return out


def r1_containment(ctx) -> None:
    r, prog = ctx.r, ctx.prog
    r.rule("C08.R1", "each per-rule conversion function contains failures: try around pipeline+conversion+finalisation, "
                     "SigmaError handler appends (rule, e) to self.errors and returns [] iff collect_errors else re-raises; "
                     "result gated on rule._output; conversion result stored")
    slots = _slot_functions(ctx)
    r.analysed["C08.per_rule_slot"] = slots
    # each per-rule function interpreted (sa.tabulate, Proxy) on a stand-in rule: a Sigma error injected at each stage
    # (pipeline application, condition/correlation conversion, query finishing, finalisation), in collecting and strict mode
    from .standins import run_per_rule_converter, StandinSigmaError
    for q in slots:
        fi = prog.func(q)
        loc = fi.loc
        fn = q.rsplit(".", 1)[-1]
        if fn not in ("convert_rule", "convert_correlation_rule"):
            raise AnalysisError(f"{q}: per-rule conversion function without stand-in scenario")
        bad_contain, bad_record, bad_strict = [], [], []
        for stage in ("pipeline", "convert", "finish", "finalize"):
            o = run_per_rule_converter(ctx, fn, output=True, fail_at=stage, collect=True)
            if o.raised is not None:
                bad_contain.append(f"a SigmaError while {stage} leaves {fn} although the backend collects errors ({o.raised})")
            else:
                if list(o.ret or []) != []:
                    bad_contain.append(f"failing at stage {stage}: returns {o.ret!r} instead of no queries")
                recs = list(o.errors)
                if not (len(recs) == 1 and isinstance(recs[0], tuple) and len(recs[0]) == 2 and recs[0][0] is o.rule and recs[0][1] is o.error):
                    bad_record.append(f"failing at stage {stage}: records {recs!r} instead of [(rule, error)]")
            o = run_per_rule_converter(ctx, fn, output=True, fail_at=stage, collect=False)
            if o.raised is None or "SigmaError" not in str(o.raised) or list(o.errors):
                bad_strict.append(f"failing at stage {stage} without collect_errors: {'returns ' + repr(o.ret) if o.raised is None else 'raises ' + str(o.raised)}, records {list(o.errors)!r}")
        # two failing rules with equal errors get a record each
        o1 = run_per_rule_converter(ctx, fn, output=True, fail_at="convert", collect=True, fail_with=StandinSigmaError("same"))
        o2 = run_per_rule_converter(ctx, fn, output=True, fail_at="convert", collect=True, me=o1.me, fail_with=o1.error)
        if o2.raised is None and len(list(o2.errors)) != 2:
            bad_record.append(f"two failing rules: {len(list(o2.errors))} record(s) — the record is appended only under a further condition (e.g. not already in self.errors — records compare by content, so the later of two equal failing rules gets none): exactly one record per failing rule")
        if not bad_contain:
            r.ok("C08.R1", q, "a Sigma error at any stage (pipeline, conversion, finishing, finalisation) is contained in collecting mode: no queries for the rule (interpreted)", loc)
        else:
            r.violation("C08.R1", q, f"try: ... except SigmaError: {bad_contain[0]}",
                        "no try/except SigmaError around pipeline application, conversion and finalisation (or the step lies outside it): a rule that fails here "
                        "aborts the whole collection even when the backend collects errors; the collecting branch must return an empty list (the failing rule would contribute queries)", loc)
        if not bad_record and not bad_strict:
            r.ok("C08.R1", q, "handler: collect_errors -> errors.append((rule, e)); return [] | else raise (interpreted: one record per failing rule with the rule and the error object; strict mode re-raises and records nothing)", loc)
        else:
            r.violation("C08.R1", q, f"except SigmaError handler: {(bad_record + bad_strict)[0]}", "collecting mode records exactly (rule, error) once per failing rule; the non-collecting branch re-raises the caught error", loc)
        # result gated on rule._output, result stored
        bad_gate, bad_store = [], []
        for referenced in (False, True):
            for output in (False, True):
                o = run_per_rule_converter(ctx, fn, False, referenced, output)
                if o.raised is not None:
                    bad_gate.append(f"(referenced={referenced}, output={output}): raises {o.raised}")
                    continue
                if bool(list(o.ret or [])) != output:
                    bad_gate.append(f"rule with _output={output} (referenced={referenced}) returns {o.ret!r}")
                if len(o.stored) != 1 or len(o.stored[0]) != 2:
                    bad_store.append(f"(referenced={referenced}, output={output}): stored {o.stored!r}")
        if not bad_gate:
            r.ok("C08.R1", q, "non-empty result returned only under rule._output", loc)
        else:
            r.violation("C08.R1", q, f"return of the queries: {bad_gate[0]}",
                        "queries are returned without testing rule._output: a rule referenced only by non-generating correlation rules still emits its own query", loc)
        if not bad_store:
            r.ok("C08.R1", q, "rule.set_conversion_result(...) called", loc)
        else:
            r.violation("C08.R1", q, f"rule.set_conversion_result(finalized_queries): {bad_store[0]}", "conversion result is not stored on the rule", loc)
    r.floor("C08.R1", 5)


def _handler_shape(h: ast.ExceptHandler) -> Optional[str]:
    """None if: if self.collect_errors: self.errors.append((rule, e)); return [] else: raise [e]"""
    name = h.name
    ifs = [s for s in h.body if isinstance(s, ast.If)]
    if len(ifs) != 1 or len(h.body) != 1:
        return "handler is not a single `if self.collect_errors: ... else: raise`"
    i = ifs[0]
    if unparse(i.test) != "self.collect_errors":
        return f"handler branches on {unparse(i.test)!r}, not on self.collect_errors"
    appends = [c for s in i.body for c in ast.walk(s) if isinstance(c, ast.Call) and call_name(c) == "self.errors.append"]
    if len(appends) != 1:
        return f"collecting branch appends {len(appends)} records to self.errors (exactly one expected)"
    arg = appends[0].args[0] if appends[0].args else None
    if not (isinstance(arg, ast.Tuple) and len(arg.elts) == 2 and unparse(arg.elts[0]) == "rule" and unparse(arg.elts[1]) == name):
        return f"collected record is {unparse(arg) if arg is not None else None}, not (rule, {name})"
    if not any(isinstance(s_, ast.Expr) and s_.value is appends[0] for s_ in i.body):
        return "the record is appended only under a further condition (e.g. not already in self.errors — records compare by content, so the later of two equal failing rules gets none): exactly one record per failing rule"
    rets = [s for s in i.body if isinstance(s, ast.Return)]
    if not rets or not (isinstance(rets[-1].value, (ast.List, ast.Tuple)) and not rets[-1].value.elts
                        or (isinstance(rets[-1].value, ast.Call) and call_name(rets[-1].value) == "list" and not rets[-1].value.args)):
        return "collecting branch does not return an empty list (the failing rule would contribute queries)"
    if not i.orelse or not isinstance(i.orelse[-1], ast.Raise) or (i.orelse[-1].exc is not None and unparse(i.orelse[-1].exc) != name):
        return "non-collecting branch does not re-raise the caught error"
    return None


def _collected_classes(prog, fi: FuncInfo) -> set[str]:
    """Exception class names (bare) that the per-rule function records as (rule, error) and turns
    into 'no query' in collecting mode, besides SigmaError."""
    out: set[str] = set()
    for t in (x for x in walk_no_nested(fi.node) if isinstance(x, ast.Try)):
        for h in t.handlers:
            names = [unparse(x).rsplit(".", 1)[-1] for x in (h.type.elts if isinstance(h.type, ast.Tuple) else [h.type])] if h.type is not None else ["BaseException"]
            for i in (s for s in h.body if isinstance(s, ast.If)):
                test = unparse(i.test)
                conj = [unparse(v) for v in i.test.values] if isinstance(i.test, ast.BoolOp) and isinstance(i.test.op, ast.And) else [test]
                if "self.collect_errors" not in conj or any(
                        c != "self.collect_errors" and not c.startswith(f"isinstance({h.name}, ") for c in conj):
                    continue
                appends = [c for s in i.body for c in ast.walk(s) if isinstance(c, ast.Call) and call_name(c) == "self.errors.append"]
                rets = [s for s in i.body if isinstance(s, ast.Return) and isinstance(s.value, ast.List) and not s.value.elts]
                if len(appends) != 1 or not rets:
                    continue
                arg = appends[0].args[0] if appends[0].args else None
                if not (isinstance(arg, ast.Tuple) and len(arg.elts) == 2 and unparse(arg.elts[0]) == "rule"):
                    continue
                narrowed = [unparse(c.args[1]).rsplit(".", 1)[-1] for c in ast.walk(i.test)
                            if isinstance(c, ast.Call) and call_name(c) == "isinstance" and len(c.args) == 2 and unparse(c.args[0]) == h.name]
                if narrowed:
                    out |= set(narrowed)
                elif test == "self.collect_errors":
                    out |= set(names)
    return out


def _defensive(prog, fi: FuncInfo, node: ast.Raise, cls: str, ctx=None) -> Optional[str]:
    """A raise is an internal-invariant guard (not a failure stage of a rule) when it re-checks what
    the dispatching caller already established: it is dominated by a failed isinstance() test on the
    condition value, or sits in the default case of a class dispatcher."""
    if cls not in ("TypeError", "ValueError"):
        return None
    gs = atomic_guards(guards_at(prog, fi, node))
    for t, pol in gs:
        if t.startswith("isinstance(") and pol is False:
            return f"guard `not {t}` re-checks the value class the dispatcher matched"
        if t.startswith("all((isinstance(") or t.startswith("all(isinstance(") or t.startswith("all([isinstance("):
            if pol is False:
                return f"guard `not {t[:60]}...` re-checks the in-list precondition (C01.R9)"
    # default case of a match/class dispatcher
    for anc in prog.ancestors(node):
        if isinstance(anc, ast.match_case):
            if isinstance(anc.pattern, ast.MatchAs) and anc.pattern.pattern is None:
                return "default case of the closed class dispatcher (C01.R1 proves totality)"
        if anc is fi.node:
            break
    # the fall-through of a value-class dispatcher written as a table or an if-chain: no class of the hierarchy reaches it
    if ctx is not None and cls == "TypeError" and fi.name in ("convert_condition_field_eq_val", "convert_condition_val") and fi.cls is not None:
        from . import c01
        try:
            mp, default = c01.dispatch_map(ctx, fi.qual)
        except AnalysisError:
            return None
        if default == "raise TypeError" and not any(h.startswith("default") or h == "raise TypeError" for t, h in mp.items() if not t.endswith("Mixin") and t != "SigmaType"):
            return "fall-through of the closed class dispatcher: no value class of the hierarchy reaches it (interpreted, C01.R1)"
    return None


# raise sites that are internal invariants but not recognisable by shape, one reason each
DEFENSIVE_TABLE = {
    ("sigma.conversion.base.TextQueryBackend.convert_condition_as_in_expression",
     "raise ValueError('Field in list expression requires all fields to be the same')"):
        "re-check of decide_convert_condition_as_in_expression's single-field precondition (C01.R9); unreachable through convert_condition_or/and",
}


def r2_only_sigma_errors(ctx) -> None:
    r, prog, cg = ctx.r, ctx.prog, ctx.cg
    r.rule("C08.R2", "every exception class raised explicitly by sigma code reachable from the containing try of convert_rule / "
                     "convert_correlation_rule (conversion and backend modules) is a SigmaError or a class the per-rule handler "
                     "records and contains in collecting mode; internal-invariant guards are exempt by shape")
    slots = _slot_functions(ctx)
    for root in slots:
        fi_root = prog.func(root)
        # which non-Sigma exception classes the per-rule function records and contains in collecting mode: the function
        # interpreted (sa.tabulate, Proxy) with an exception of each built-in class injected into the conversion stage
        import builtins as _bi
        from .standins import run_per_rule_converter as _rprc
        collected = set()
        for nm_ in ("NotImplementedError", "ValueError", "TypeError", "KeyError", "IndexError", "AttributeError", "RuntimeError", "RecursionError", "Exception"):
            try:
                o_ = _rprc(ctx, fi_root.name, fail_at="convert", collect=True, fail_with=getattr(_bi, nm_)("injected"))
            except AnalysisError:
                continue
            if o_.raised is None and o_.ret == [] and any(isinstance(e_, tuple) and len(e_) == 2 and e_[0] is o_.rule for e_ in (o_.errors or [])):
                collected.add(nm_)
        r.analysed.setdefault("C08.collected_non_sigma_classes", {})[root] = sorted(collected)
        reach = cg.reachable([root])
        scope = sorted(q for q in reach if q in prog.funcs and q.startswith(("sigma.conversion.", "sigma.backends.")))
        r.analysed.setdefault("C08.reachable_conversion_functions", {})[root] = len(scope)
        for q in scope:
            fi = prog.funcs[q]
            for node, cls, h in explicit_raises(prog, fi):
                loc = f"{fi.module.relpath}:{node.lineno}"
                if cls is None:
                    continue  # bare re-raise / re-raise of a caught object
                bare = cls.rsplit(".", 1)[-1]
                txt = " ".join(unparse(node).split())[:160]
                if is_sigma_error(prog, cls):
                    r.ok("C08.R2", q, f"raise {bare} [from {root.rsplit('.', 1)[-1]}]", loc)
                elif h is not None:
                    r.ok("C08.R2", q, f"raise {bare} caught locally by except {unparse(h.type) if h.type else ''} [from {root.rsplit('.', 1)[-1]}]", loc)
                elif bare in collected:
                    r.ok("C08.R2", q, f"raise {bare}: recorded and contained by {root.rsplit('.', 1)[-1]} in collecting mode", loc)
                elif (why := _defensive(prog, fi, node, bare, ctx)) is not None:
                    r.ok("C08.R2", q, f"raise {bare} — internal invariant: {why}", loc)
                elif (q, txt) in DEFENSIVE_TABLE:
                    r.ok("C08.R2", q, f"raise {bare} — internal invariant: {DEFENSIVE_TABLE[(q, txt)]}", loc)
                else:
                    r.violation("C08.R2", q, txt,
                                f"{bare} is not a SigmaError and {root.rsplit('.', 1)[-1]} does not record it: raised while converting one rule it "
                                f"escapes the per-rule handler and aborts the whole collection even with collect_errors=True", loc,
                                cg.path_to(reach, q)[-4:])
    r.floor("C08.R2", 40)


def r3_order_multiplicity(ctx) -> None:
    r, prog = ctx.r, ctx.prog
    r.rule("C08.R3", "Backend.convert builds its result with one flat comprehension over rule_collection.rules in order; "
                     "convert_rule creates one state per parsed condition, converts each condition once and appends at most once per condition")
    cv = prog.func(CONVERT)
    # Backend.convert interpreted (sa.tabulate, Proxy) on a stand-in collection of five rules (plain and correlation, one
    # without queries, one listed twice, two rules with an equal query)
    from .standins import run_backend_convert
    o = run_backend_convert(ctx)
    want = ["r1-a", "same", "c1-a", "same", "r2-a", "same", "r1-a", "same"]
    conv = [(t[0], t[1]) for t in o.trace if t[0].startswith("convert")]
    want_conv = [("convert_rule", "r1"), ("convert_correlation_rule", "c1"), ("convert_rule", "r2"), ("convert_rule", "empty"), ("convert_rule", "r1")]
    fins = [t for t in o.trace if t[0] == "finalize"]
    if o.raised is not None:
        r.violation("C08.R3", cv.qual, "queries = [query for rule in rule_collection.rules for query in ...]", f"convert raises {o.raised} on the stand-in collection", cv.loc)
    else:
        if conv == want_conv:
            r.ok("C08.R3", cv.qual, "every rule of the collection is converted once, in order, plain rules and correlation rules by their converter (interpreted)", cv.loc)
        else:
            r.violation("C08.R3", cv.qual, f"queries = [query for rule in rule_collection.rules for query in ...]: conversions {conv}", f"expected {want_conv}: the result is not a flat, unfiltered, in-order walk over rule_collection.rules", cv.loc)
        if len(fins) == 1 and fins[0][1] == want and o.ret == ("FINAL", want):
            r.ok("C08.R3", cv.qual, "self.finalize(queries, ...) once, on the full list in rule order (equal queries of different rules kept); its result is returned", cv.loc)
        else:
            r.violation("C08.R3", cv.qual, f"return self.finalize(queries, ...): finalize calls {[t[1] for t in fins]}, result {o.ret!r}", f"finalize is not called exactly once on the complete query list {want} (re-ordered, de-duplicated or filtered queries)", cv.loc)
    # convert_rule interpreted on a stand-in rule with two conditions: each converted once, in order, with a state of its own;
    # a condition whose conversion yields nothing (None) emits no query
    from .standins import run_per_rule_converter
    cr = prog.func(PER_RULE[0])
    for nothing_for in (None, "c1", "c0"):
        seen: list = []
        def convert_fn(c, st, _seen=seen, _n=nothing_for):
            _seen.append((c, st))
            return None if c == _n else c
        o2 = run_per_rule_converter(ctx, "convert_rule", convert_fn=convert_fn)
        what = f"conversion of {nothing_for} yields nothing" if nothing_for else "both conditions yield a query"
        if o2.raised is not None:
            r.violation("C08.R3", cr.qual, f"convert_rule on a rule with two conditions ({what})", f"raises {o2.raised}", cr.loc)
            continue
        conds_seen = [c for c, _ in seen]
        states_distinct = len({id(st) for _, st in seen}) == len(seen)
        want_q = [f"FINAL(fin({c}))" for c in ("c0", "c1") if c != nothing_for]
        if conds_seen != ["c0", "c1"]:
            r.violation("C08.R3", cr.qual, "for index, cond in enumerate(rule.detection.parsed_condition): convert_condition(cond.parsed, state)", f"convert_condition is called for {conds_seen} instead of once per condition in order ({what})", cr.loc)
        elif not states_distinct:
            r.violation("C08.R3", cr.qual, "states = [ConversionState() for _ in rule.detection.parsed_condition]", "the conditions of a rule share one conversion state object: deferred parts of one query end up in the other", cr.loc)
        elif o2.ret != want_q:
            r.violation("C08.R3", cr.qual, "if result is not None: queries.append(result)", f"{what}: the rule yields {o2.ret!r} instead of {want_q!r}" + (" — a None conversion result would be emitted as a query" if nothing_for else ""), cr.loc)
        else:
            r.ok("C08.R3", cr.qual, f"one convert_condition per parsed condition, each with its own state; {what}: {len(want_q)} quer{'y' if len(want_q) == 1 else 'ies'} (interpreted)", cr.loc)
    r.floor("C08.R3", 5)


def r5_no_swallowing_handlers(ctx, rid: str = "C08.R5") -> None:
    """No handler between a raise site and the per-rule handler swallows or re-types a SigmaError."""
    r, prog, cg = ctx.r, ctx.prog, ctx.cg
    r.rule(rid, "in code reachable from the per-rule conversion functions, an except clause that can catch a SigmaError "
                "(SigmaError derives from ValueError) re-raises it or raises a SigmaError; it never swallows it or turns it into a non-Sigma exception")
    slots = _slot_functions(ctx)
    reach = cg.reachable(slots)
    scope = sorted(q for q in reach if q in prog.funcs and q.startswith(("sigma.conversion.", "sigma.backends.", "sigma.types", "sigma.conditions", "sigma.rule.")))
    catching = {"ValueError", "Exception", "BaseException"}
    for q in scope:
        fi = prog.funcs[q]
        if q in slots:
            continue  # the per-rule handlers themselves are judged by R1/R2
        for t in (x for x in walk_no_nested(fi.node) if isinstance(x, ast.Try)):
            body_calls = [c for s_ in t.body for c in ast.walk(s_) if isinstance(c, ast.Call)]
            for h in t.handlers:
                names = [unparse(x).rsplit(".", 1)[-1] for x in (h.type.elts if isinstance(h.type, ast.Tuple) else [h.type])] if h.type is not None else ["BaseException"]
                sigma_named = [n for n in names if n.startswith("Sigma")]
                if not (set(names) & catching) and not sigma_named:
                    continue
                loc = f"{fi.module.relpath}:{h.lineno}"
                # may the try body raise a SigmaError at all?  (only sigma-internal calls can)
                internal = False
                for c in body_calls:
                    tg = ctx.types.callee_fullnames(fi.module, c)
                    if any(x.startswith("sigma.") for x in tg) or (not tg and call_name(c).startswith(("self.", "cls."))):
                        internal = True
                if not internal and not sigma_named:
                    r.ok(rid, q, f"except {', '.join(names)}: try body calls no sigma code, no SigmaError can arrive", loc)
                    continue
                raises = [x for s_ in h.body for x in ast.walk(s_) if isinstance(x, ast.Raise)]
                good = False
                for rs in raises:
                    if rs.exc is None or (h.name and unparse(rs.exc) == h.name):
                        good = True
                    else:
                        from ..raises import exc_class_of
                        cls = exc_class_of(prog, fi, rs.exc)
                        if cls and is_sigma_error(prog, cls):
                            good = True
                if good and len(raises) >= 1 and all(
                        (rs.exc is None or (h.name and unparse(rs.exc) == h.name) or is_sigma_error(prog, exc_class_or_empty(prog, fi, rs.exc))) for rs in raises):
                    r.ok(rid, q, f"except {', '.join(names)}: re-raises / raises a SigmaError", loc)
                else:
                    what = "swallows it" if not raises else f"turns it into {unparse(raises[0].exc).split('(')[0] if raises[0].exc is not None else '?'}"
                    r.violation(rid, q, f"except {', '.join(names)}",
                                f"this handler can catch a SigmaError raised by the sigma code in its try body (e.g. an unresolved-placeholder error) and {what}: "
                                f"the failing rule is then reported with the wrong error or not at all", loc)
    r.floor(rid, 1)


def exc_class_or_empty(prog, fi, e) -> str:
    from ..raises import exc_class_of
    return exc_class_of(prog, fi, e) or ""
