"""C18 — CIDR expansion matches exactly the addresses of the network (narrow structural clauses)."""
from __future__ import annotations

import ast
from typing import Any, Optional

from ..prog import AnalysisError, FuncInfo, call_name, short, stmt_head, unparse, walk_no_nested
from ..util import assignments_to, atomic_guards, cfg_of, guards_at

EXP = "sigma.types.SigmaCIDRExpression.expand"


def run(ctx) -> None:
    r = ctx.r
    r.explanation = (
        "Exactness of the pattern set is a set equality over up to 2^32 addresses and rests on the ipaddress module; what is "
        "decided here is the alignment arithmetic that exactness depends on: the integer expressions of SigmaCIDRExpression.expand "
        "are extracted and evaluated over every prefix length (0..32 with modulus 8, 0..128 with modulus 4): the added bits reach "
        "the next group boundary, subnets() is iterated with exactly that difference, the wildcard group is computed from the "
        "subnet's own prefix length and the three-way branch table (wildcard only / leading groups + wildcard / full address) is "
        "the one the octet structure requires; there is one result path; the IPv6 common-prefix scan is checked for equal-length "
        "operands; the native template receives normalised network, address, prefix length and netmask; ip_network failures become "
        "Sigma errors. That the pattern list matches exactly the network is not decided.")
    r1_alignment(ctx)
    r2_prefix_scan(ctx)
    r3_native(ctx)
    r4_validation(ctx)
    r5_expansion_table(ctx)


def _eval(e: ast.AST, env: dict[str, Any]) -> Any:
    return eval(compile(ast.Expression(body=e), "<cidr>", "eval"), {"__builtins__": {"round": round, "min": min, "max": max, "abs": abs, "int": int, "divmod": divmod, "len": len}}, env)  # noqa: S307 — extracted integer arithmetic only


class _Net:
    def __init__(self, p: int):
        self.prefixlen = p


class _Self:
    def __init__(self, p: int):
        self.network = _Net(p)


def r1_alignment(ctx) -> None:
    r, prog = ctx.r, ctx.prog
    r.rule("C18.R1", "alignment arithmetic of expand(): for every prefix length the added bits are in [0, group size) and reach the next group boundary, subnets() gets exactly that difference, the wildcard group is prefix // 8 of the *subnet*, the branch table is 0 → wildcard, 1..3 → that many octets + '.' + wildcard, 4 → full address; one result path")
    f = prog.func(EXP)
    top = [n for n in f.node.body if isinstance(n, ast.If) and "IPv4Network" in unparse(n.test)]
    if len(top) != 1 or not top[0].orelse:
        raise AnalysisError(f"{EXP}: IPv4/IPv6 branch structure not recognised")
    for fam, body, mod, maxp in (("IPv4", top[0].body, 8, 32), ("IPv6", top[0].orelse, 4, 128)):
        assigns = {unparse(s.targets[0]): s.value for s in body if isinstance(s, ast.Assign)}
        loops = [s for s in body if isinstance(s, ast.For)]
        loc = f"{f.module.relpath}:{body[0].lineno}"
        if len(loops) != 1:
            r.violation("C18.R1", EXP, f"{fam}: {len(loops)} loops", "exactly one loop over the aligned subnets expected", loc)
            continue
        lp = loops[0]
        it = lp.iter
        if not (isinstance(it, ast.Call) and call_name(it) == "self.network.subnets" and (len(it.args) == 1 or any(k.arg == "prefixlen_diff" for k in it.keywords))):
            r.violation("C18.R1", EXP, f"{fam}: {short(it, 80)}", "the loop must iterate self.network.subnets(<difference to the next boundary>)", loc)
            continue
        diff_e = it.args[0] if it.args else next(k.value for k in it.keywords if k.arg == "prefixlen_diff")
        bad = None
        for p in range(0, maxp + 1):
            env: dict[str, Any] = {"self": _Self(p)}
            try:
                for name, val in assigns.items():
                    if name.isidentifier():
                        env[name] = _eval(val, env)
                d = _eval(diff_e, env)
            except Exception as e:
                raise AnalysisError(f"{EXP}: {fam} alignment expressions not evaluable: {e}")
            if not (isinstance(d, int) and 0 <= d < mod and (p + d) % mod == 0):
                bad = (p, d)
                break
        if bad:
            r.violation("C18.R1", EXP, f"{fam}: subnets({unparse(diff_e)}) with " + ", ".join(f"{k} = {unparse(v)}" for k, v in assigns.items() if k.isidentifier()),
                        f"for prefix length /{bad[0]} the enumeration adds {bad[1]} bits: the subnets do not end on a {mod}-bit group boundary (or are needlessly many), so a pattern cut at the group boundary matches addresses outside the network or patterns become redundant", loc)
        else:
            r.ok("C18.R1", EXP, f"{fam}: difference {unparse(diff_e)} evaluated for /0../{maxp}: 0 ≤ d < {mod} and (p+d) mod {mod} = 0", loc)
        if fam == "IPv4":
            la = {unparse(s.targets[0]): s.value for s in lp.body if isinstance(s, ast.Assign)}
            var = unparse(lp.target)
            wg = la.get("wildcard_group")
            if wg is not None and unparse(wg) == f"{var}.prefixlen // 8":
                r.ok("C18.R1", EXP, f"wildcard_group = {unparse(wg)}", loc)
            else:
                r.violation("C18.R1", EXP, f"wildcard_group = {unparse(wg) if wg is not None else None}", "the number of fixed octets must be the subnet's prefix length // 8", loc)
            sg = la.get("subnet_groups")
            if sg is not None and unparse(sg).replace('"', "'") == f"str({var}.network_address).split('.')":
                r.ok("C18.R1", EXP, "octets taken from the subnet's network address", loc)
            else:
                r.violation("C18.R1", EXP, f"subnet_groups = {unparse(sg) if sg is not None else None}", "octets must come from str(subnet.network_address).split('.')", loc)
            table = []
            for n in ast.walk(lp):
                if isinstance(n, ast.Call) and call_name(n) == "patterns.append":
                    gs = [(g.replace('"', "'"), p) for g, p in atomic_guards(guards_at(prog, f, n)) if "wildcard_group" in g]
                    table.append((tuple(gs), unparse(n.args[0]).replace('"', "'")))
            want = [
                ((("wildcard_group == 0", True),), "wildcard"),
                ((("wildcard_group == 0", False), ("wildcard_group < 4", True)), "'.'.join(subnet_groups[:wildcard_group]) + '.' + wildcard"),
                ((("wildcard_group == 0", False), ("wildcard_group < 4", False)), f"str({var}.network_address)"),
            ]
            if table == want:
                r.ok("C18.R1", EXP, "branch table: 0 → wildcard; 1..3 → leading octets + '.' + wildcard; 4 → full address", loc)
            else:
                r.violation("C18.R1", EXP, f"branch table {table}", f"expected {want}", loc)
    rets = [x for x in walk_no_nested(f.node) if isinstance(x, ast.Return)]
    if len(rets) == 1 and unparse(rets[0].value) == "patterns" and rets[0] is f.node.body[-1]:
        r.ok("C18.R1", EXP, "single result path: return patterns", f.loc)
    else:
        for x in rets:
            if x is not f.node.body[-1]:
                r.violation("C18.R1", EXP, stmt_head(x), "an additional result path bypasses the subnet enumeration (e.g. listing hosts(), which omits the network address below /127): addresses of the network are then matched by no pattern", f"{f.module.relpath}:{x.lineno}")
    for c in (x for x in walk_no_nested(f.node) if isinstance(x, ast.Call) and call_name(x).endswith(".hosts")):
        r.violation("C18.R1", EXP, short(c, 80), "hosts() omits the network (and, for IPv4, broadcast) address: they are members of the CIDR network and must be matched", f"{f.module.relpath}:{c.lineno}")
    r.floor("C18.R1", 6)


def r2_prefix_scan(ctx) -> None:
    r, prog = ctx.r, ctx.prog
    r.rule("C18.R2", "a character-wise common-prefix scan over two address texts handles operands of unequal length (compressed IPv6 texts of the first and last address differ in length when zero compression swallows the low group)")
    f = prog.func(EXP)
    n = 0
    for lp in (x for x in walk_no_nested(f.node) if isinstance(x, ast.For)):
        it = unparse(lp.iter)
        if it.startswith("range(len(") and any(isinstance(c, ast.Compare) and "[i]" in unparse(c) for c in ast.walk(lp)):
            n += 1
            a = it[len("range(len("):-2]
            cmp_ = next(c for c in ast.walk(lp) if isinstance(c, ast.Compare) and "[i]" in unparse(c))
            other = [unparse(x.value) for x in ast.walk(cmp_) if isinstance(x, ast.Subscript) and unparse(x.value) != a]
            loc = f"{f.module.relpath}:{lp.lineno}"
            src = unparse(f.node)
            guarded = other and (f"len({a}) == len({other[0]})" in src or f"len({a}) != len({other[0]})" in src or "zip(" in it or ".exploded" in src)
            if not guarded:
                # or: the "no difference found" outcome is told apart from the single-address network by the prefix length —
                # every pattern appended without the wildcard after the scan is guarded by a prefix-length test
                plain = [c for c in walk_no_nested(f.node) if isinstance(c, ast.Call) and call_name(c) == "patterns.append"
                         and c.lineno > lp.end_lineno and "wildcard" not in unparse(c)
                         and any(isinstance(anc, ast.For) and lp in ast.walk(anc) for anc in prog.ancestors(c))]
                def _pl_guard(c):
                    for t, pol in atomic_guards(guards_at(prog, f, c)):
                        tt = t.replace(" ", "")
                        if "prefixlen" in tt and ((("<128" in tt or "!=128" in tt) and not pol) or (("==128" in tt or ">=128" in tt) and pol)):
                            return True
                    return False
                if plain and all(_pl_guard(c) for c in plain):
                    guarded = True
            if guarded:
                r.ok("C18.R2", EXP, f"scan over {a}/{other[0] if other else '?'} guards the lengths", loc)
            else:
                r.violation("C18.R2", EXP, f"for i in range(len({a})): if {unparse(cmp_)}",
                            f"the scan runs over len({a}) characters only; when {other[0] if other else 'the other text'} is longer (e.g. '1234::' vs '1234::f' for 1234::/124) no difference is found and the network collapses to a single-address pattern", loc)
    r.floor("C18.R2", 1)


def r3_native(ctx) -> None:
    r, prog = ctx.r, ctx.prog
    r.rule("C18.R3", "a backend with a native CIDR template receives the normalised network, network address, prefix length and netmask of the value; without one, every expanded pattern becomes one string match under an OR")
    f = prog.func("sigma.conversion.base.TextQueryBackend.convert_condition_field_eq_val_cidr")
    calls = [c for c in walk_no_nested(f.node) if isinstance(c, ast.Call) and call_name(c) == "self.cidr_expression.format"]
    if len(calls) != 1:
        raise AnalysisError(f"{f.qual}: cidr_expression.format call not found")
    kws = {k.arg: unparse(k.value) for k in calls[0].keywords}
    defs = {n: [unparse(v) for v in assignments_to(f.node, n) if isinstance(v, ast.AST)] for n in ("cidr",)}
    loc = f"{f.module.relpath}:{calls[0].lineno}"
    want = {"value": "str(cidr.network)", "network": "cidr.network.network_address", "prefixlen": "cidr.network.prefixlen", "netmask": "cidr.network.netmask"}
    for k, v in want.items():
        if kws.get(k) == v:
            r.ok("C18.R3", f.qual, f"{k}={v}", loc)
        else:
            r.violation("C18.R3", f.qual, f"{k}={kws.get(k)}", f"the native template must receive {k}={v} (normalised by ipaddress); the raw rule text such as '192.168.0.0/255.252.0.0' or '10.1.2.3' is not a normalised network", loc)
    if kws.get("field") in ("cond.field", "self.escape_and_quote_field(cond.field)"):
        r.ok("C18.R3", f.qual, f"field={kws.get('field')}", loc)
    else:
        r.violation("C18.R3", f.qual, f"field={kws.get('field')}", "field argument is not the condition's field", loc)
    if defs["cidr"] == ["cond.value"]:
        r.ok("C18.R3", f.qual, "cidr = cond.value", loc)
    else:
        r.violation("C18.R3", f.qual, f"cidr = {defs['cidr']}", "the CIDR object is not the condition's value", loc)
    src = unparse(f.node)
    if "expanded = cidr.expand()" in src and "ConditionOR([ConditionFieldEqualsValueExpression(cond.field, SigmaString(network)) for network in expanded]" in src and "self.convert_condition(expanded_cond, state)" in src:
        r.ok("C18.R3", f.qual, "non-native: OR over one field=SigmaString(pattern) per expanded pattern", f.loc)
    else:
        r.violation("C18.R3", f.qual, "expanded_cond = ConditionOR([... for network in expanded])", "without native support every expanded pattern must become one string match, OR-linked", f.loc)
    r.floor("C18.R3", 6)


def r4_validation(ctx) -> None:
    r, prog = ctx.r, ctx.prog
    r.rule("C18.R4", "invalid CIDR text is rejected with a Sigma error: ip_network() is called inside a try whose ValueError handler raises a SigmaError")
    f = prog.func("sigma.types.SigmaCIDRExpression.__post_init__")
    calls = [c for c in walk_no_nested(f.node) if isinstance(c, ast.Call) and call_name(c).endswith("ip_network")]
    if not calls:
        raise AnalysisError(f"{f.qual}: ip_network call not found")
    from ..raises import caught_locally, exc_class_of, is_sigma_error
    h = caught_locally(prog, f, calls[0], "ValueError")
    loc = f"{f.module.relpath}:{calls[0].lineno}"
    rs = [x for x in ast.walk(h) if isinstance(x, ast.Raise)] if h is not None else []
    if h is not None and rs and is_sigma_error(prog, exc_class_of(prog, f, rs[0].exc) or ""):
        r.ok("C18.R4", f.qual, f"ip_network(self.cidr): ValueError → {unparse(rs[0].exc).split('(')[0]}", loc)
    else:
        r.violation("C18.R4", f.qual, short(calls[0]), "an invalid CIDR string raises ValueError (or nothing) instead of a Sigma error", loc)
    if [unparse(a) for a in calls[0].args] == ["self.cidr"] and not calls[0].keywords:
        r.ok("C18.R4", f.qual, "strict parsing (host bits set are rejected)", loc)
    else:
        r.violation("C18.R4", f.qual, short(calls[0]), "ip_network must parse self.cidr strictly", loc)
    pi_ = prog.func("sigma.types.SigmaCIDRExpression.__post_init__")
    if any(isinstance(n, ast.If) and "'%' in self.cidr" in unparse(n.test).replace('"', "'") and isinstance(n.body[0], ast.Raise) and "Sigma" in unparse(n.body[0]) for n in walk_no_nested(pi_.node)):
        r.ok("C18.R4", pi_.qual, "scoped IPv6 addresses (zone identifier) are rejected: the text forms that expand() compares have equal structure", pi_.loc)
    else:
        r.violation("C18.R4", pi_.qual, "if '%' in self.cidr: raise", "ip_network() accepts a zone identifier (fe80::1%eth0/128); the first address keeps it and the broadcast address does not, so the common-prefix scan of expand() runs past the shorter text: IndexError during conversion", pi_.loc)
    r.floor("C18.R4", 2)


EXPAND_SAMPLES = ["10.0.0.0/8", "10.0.0.0/7", "192.168.1.0/24", "192.168.0.0/22", "0.0.0.0/0", "1.2.3.4/32", "10.1.2.128/25",
                  "2001:db8::/32", "2001:db8:1::/64", "fe80::/10", "fe80::/64", "::1/128", "1234::/124", "::/0", "::/16", "::ffff:0:0/96",
                  "64:ff9b::a00:0/104", "2001:db8::/127", "fe80::/125", "2001:db8:0:ab00::/56", "ff00::/8"]


def _reference_expand(net, wildcard="*"):
    """The expansion the comments of expand() describe, written independently: subnets up to the next group boundary
    (8 bits for IPv4, 4 bits = one hex digit for IPv6); IPv4: the static octets + '.*'; IPv6: the text both the first and the
    last address of the subnet start with + '*' (the whole first address + '*' if it is a prefix of the last one; the plain
    address for a /128)."""
    import ipaddress
    pats = []
    if isinstance(net, ipaddress.IPv4Network):
        for sub in net.subnets((8 - net.prefixlen % 8) % 8):
            g = sub.prefixlen // 8
            groups = str(sub.network_address).split(".")
            pats.append(wildcard if g == 0 else (".".join(groups[:g]) + "." + wildcard if g < 4 else str(sub.network_address)))
    else:
        for sub in net.subnets((4 - net.prefixlen % 4) % 4):
            first, last = str(sub.network_address), str(sub.broadcast_address)
            i = next((k for k in range(min(len(first), len(last))) if first[k] != last[k]), None)
            if i is not None:
                pats.append(first[:i] + wildcard)
            elif sub.prefixlen < 128:
                pats.append(first + wildcard)
            else:
                pats.append(first)
    return pats


def r5_expansion_table(ctx) -> None:
    """expand() interpreted (sa.tabulate; the stdlib ipaddress module is the only library object) on sample networks and
    compared with an independently written expansion. Decides the text arithmetic (where the wildcard is cut), not that
    prefix matching on compressed IPv6 text is exact — it is not, see §9.6."""
    import ipaddress
    from ..tabulate import Interp, Raised
    r, prog = ctx.r, ctx.prog
    r.rule("C18.R5", "expansion table: SigmaCIDRExpression.expand(), interpreted on sample networks of both families (aligned and unaligned prefixes, zero-compressed addresses, /0, /32, /125…/128), yields the patterns of the independently written reference expansion")
    f = prog.func(EXP)
    bad = []
    skipped = False
    for cidr in EXPAND_SAMPLES:
        net = ipaddress.ip_network(cidr)
        me = type("C", (), {})()
        me.network, me.cidr = net, cidr
        it = Interp({"self": me, "wildcard": "*", "IPv4Network": ipaddress.IPv4Network, "IPv6Network": ipaddress.IPv6Network}, max_steps=200000)
        try:
            got = it.call(f.node.body)
        except Raised as ex:
            bad.append((cidr, f"raises {ex}"))
            continue
        except AnalysisError as ex:  # the interpreter cannot follow this body: no verdict from this rule (floor below)
            r.note(f"C18.R5: expand() not interpreted for {cidr}: {ex}")
            skipped = True
            break
        want = _reference_expand(net)
        if list(got) != want:
            miss = [p_ for p_ in want if p_ not in got]
            bad.append((cidr, f"gives {list(got)[:6]}{'…' if len(got) > 6 else ''}, the expansion is {want[:6]}{'…' if len(want) > 6 else ''}" + (f" (lost: {miss[:3]})" if miss else "")))
    if bad:
        cidr, why = bad[0]
        r.violation("C18.R5", EXP, f"expand() of {cidr}", f"{why} (+{len(bad) - 1} more network(s)): the patterns no longer stand for the addresses of the network", f.loc)
    elif not skipped:
        r.ok("C18.R5", EXP, f"{len(EXPAND_SAMPLES)} sample networks expand to the reference patterns", f.loc)
    r.floor("C18.R5", 1)
