"""C18 — CIDR expansion matches exactly the addresses of the network (narrow structural clauses)."""
from __future__ import annotations

import ast
from typing import Any, Optional

from ..prog import AnalysisError, FuncInfo, call_name, short, stmt_head, unparse, walk_no_nested
from ..util import assignments_to, atomic_guards, cfg_of, guards_at

EXP = "sigma.types.SigmaCIDRExpression.expand"


def run(ctx) -> None:
    r = ctx.r
    r.explanation = (
        "Exactness of the pattern set is a set equality over up to 2^32 addresses and rests on the ipaddress module; what is "
        "decided here is the alignment arithmetic that exactness depends on: the integer expressions of SigmaCIDRExpression.expand "
        "are extracted and evaluated over every prefix length (0..32 with modulus 8, 0..128 with modulus 4): the added bits reach "
        "the next group boundary, subnets() is iterated with exactly that difference, the wildcard group is computed from the "
        "subnet's own prefix length and the three-way branch table (wildcard only / leading groups + wildcard / full address) is "
        "the one the octet structure requires; there is one result path; the IPv6 common-prefix scan is checked for equal-length "
        "operands; the native template receives normalised network, address, prefix length and netmask; ip_network failures become "
        "Sigma errors. That the pattern list matches exactly the network is not decided.")
    r1_alignment(ctx)
    r2_prefix_scan(ctx)
    r3_native(ctx)
    r4_validation(ctx)
    r5_expansion_table(ctx)


def _eval(e: ast.AST, env: dict[str, Any]) -> Any:
    return eval(compile(ast.Expression(body=e), "<cidr>", "eval"), {"__builtins__": {"round": round, "min": min, "max": max, "abs": abs, "int": int, "divmod": divmod, "len": len}}, env)  # noqa: S307 — extracted integer arithmetic only


class _Net:
    def __init__(self, p: int):
        self.prefixlen = p


class _Self:
    def __init__(self, p: int):
        self.network = _Net(p)


def expand_interpreted(ctx, net, wildcard="*", me=None, want_me=False):
    """SigmaCIDRExpression.expand interpreted (sa.tabulate, Proxy; the stdlib ipaddress module is the only library object)."""
    import ipaddress
    from ..tabulate import Proxy, call_method
    prog = ctx.prog
    cq = EXP.rsplit(".", 1)[0]
    env = {"IPv4Network": ipaddress.IPv4Network, "IPv6Network": ipaddress.IPv6Network, "ipaddress": ipaddress, "cast": lambda t, v: v}
    IK = {"max_steps": 400000, "behaviours": (ValueError,)}  # subnets() refuses a difference that leaves the address width
    if me is None:
        me = Proxy(prog, cq, env, {"network": net, "cidr": str(net), "source": None}, interp_kwargs=IK)
    out = list(call_method(prog, cq, "expand", me, env, wildcard, interp_kwargs=IK))
    return (out, me) if want_me else out


def r1_alignment(ctx) -> None:
    import ipaddress
    from ..tabulate import Raised
    r, prog = ctx.r, ctx.prog
    r.rule("C18.R1", "alignment arithmetic of expand(): interpreted for every prefix length of both families (/0…/32 on two IPv4 bases, /0…/128 on two IPv6 bases) — the network is split into the sub-networks that end at the next group boundary (8 bits / 4 bits), each written as its static leading groups followed by the wildcard (the whole address for a full-length prefix, the bare wildcard for /0)")
    f = prog.func(EXP)
    for fam, bases, maxp in (("IPv4", ("10.77.130.201", "255.255.255.255"), 32), ("IPv6", ("2001:db8:a5f1:9c3b:7e2d:4f60:1b8a:c9d7", "fe80::1"), 128)):
        bad = []
        n = 0
        for base in bases:
            for plen in range(0, maxp + 1):
                net = ipaddress.ip_network((base, plen), strict=False)
                n += 1
                try:
                    got = expand_interpreted(ctx, net)
                except Raised as ex:
                    bad.append(f"{net}: raises {ex}")
                    continue
                want = _reference_expand(net)
                if got != want:
                    miss = [x for x in want if x not in got]
                    extra = [x for x in got if x not in want]
                    bad.append(f"{net}: {len(got)} pattern(s) {got[:3]}{'…' if len(got) > 3 else ''} instead of {len(want)} {want[:3]}{'…' if len(want) > 3 else ''}" + (f"; lost {miss[:2]}" if miss else "") + (f"; added {extra[:2]}" if extra else ""))
        if not bad:
            r.ok("C18.R1", EXP, f"{fam}: {n} networks (every prefix length on {len(bases)} base addresses) expand to the sub-networks of the next group boundary, written as static groups + wildcard", f.loc)
        else:
            r.violation("C18.R1", EXP, f"{fam}: {bad[0]}", f"{len(bad)} of {n} prefix lengths deviate: the difference to the next group boundary, the number of static groups or the branch table (no static group → wildcard; all groups static → the address itself) is wrong — the patterns match addresses outside the network or miss addresses inside it", f.loc)
    # the same value expanded for two backends (two wildcard strings): each call answers for its own argument
    net = ipaddress.ip_network("10.2.0.0/15")
    try:
        first, me = expand_interpreted(ctx, net, "*", want_me=True)
        second = expand_interpreted(ctx, net, "%", me=me)
        third = expand_interpreted(ctx, net, "*", me=me)
        okw = second == _reference_expand(net, "%") and third == first == _reference_expand(net, "*")
        detail = f"'*' → {first}, then '%' → {second}, then '*' → {third}"
    except Raised as ex:
        okw, detail = False, f"raises {ex}"
    if okw:
        r.ok("C18.R1", EXP, "one result path: a second expansion of the same value with another wildcard string is computed for that string", f.loc)
    else:
        r.violation("C18.R1", EXP, f"expand() twice on one value: {detail}", "the result of an earlier call is handed out again: the patterns carry the wildcard string of another backend", f.loc)
    r.floor("C18.R1", 3)


def r2_prefix_scan(ctx) -> None:
    r, prog = ctx.r, ctx.prog
    r.rule("C18.R2", "a character-wise common-prefix scan over two address texts handles operands of unequal length (compressed IPv6 texts of the first and last address differ in length when zero compression swallows the low group)")
    f = prog.func(EXP)
    # expand() interpreted on networks whose first address is printed shorter than its last one
    import ipaddress
    from ..tabulate import Raised
    samples = ["1234::/124", "1234::/125", "fe80::/64", "fe80::/10", "::/0", "::/1", "::1/128", "1::/16", "2001:db8::/32", "2001:db8:0:0:1::/80", "ff00::/8", "::ffff:0:0/96"]
    bad = []
    for cidr in samples:
        net = ipaddress.ip_network(cidr)
        try:
            got = expand_interpreted(ctx, net)
        except Raised as ex:
            bad.append(f"{cidr}: raises {ex}")
            continue
        want = _reference_expand(net)
        if got != want:
            bad.append(f"{cidr} (first address {net.network_address}, last {net.broadcast_address}): {got[:3]} instead of {want[:3]}")
    if not bad:
        r.ok("C18.R2", EXP, f"{len(samples)} zero-compressed networks (first address printed shorter than the last) expand to prefix patterns with the wildcard behind the common text", f.loc)
    else:
        r.violation("C18.R2", EXP, f"common-prefix scan: {bad[0]}",
                    f"{len(bad)} of {len(samples)} networks: the scan runs over the characters of the first address only; when the last address is longer (e.g. '1234::' vs '1234::f' for 1234::/124) no difference is found and the network collapses to a single-address pattern (or the scan runs past the shorter text)", f.loc)
    r.floor("C18.R2", 1)


def cidr_conversion_table(ctx) -> dict[str, list[str]]:
    """TextQueryBackend.convert_condition_field_eq_val_cidr interpreted (sa.tabulate, Proxy) with and without a native
    template, under every enclosing operator. → {'native': [...], 'expansion': [...], 'grouping': [...]} deviations; cached."""
    if getattr(ctx, "_c18_cidr", None) is not None:
        return ctx._c18_cidr
    import ipaddress
    import types as _types
    from ..tabulate import Proxy, call_method, Raised
    prog = ctx.prog
    TQ = "sigma.conversion.base.TextQueryBackend"

    class SigmaCIDRExpression:
        def __init__(self, text, patterns):
            self.cidr, self.network, self._p = text, ipaddress.ip_network(text, strict=False), patterns
        def expand(self, wildcard="*"): return list(self._p)
        def __str__(self): return self.cidr

    class SigmaString:
        def __init__(self, t): self.t = t

    class ConditionFieldEqualsValueExpression:
        def __init__(self, field, value, *a): self.field, self.value = field, value

    class ConditionOR:
        def __init__(self, args, source=None): self.args, self.source = list(args), source

    class ConditionAND: pass
    class ConditionNOT: pass
    class DeferredQueryExpression: pass

    env = {k: v for k, v in locals().items() if isinstance(v, type) and k[:1].isupper()}
    env["cast"] = lambda t, v: v
    IK = {"behaviours": (NotImplementedError, TypeError), "max_steps": 8000}
    out: dict[str, list[str]] = {"native": [], "expansion": [], "grouping": []}
    # native template
    cond = _types.SimpleNamespace(field="fld", value=SigmaCIDRExpression("192.168.0.0/255.255.252.0", ["x"]), source="src", parent_chain_condition_classes=lambda: [])
    me = Proxy(prog, TQ, env, {"cidr_expression": "{field}|{value}|{network}|{prefixlen}|{netmask}", "escape_and_quote_field": lambda f_: f"<{f_}>"}, interp_kwargs=IK)
    try:
        got = call_method(prog, TQ, "convert_condition_field_eq_val_cidr", me, env, cond, "state", interp_kwargs=IK)
    except Raised as ex:
        got = f"<raises {ex}>"
    if got not in ("fld|192.168.0.0/22|192.168.0.0|22|255.255.252.0", "<fld>|192.168.0.0/22|192.168.0.0|22|255.255.252.0"):
        out["native"].append(f"value written 192.168.0.0/255.255.252.0 with template '{{field}}|{{value}}|{{network}}|{{prefixlen}}|{{netmask}}' gives {got!r} instead of 'fld|192.168.0.0/22|192.168.0.0|22|255.255.252.0'")
    # expansion
    for npat in (1, 2, 3):
        for enclosing, tighter in (([], False), ([ConditionOR], False), ([ConditionAND], True), ([ConditionNOT], True), ([ConditionOR, ConditionAND], False), ([ConditionAND, ConditionOR], True)):
            for in_expr in (False, True):
                for deferred in (False, True):
                    seen: list = []
                    pats = ["a*", "ab*", "b*"][:npat]  # a pattern may continue the text of its predecessor: all of them are alternatives
                    cond = _types.SimpleNamespace(field="fld", value=SigmaCIDRExpression("10.0.0.0/8", pats), source="src", parent_chain_condition_classes=lambda e=enclosing: list(e))
                    dq = DeferredQueryExpression()
                    def convert_condition(c, st, _s=seen, _d=deferred, _dq=dq):
                        _s.append(c)
                        return _dq if _d else "A or B"
                    me = Proxy(prog, TQ, env, {"cidr_expression": None, "precedence": (ConditionNOT, ConditionAND, ConditionOR), "group_expression": "({expr})", "convert_condition": convert_condition,
                                               "decide_convert_condition_as_in_expression": lambda c, st, _i=in_expr: _i, "escape_and_quote_field": lambda f_: f_}, interp_kwargs=IK)
                    case = f"{npat} pattern(s), enclosing {[c.__name__ for c in enclosing]}, in-expression={in_expr}, deferred={deferred}"
                    try:
                        got = call_method(prog, TQ, "convert_condition_field_eq_val_cidr", me, env, cond, "state", interp_kwargs=IK)
                    except Raised as ex:
                        out["expansion"].append(f"{case}: raises {ex}")
                        continue
                    if not (len(seen) == 1 and isinstance(seen[0], ConditionOR) and [(type(a), a.field, getattr(a.value, "t", None)) for a in seen[0].args] == [(ConditionFieldEqualsValueExpression, "fld", p_) for p_ in pats]):
                        out["expansion"].append(f"{case}: converts {[(type(a).__name__, getattr(a, 'field', None), getattr(getattr(a, 'value', None), 't', None)) for a in getattr(seen[0], 'args', [])] if seen else seen} instead of one OR over fld = pattern for each of {pats}")
                        continue
                    want = dq if deferred else ("(A or B)" if (npat > 1 and not in_expr and tighter) else "A or B")
                    if got is not want and got != want:
                        out["grouping"].append(f"{case}: result {got!r} instead of {want!r}")
    # grouping is required but the backend has no group template: an error, not an ungrouped OR
    cond = _types.SimpleNamespace(field="fld", value=SigmaCIDRExpression("10.0.0.0/8", ["a*", "b*"]), source="src", parent_chain_condition_classes=lambda: [ConditionAND])
    me = Proxy(prog, TQ, env, {"cidr_expression": None, "precedence": (ConditionNOT, ConditionAND, ConditionOR), "group_expression": None, "convert_condition": lambda c, st: "A or B",
                               "decide_convert_condition_as_in_expression": lambda c, st: False, "escape_and_quote_field": lambda f_: f_}, interp_kwargs=IK)
    try:
        got = call_method(prog, TQ, "convert_condition_field_eq_val_cidr", me, env, cond, "state", interp_kwargs=IK)
        out["grouping"].append(f"two patterns under AND on a backend without group template: result {got!r} instead of NotImplementedError")
    except Raised as ex:
        if "NotImplementedError" not in str(ex):
            out["grouping"].append(f"two patterns under AND on a backend without group template: raises {ex}")
    ctx._c18_cidr = out
    return out


def r3_native(ctx) -> None:
    r, prog = ctx.r, ctx.prog
    r.rule("C18.R3", "a backend with a native CIDR template receives the normalised network, network address, prefix length and netmask of the value; without one, every expanded pattern becomes one string match under an OR")
    f = prog.func("sigma.conversion.base.TextQueryBackend.convert_condition_field_eq_val_cidr")
    tbl = cidr_conversion_table(ctx)
    if not tbl["native"]:
        r.ok("C18.R3", f.qual, "native template receives value=str(network), network=network address, prefixlen, netmask of the normalised network and the condition's field (interpreted on a network written with a netmask)", f.loc)
    else:
        r.violation("C18.R3", f.qual, f"self.cidr_expression.format(...): {tbl['native'][0]}", "the native template must receive the network normalised by ipaddress (value, network address, prefix length, netmask); the raw rule text such as '192.168.0.0/255.252.0.0' or '10.1.2.3' is not a normalised network", f.loc)
    if not tbl["expansion"]:
        r.ok("C18.R3", f.qual, "non-native: OR over one field=SigmaString(pattern) per expanded pattern (48 interpreted cases)", f.loc)
    else:
        r.violation("C18.R3", f.qual, f"expanded_cond = ConditionOR([... for network in expanded]): {tbl['expansion'][0]}", "without native support every expanded pattern must become one string match, OR-linked", f.loc)
    r.floor("C18.R3", 2)


def r4_validation(ctx) -> None:
    r, prog = ctx.r, ctx.prog
    r.rule("C18.R4", "invalid CIDR text is rejected with a Sigma error: ip_network() is called inside a try whose ValueError handler raises a SigmaError")
    f = prog.func("sigma.types.SigmaCIDRExpression.__post_init__")
    # __post_init__ interpreted (sa.tabulate, Proxy; ipaddress of the standard library is the only library) on valid and invalid texts
    import ipaddress as _ip
    from ..tabulate import Proxy, call_method, Raised
    CE_ = "sigma.types.SigmaCIDRExpression"

    class SigmaTypeError(Exception):
        def __init__(self, *a, **k): super().__init__(*a)
    env4 = {"SigmaTypeError": SigmaTypeError}
    IK4 = {"max_steps": 4000, "behaviours": (SigmaTypeError, ValueError, TypeError)}

    def outcome(text):
        me = Proxy(prog, CE_, env4, {"cidr": text, "source": None}, interp_kwargs=IK4)
        try:
            call_method(prog, CE_, "__post_init__", me, env4, interp_kwargs=IK4)
        except Raised as ex:
            return "sigma error" if "SigmaTypeError" in str(ex) else f"raises {ex}"
        return me.attrs().get("network")
    bad_valid = [f"{t!r} → {outcome(t)!r}" for t in ("10.0.0.0/8", "192.168.0.0/255.255.0.0", "1.2.3.4/32", "1.2.3.4", "::1/128", "2001:db8::/32", "::/0",
                                                               "2001:0db8::/32", "2001:DB8::/32", "2001:db8:0:0:0:0:0:0/32", "FE80::/10", "0:0:0:0:0:0:0:1/128", "::ffff:10.0.0.0/104") if outcome(t) != _ip.ip_network(t)]
    bad_invalid = [f"{t!r} → {outcome(t)!r}" for t in ("nonsense", "10.0.0.0/33", "300.1.1.1/8", "1.2.3/8", "", "2001:db8::/129", "10.0.0.0/8/8", "*") if outcome(t) != "sigma error"]
    bad_hostbits = [f"{t!r} → {outcome(t)!r}" for t in ("10.0.0.1/8", "192.168.1.1/24", "2001:db8::1/32") if outcome(t) != "sigma error"]
    bad_zone = [f"{t!r} → {outcome(t)!r}" for t in ("fe80::1%eth0/128", "fe80::%1/64", "fe80::1%eth0") if outcome(t) != "sigma error"]
    if not bad_valid and not bad_invalid:
        r.ok("C18.R4", f.qual, "valid networks are parsed (network = ip_network(text)); invalid text is a SigmaTypeError, never a ValueError (interpreted on 21 texts, IPv6 in non-canonical spellings included)", f.loc)
    else:
        r.violation("C18.R4", f.qual, "ip_network(self.cidr)", f"an invalid CIDR string raises ValueError (or nothing) instead of a Sigma error, or a valid one is not parsed: {(bad_invalid + bad_valid)[0]}", f.loc)
    if not bad_hostbits:
        r.ok("C18.R4", f.qual, "strict parsing (host bits set are rejected)", f.loc)
    else:
        r.violation("C18.R4", f.qual, "ip_network(self.cidr)", f"ip_network must parse self.cidr strictly: {bad_hostbits[0]}", f.loc)
    pi_ = f
    if not bad_zone:
        r.ok("C18.R4", pi_.qual, "scoped IPv6 addresses (zone identifier) are rejected: the text forms that expand() compares have equal structure", pi_.loc)
    else:
        r.violation("C18.R4", pi_.qual, "if '%' in self.cidr: raise", f"ip_network() accepts a zone identifier (fe80::1%eth0/128); the first address keeps it and the broadcast address does not, so the common-prefix scan of expand() runs past the shorter text: IndexError during conversion — {bad_zone[0]}", pi_.loc)
    r.floor("C18.R4", 2)


EXPAND_SAMPLES = ["10.0.0.0/8", "10.0.0.0/7", "192.168.1.0/24", "192.168.0.0/22", "0.0.0.0/0", "1.2.3.4/32", "10.1.2.128/25",
                  "2001:db8::/32", "2001:db8:1::/64", "fe80::/10", "fe80::/64", "::1/128", "1234::/124", "::/0", "::/16", "::ffff:0:0/96",
                  "64:ff9b::a00:0/104", "2001:db8::/127", "fe80::/125", "2001:db8:0:ab00::/56", "ff00::/8"]


def _reference_expand(net, wildcard="*"):
    """The expansion the comments of expand() describe, written independently: subnets up to the next group boundary
    (8 bits for IPv4, 4 bits = one hex digit for IPv6); IPv4: the static octets + '.*'; IPv6: the text both the first and the
    last address of the subnet start with + '*' (the whole first address + '*' if it is a prefix of the last one; the plain
    address for a /128)."""
    import ipaddress
    pats = []
    if isinstance(net, ipaddress.IPv4Network):
        for sub in net.subnets((8 - net.prefixlen % 8) % 8):
            g = sub.prefixlen // 8
            groups = str(sub.network_address).split(".")
            pats.append(wildcard if g == 0 else (".".join(groups[:g]) + "." + wildcard if g < 4 else str(sub.network_address)))
    else:
        for sub in net.subnets((4 - net.prefixlen % 4) % 4):
            first, last = str(sub.network_address), str(sub.broadcast_address)
            i = next((k for k in range(min(len(first), len(last))) if first[k] != last[k]), None)
            if i is not None:
                pats.append(first[:i] + wildcard)
            elif sub.prefixlen < 128:
                pats.append(first + wildcard)
            else:
                pats.append(first)
    return pats


def r5_expansion_table(ctx) -> None:
    """expand() interpreted (sa.tabulate; the stdlib ipaddress module is the only library object) on sample networks and
    compared with an independently written expansion. Decides the text arithmetic (where the wildcard is cut), not that
    prefix matching on compressed IPv6 text is exact — it is not, see §9.6."""
    import ipaddress
    from ..tabulate import Interp, Raised
    r, prog = ctx.r, ctx.prog
    r.rule("C18.R5", "expansion table: SigmaCIDRExpression.expand(), interpreted on sample networks of both families (aligned and unaligned prefixes, zero-compressed addresses, /0, /32, /125…/128), yields the patterns of the independently written reference expansion")
    f = prog.func(EXP)
    bad = []
    skipped = False
    for cidr in EXPAND_SAMPLES:
        net = ipaddress.ip_network(cidr)
        try:
            got = expand_interpreted(ctx, net)
        except Raised as ex:
            bad.append((cidr, f"raises {ex}"))
            continue
        want = _reference_expand(net)
        if list(got) != want:
            miss = [p_ for p_ in want if p_ not in got]
            bad.append((cidr, f"gives {list(got)[:6]}{'…' if len(got) > 6 else ''}, the expansion is {want[:6]}{'…' if len(want) > 6 else ''}" + (f" (lost: {miss[:3]})" if miss else "")))
    if bad:
        cidr, why = bad[0]
        r.violation("C18.R5", EXP, f"expand() of {cidr}", f"{why} (+{len(bad) - 1} more network(s)): the patterns no longer stand for the addresses of the network", f.loc)
    elif not skipped:
        r.ok("C18.R5", EXP, f"{len(EXPAND_SAMPLES)} sample networks expand to the reference patterns", f.loc)
    r.floor("C18.R5", 1)
