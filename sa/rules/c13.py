"""C13 — a pipeline item acts exactly where its conditions hold."""
from __future__ import annotations

import ast
from typing import Optional

from ..prog import AnalysisError, FuncInfo, call_name, short, stmt_head, unparse, walk_no_nested
from ..util import assignments_to, atomic_guards, cfg_of, const_eval, guards_at
from . import c02

PIPE = "sigma.processing.pipeline"
CE = "sigma.processing.condition_expressions"
TB = "sigma.processing.transformations.base"


def run(ctx) -> None:
    r = ctx.r
    r.explanation = (
        "Gating mechanism decided on the source: who may call a transformation (only the item's apply under its rule gate), "
        "that every per-detection-item / per-field application is dominated by the matching gate, that the four gate functions "
        "have the same decision structure and address the right condition group, method and negation flag, that the "
        "condition-expression grammar and its evaluators delegate like-for-like (and/all, or/any, not), that the YAML keys "
        "feed the attributes of their own group, that defaults (linking 'all' only without expression) hold, that detection "
        "walkers recurse into nested detections, and that objects replacing a detection item inherit its applied-item tracking. "
        "Truth values of individual condition classes on concrete rules are not evaluated.")
    r1_who_may_call(ctx)
    r2_item_gates(ctx)
    r3_gates_agree(ctx)
    r4_expression_grammar(ctx)
    r5_tables(ctx)
    r6_tracking(ctx)
    r7_walkers(ctx)
    r8_state_conditions(ctx)
    r9_no_dunder_comparisons(ctx)
    r10_field_name_tracking(ctx)
    r11_negation_per_name(ctx)
    r12_field_name_condition_tables(ctx)
    r13_gates_keep_nothing(ctx)


# ------------------------------------------------------------------------------------------ R1
def r1_who_may_call(ctx) -> None:
    r, prog = ctx.r, ctx.prog
    r.rule("C13.R1", "a transformation's apply() is invoked only by its processing item, on the true outcome of match_rule_conditions(rule) (besides super().apply chains); pipelines invoke items only through item.apply")
    n = 0
    for q, f in sorted(prog.funcs.items()):
        if not f.module.name.startswith(("sigma.processing", "sigma.conversion", "sigma.pipelines")):
            continue
        for c in (x for x in ast.walk(f.node) if isinstance(x, ast.Call) and isinstance(x.func, ast.Attribute) and x.func.attr == "apply"
                  and (x in set(walk_no_nested(f.node)) or any(isinstance(a_, ast.Lambda) for a_ in prog.ancestors(x)))):  # lambdas of this function included
            recv = unparse(c.func.value)
            loc = f"{f.module.relpath}:{c.lineno}"
            if recv.endswith("transformation"):
                n += 1
                if f.name == "apply" and f.cls is not None and f.cls.name in ("ProcessingItem", "QueryPostprocessingItem"):
                    r.ok("C13.R1", q, f"{short(c, 60)} in the processing item's own apply (gate decided by interpretation below)", loc)
                else:
                    r.violation("C13.R1", q, short(c, 100), "transformation applied outside the apply() of its processing item, which holds the rule gate", loc)
            elif recv == "super()":
                continue
            elif recv in ("item", "finalizer", "self._nested_pipeline", "self.last_processing_pipeline", "pipeline"):
                continue
            else:
                types = ctx.types.class_names(f.module, c.func.value)
                if any(prog.is_subclass(t, "sigma.processing.transformations.base.Transformation") for t in types if t in prog.classes):
                    n += 1
                    r.violation("C13.R1", q, short(c, 100), "a transformation object is applied directly, bypassing its processing item's conditions", loc)
    # the gate and the applied flag: both apply() methods interpreted (sa.tabulate, Proxy) with a stand-in gate and transformation
    from ..tabulate import Proxy as _Proxy, call_method as _call_method, Raised as _Raised
    for cn, extra in (("ProcessingItem", ()), ("QueryPostprocessingItem", ("QUERY",))):
        f = prog.func(f"{PIPE}.{cn}.apply")
        problems = []
        for ans in (True, False):
            calls = []
            class _T:
                def apply(self, *a, **k):
                    calls.append(a)
                    return "TRANSFORMED"
            gate_calls = []
            rule_obj = object()
            me = _Proxy(prog, f"{PIPE}.{cn}", {}, {"transformation": _T(), "match_rule_conditions": lambda rule_, _a=ans: (gate_calls.append(rule_), _a)[1],
                                                   "identifier": "x", "rule_conditions": [], "rule_condition_expression": None}, interp_kwargs={"max_steps": 4000})
            try:
                ret = _call_method(prog, f"{PIPE}.{cn}", "apply", me, {}, rule_obj, *extra, interp_kwargs={"max_steps": 4000})
            except _Raised as ex:
                problems.append(f"raises {ex} (gate answers {ans})")
                continue
            if gate_calls != [rule_obj]:
                problems.append(f"match_rule_conditions is asked {len(gate_calls)} times about the rule (gate answers {ans})")
            want_calls = [(rule_obj,) + extra] if ans else []
            if calls != want_calls:
                problems.append(f"the transformation is applied {len(calls)} time(s) with {calls} although the rule gate answers {ans}")
            want = (("TRANSFORMED", True) if ans else ("QUERY", False)) if extra else ans
            if ret != want or (not extra and ret is not want):
                problems.append(f"returns {ret!r} instead of {want!r} when the rule gate answers {ans}")
        if problems:
            r.violation("C13.R1", f.qual, "apply(): transformation applied iff match_rule_conditions(rule); returns the applied flag", f"the transformation does not follow the gate outcome or the 'applied' flag does not reflect it (applied ids/tracking would lie): {problems[0]}", f.loc)
        else:
            r.ok("C13.R1", f.qual, "interpreted with a stand-in gate: the transformation runs once iff match_rule_conditions(rule) holds, and the applied flag (and the query passed through) says so", f.loc)
    pa = prog.func(PIPE + ".ProcessingPipeline.apply")
    # ProcessingPipeline.apply interpreted (sa.tabulate, Proxy) on stand-in items that answer whether they were applied
    from collections import defaultdict as _dd
    from ..tabulate import Proxy, call_method, Raised
    PP = PIPE + ".ProcessingPipeline"
    order: list = []

    class _Item:
        def __init__(self, ident, ans): self.identifier, self.ans = ident, ans
        def apply(self, rule, *a, **k):
            order.append(self.identifier)
            return self.ans

    items = [_Item("a", True), _Item(None, True), _Item("c", False), _Item("", True), _Item("e", True)]
    env = {"defaultdict": _dd}
    stale = {"old": 1}
    me = Proxy(prog, PP, env, {"items": items, "applied": [True], "applied_ids": {"zz"}, "field_name_applied_ids": _dd(set, {"f": {"zz"}}), "field_mappings": "stale", "state": stale,
                               "postprocessing_items": [], "finalizers": [], "vars": {}}, interp_kwargs={"max_steps": 6000})
    rule_obj = object()
    given = {"k": "v"}
    try:
        ret = call_method(prog, PP, "apply", me, env, rule_obj, given, interp_kwargs={"max_steps": 6000})
        problems = []
        if order != ["a", None, "c", "", "e"]:
            problems.append(f"items applied in order {order}")
        if list(me.applied) != [True, True, False, True, True]:
            problems.append(f"applied = {list(me.applied)} instead of the items' own answers [True, True, False, True, True]")
        if set(me.applied_ids) != {"a", "e"}:
            problems.append(f"applied_ids = {sorted(map(str, me.applied_ids))} instead of the identifiers of the applied items ['a', 'e']")
        if ret is not rule_obj:
            problems.append(f"returns {ret!r} instead of the rule")
        if me.state != given or me.state is given or me.state is stale:
            problems.append(f"state = {me.state!r} instead of a copy of the given state")
    except Raised as ex:
        problems = [f"raises {ex}"]
    if not problems:
        r.ok("C13.R1", pa.qual, "applied/applied_ids recorded per item, in order, from the item's own answer (interpreted on five stand-in items)", pa.loc)
    else:
        r.violation("C13.R1", pa.qual, f"applied = item.apply(rule); self.applied.append(applied); if applied and (itid := item.identifier): self.applied_ids.add(itid) — {problems[0]}", "per-item application bookkeeping altered", pa.loc)
    r.floor("C13.R1", 5)


# ------------------------------------------------------------------------------------------ R2
def r2_item_gates(ctx) -> None:
    r, prog = ctx.r, ctx.prog
    r.rule("C13.R2", "every call of apply_detection_item is guarded by `processing_item is None or processing_item.match_detection_item(item)`; mapped field names are used only under match_field_name / match_field_in_value")
    from .standins import apply_detection_outcomes, DIT_BASE
    n = 0
    seen = set()
    for cq in sorted(prog.subclasses(DIT_BASE)):
        m = prog.lookup_method(cq, "apply_detection")
        if m is None:
            continue
        key = (m.qual, tuple(q for q in prog.mro(cq) if (ci := prog.classes.get(q)) is not None and "apply_detection" in ci.methods))
        if key in seen:
            continue
        seen.add(key)
        m, outs = apply_detection_outcomes(ctx, cq)
        n += 1
        bad = None
        for o in outs:
            if o.raised is not None:
                bad = f"raises {o.raised} ({o.mode}, {o.mods})"
                break
            want_asked = ["A", "C"] if o.with_pi else ["A", "B", "C"]
            if sorted(o.asked) != want_asked:
                bad = (f"with a processing item whose detection item condition matches A and C only, apply_detection_item is asked about {o.asked}" if o.with_pi
                       else f"without a processing item, apply_detection_item is asked about {o.asked} of the items A, B and the nested C")
                break
        if bad:
            r.violation("C13.R2", m.qual, "apply_detection_item(...) behind the detection-item gate", f"detection item transformed without its detection-item/field-name conditions having matched, or a matching one skipped: {bad}", m.loc)
        else:
            r.ok("C13.R2", m.qual, f"interpreted on [A, B, [C]] for {cq.rsplit('.', 1)[-1]}: apply_detection_item is called exactly for the items the processing item's conditions match (all items without a processing item), nested detections included ({len(outs)} scenarios)", m.loc)
    f = prog.func(TB + ".FieldMappingTransformationBase._apply_field_name")
    # interpreted (sa.tabulate, Proxy): mapping answer (none / one name / several) x processing item (none / gate passes / gate fails)
    from ..tabulate import Proxy as _P2, call_method as _cm2, Raised as _R2
    FMQ = TB + ".FieldMappingTransformationBase"
    bad2 = []
    n2 = 0
    for answer in (None, "m", ["m1", "m2"]):
        for gate in (None, True, False):
            n2 += 1
            asked, tracked = [], []
            pi = None if gate is None else type("PI", (), {"identifier": "pi", "match_field_name": lambda s_, fn, g_=gate: (asked.append(fn), g_)[1]})()
            pl = type("PL", (), {"track_field_processing_items": lambda s_, *a: tracked.append(a)})()
            me2 = _P2(prog, FMQ, {"cast": lambda t, v: v}, {"processing_item": pi, "_pipeline": pl, "apply_field_name": lambda fn, a_=answer: a_}, interp_kwargs={"max_steps": 4000})
            try:
                got = _cm2(prog, FMQ, "_apply_field_name", me2, {"cast": lambda t, v: v}, "f", interp_kwargs={"max_steps": 4000})
            except _R2 as ex:
                got = f"<raises {ex}>"
            mapped = answer is not None and gate is not False
            want = ([answer] if isinstance(answer, str) else list(answer)) if mapped else ["f"]
            if got != want:
                bad2.append(f"mapping answer {answer!r}, field-name gate {'absent' if gate is None else 'passes' if gate else 'fails'}: returns {got!r} instead of {want!r}")
            elif mapped and pi is not None and not tracked:
                bad2.append(f"mapping answer {answer!r}, gate passes: the mapping is not recorded in the per-name tracking of the pipeline")
            elif not mapped and tracked:
                bad2.append(f"mapping answer {answer!r}, field-name gate {'absent' if gate is None else 'fails'}: a mapping that was not made is recorded")
    if bad2:
        r.violation("C13.R2", f.qual, f"_apply_field_name: {bad2[0]}", f"{len(bad2)} of {n2} interpreted cases deviate: a field name is mapped exactly if the transformation has a mapping for it and the field-name conditions of its processing item (if any) match", f.loc)
    else:
        r.ok("C13.R2", f.qual, f"mapped result returned exactly under a mapping answer and match_field_name(field) (no processing item: always); otherwise [field] unchanged ({n2} interpreted cases)", f.loc)
    f = prog.func(TB + ".FieldMappingTransformationBase.apply_detection_item")
    stores = [n_ for n_ in walk_no_nested(f.node) if isinstance(n_, ast.Assign) and unparse(n_.targets[0]) in ("detection_item.field", "field_match")]
    for st in stores:
        gs = atomic_guards(guards_at(prog, f, st))
        loc = f"{f.module.relpath}:{st.lineno}"
        if isinstance(st.value, ast.Constant) and st.value.value is False:
            continue
        if ("self.processing_item is None or self.processing_item.match_field_name(field)", True) in gs and ("mapping is not None", True) in gs:
            r.ok("C13.R2", f.qual, f"{unparse(st)} under match_field_name(field)", loc)
        else:
            r.violation("C13.R2", f.qual, unparse(st), f"field of the detection item is renamed without the field-name gate ({gs})", loc)
    ext = [c for c in walk_no_nested(f.node) if isinstance(c, ast.Call) and call_name(c) == "new_values.extend"]
    for c in ext:
        gs = atomic_guards(guards_at(prog, f, c))
        loc = f"{f.module.relpath}:{c.lineno}"
        if ("self.processing_item is None or self.processing_item.match_field_in_value(value)", True) in gs and ("isinstance(value, SigmaFieldReference)", True) in gs:
            r.ok("C13.R2", f.qual, "field references are re-mapped only under match_field_in_value(value)", loc)
        else:
            r.violation("C13.R2", f.qual, short(c, 80), f"field reference re-mapped without the field-in-value gate ({gs})", loc)
    if n < 3:
        raise AnalysisError(f"only {n} apply_detection implementations found (3 confirmed)")
    r.floor("C13.R2", 7)


# ------------------------------------------------------------------------------------------ R3
GATES = [
    # (function, group prefix, expression method, expr arg, condition method, cond arg)
    ("ProcessingItemBase.match_rule_conditions", "rule_condition", "rule_conditions", "match", "rule", "match", "rule"),
    ("ProcessingItem.match_detection_item", "detection_item_condition", "detection_item_conditions", "match", "detection_item", "match", "detection_item"),
    ("ProcessingItem.match_detection_item", "field_name_condition", "field_name_conditions", "match_detection_item", "detection_item", "match_detection_item", "detection_item"),
    ("ProcessingItem.match_field_name", "field_name_condition", "field_name_conditions", "match_field_name", "field", "match_field_name", "field"),
    ("ProcessingItem.match_field_in_value", "field_name_condition", "field_name_conditions", "match_field_name", "value.field", "match_value", "value"),
]


def r3_gates_agree(ctx) -> None:
    r, prog = ctx.r, ctx.prog
    r.rule("C13.R3", "the gate functions share one decision structure per condition group: expression → expr.<method>(target); else linking over the list of conditions' <method>(target); else Sigma error; then negation by the group's own flag; an empty condition group means 'applies'")
    # every gate function interpreted (sa.tabulate, Proxy) over its truth table: evaluation mode (condition expression /
    # linking any|all over the condition list / neither) x results of the conditions (none, one, two) x negation flag;
    # stand-in conditions record which of their methods is asked about which object
    import types as _types
    from ..tabulate import Proxy, call_method, Raised

    class SigmaPipelineConditionError(Exception):
        def __init__(self, *a, **k): super().__init__(*a)

    class SigmaFieldReference:
        def __init__(self, field): self.field = field

    env = {"SigmaPipelineConditionError": SigmaPipelineConditionError, "SigmaFieldReference": SigmaFieldReference}
    IK = {"behaviours": (SigmaPipelineConditionError,), "max_steps": 6000}
    METHODS = ("match", "match_detection_item", "match_field_name", "match_value")

    def standin_condition(result, method, arg, log):
        def mk(name):
            def fn(x, *a, **k):
                if name != method:
                    log.append(f"condition asked through {name}() instead of {method}()")
                    return not result
                if not (x is arg or x == arg):
                    log.append(f"{method}() asked about {x!r} instead of the gate's subject")
                return result
            return fn
        return _types.SimpleNamespace(**{m_: mk(m_) for m_ in METHODS})

    GROUPS = ("rule_condition", "detection_item_condition", "field_name_condition")
    CONDS = {"rule_condition": "rule_conditions", "detection_item_condition": "detection_item_conditions", "field_name_condition": "field_name_conditions"}

    def run_gate(fn, grp, conds_attr, em, cm, mode, results, neg, subject, expr_arg, cond_arg):
        log: list[str] = []
        attrs = {}
        for g_ in GROUPS:  # the other groups: no conditions, linking all, no negation → they apply
            attrs.update({f"{g_}_expression": None, f"{g_}_linking": all, CONDS[g_]: [], f"{g_}_negation": False})
        cl = fn.split(".")[0]
        if mode == "expression":
            expr = standin_condition(results[0] if results else True, em, expr_arg, log)
            attrs.update({f"{grp}_expression": expr, f"{grp}_linking": None, conds_attr: {f"c{i_}": object() for i_ in range(max(1, len(results)))}})
            raw = results[0] if results else True
            nonempty = True
        elif mode in ("any", "all"):
            attrs.update({f"{grp}_expression": None, f"{grp}_linking": any if mode == "any" else all, conds_attr: [standin_condition(x, cm, cond_arg, log) for x in results]})
            raw = (any if mode == "any" else all)(results)
            nonempty = bool(results)
        else:
            attrs.update({f"{grp}_expression": None, f"{grp}_linking": None, conds_attr: [standin_condition(x, cm, cond_arg, log) for x in results]})
            raw, nonempty = None, bool(results)
        attrs[f"{grp}_negation"] = neg
        me = Proxy(prog, f"{PIPE}.{cl}", env, attrs, interp_kwargs=IK)
        try:
            got = call_method(prog, f"{PIPE}.{cl}", fn.split(".")[1], me, env, subject, interp_kwargs=IK)
        except Raised as ex:
            got = "error" if "SigmaPipelineConditionError" in str(ex) else f"<raises {ex}>"
        want = "error" if mode == "neither" else ((not nonempty) or ((not raw) if neg else raw))
        return got, want, log

    subjects = {"rule": object(), "detection_item": _types.SimpleNamespace(field="f", value=[]), "field": "fname", "value": SigmaFieldReference("fname")}
    for fn, grp, conds, em, ea, cm, ca in GATES:
        f = prog.func(f"{PIPE}.{fn}")
        subject = subjects[{"rule": "rule", "detection_item": "detection_item", "field": "field", "value.field": "value"}[ea]]
        expr_arg = subject.field if ea == "value.field" else subject
        cond_arg = subject
        bad = {"evaluation": [], "negation": [], "empty group": [], "error": []}
        n = 0
        for mode in ("expression", "any", "all", "neither"):
            for results in ([], [True], [False], [True, False]):
                if mode == "expression" and len(results) != 1:
                    continue
                for neg in (False, True):
                    n += 1
                    got, want, log = run_gate(fn, grp, conds, em, cm, mode, results, neg, subject, expr_arg, cond_arg)
                    desc = f"mode {mode}, condition results {results}, negation flag {neg}"
                    if log:
                        bad["evaluation"].append(f"{desc}: {log[0]}")
                    elif got != want:
                        kind = "error" if mode == "neither" else "empty group" if not results else "negation" if neg else "evaluation"
                        bad[kind].append(f"{desc}: {got!r} instead of {want!r}")
        texts = {
            "evaluation": (f"{grp}: expression.{em}({ea}) / linking([c.{cm}({ca}) for c in {conds}])", f"the gate must evaluate self.{grp}_expression.{em}({ea}), else link every condition of self.{conds} evaluated with {cm}({ca})"),
            "negation": (f"{grp}: negation", f"the result of this group must be negated exactly when self.{grp}_negation is set"),
            "empty group": (f"{grp}: no empty-group shortcut", "gate asymmetry: an empty condition group applies (`not <conditions> or result`), also when its negation flag is set: 'an item without conditions always applies'"),
            "error": (f"{grp}: else branch", "missing expression and linking must raise SigmaPipelineConditionError"),
        }
        for kind, (what, why) in texts.items():
            if bad[kind]:
                r.violation("C13.R3", f.qual, f"{what}: {bad[kind][0]}", f"{len(bad[kind])} of {n} interpreted cases: {why}", f.loc)
            else:
                r.ok("C13.R3", f.qual, f"{what} — as specified in all {n} interpreted cases", f.loc)
    # combination in match_detection_item: both groups must hold
    f = prog.func(PIPE + ".ProcessingItem.match_detection_item")
    combo = []
    for a_ in (True, False):
        for b_ in (True, False):
            log: list[str] = []
            di = subjects["detection_item"]
            attrs = {f"{g_}_{k}": v for g_ in GROUPS for k, v in (("expression", None), ("linking", all), ("negation", False))}
            attrs.update({"rule_conditions": [], "detection_item_conditions": [standin_condition(a_, "match", di, log)], "field_name_conditions": [standin_condition(b_, "match_detection_item", di, log)]})
            try:
                got = call_method(prog, PIPE + ".ProcessingItem", "match_detection_item", Proxy(prog, PIPE + ".ProcessingItem", env, attrs, interp_kwargs=IK), env, di, interp_kwargs=IK)
            except Raised as ex:
                got = f"<raises {ex}>"
            if got is not (a_ and b_) or log:
                combo.append(f"detection item group {a_}, field name group {b_}: {got!r}" + (f" ({log[0]})" if log else ""))
    if not combo:
        r.ok("C13.R3", f.qual, "detection-item group AND field-name group", f.loc)
    else:
        r.violation("C13.R3", f.qual, f"return: {combo[0]}", "the two groups must be combined by AND", f.loc)
    f = prog.func(PIPE + ".ProcessingItem.match_field_in_value")
    outs = []
    for v in ("text", 5, None, _types.SimpleNamespace(field="fname")):
        attrs = {f"{g_}_{k}": v2 for g_ in GROUPS for k, v2 in (("expression", None), ("linking", all), ("negation", False))}
        attrs.update({"rule_conditions": [], "detection_item_conditions": [], "field_name_conditions": []})
        try:
            outs.append(call_method(prog, PIPE + ".ProcessingItem", "match_field_in_value", Proxy(prog, PIPE + ".ProcessingItem", env, attrs, interp_kwargs=IK), env, v, interp_kwargs=IK))
        except Raised as ex:
            outs.append(f"<raises {ex}>")
    if all(o is False for o in outs):
        r.ok("C13.R3", f.qual, "non-reference values never match the field-in-value gate", f.loc)
    else:
        r.violation("C13.R3", f.qual, f"else: return False — non-reference values give {outs}", "non-field-reference values must not pass the field-in-value gate", f.loc)
    r.floor("C13.R3", 20)


# ------------------------------------------------------------------------------------------ R4
def r4_expression_grammar(ctx) -> None:
    r, prog = ctx.r, ctx.prog
    r.rule("C13.R4", "condition-expression grammar: operators are Keywords with the identifier alphabet as word characters; levels (not,1,RIGHT,ConditionNOT),(and,2,LEFT,ConditionAND),(or,2,LEFT,ConditionOR); binary parse action folds every second token to the left; NOT takes the token after the operator; parse_all=True")
    f = prog.func(CE + ".parse_condition_expression")
    m = f.module
    # the function body interpreted over the abstract pyparsing model (sa.grammar): the grammar it builds, as data
    from ..grammar import G, interpret_statements
    env, skipped = interpret_statements(prog, m, f.node.body, extra={p: "x" for p in f.params()})
    infix = []
    for v in list(env.values()):
        if isinstance(v, G):
            for g in v.walk():
                if g.kind == "infix" and all(g is not x for x in infix):
                    infix.append(g)
    if len(infix) != 1:
        raise AnalysisError(f"{f.qual}: infix_notation grammar not found ({len(infix)} built; skipped: {skipped})")
    gr = infix[0]
    if gr.operand.kind != "Word":
        raise AnalysisError(f"{f.qual}: identifier is not Word(...)")
    alpha = gr.operand.alphabet
    loc = f.loc
    for op, arity, assoc, action in gr.levels:
        c02.check_operator_element(r, "C13.R4", f.qual, op, alpha, loc)
    got = [(getattr(op, "match", None), arity, assoc, str(action)) for op, arity, assoc, action in gr.levels]
    want = [("not", 1, "RIGHT", "ConditionNOT.from_parsed"), ("and", 2, "LEFT", "ConditionAND.from_parsed"), ("or", 2, "LEFT", "ConditionOR.from_parsed")]
    if got == want:
        r.ok("C13.R4", f.qual, f"levels {got}", loc)
    else:
        r.violation("C13.R4", f.qual, f"levels {got}", f"expected {want}", loc)
    if str(gr.operand.action) == "ConditionIdentifier.from_parsed":
        r.ok("C13.R4", f.qual, "identifier parse action ConditionIdentifier.from_parsed", loc)
    else:
        r.violation("C13.R4", f.qual, f"identifier parse action {gr.operand.action}", "expected ConditionIdentifier.from_parsed", loc)
    calls = getattr(gr, "parse_calls", [])
    if calls and all(calls):
        r.ok("C13.R4", f.qual, "parse_all=True", loc)
    else:
        r.violation("C13.R4", f.qual, f"parse call(s) with parse_all={calls}", "the whole expression must be consumed", f.loc)
    # the parse actions interpreted (sa.tabulate) on the token lists pyparsing hands them
    from ..tabulate import ClassProxy, call_method, Raised
    b = prog.func(CE + ".BinaryConditionOp.from_parsed")
    nn = prog.func(CE + ".ConditionNOT.from_parsed")

    class _Node:
        def __init__(self, *a, **k):
            self.a, self.expr = a, None
        def set_expression(self, s_): self.expr = s_
        def shape(self):
            return tuple(x.shape() if isinstance(x, _Node) else x for x in self.a[1:])
    IK4 = {"max_steps": 4000}
    problems4 = []
    for toks, want_shape in ((["A", "and", "B"], ("A", "B")), (["A", "and", "B", "and", "C"], (("A", "B"), "C")), (["A", "or", "B", "or", "C", "or", "D"], ((("A", "B"), "C"), "D"))):
        klass = ClassProxy(prog, CE + ".BinaryConditionOp", {}, ctor=lambda *a, **k: _Node(*a, **k), interp_kwargs=IK4)
        try:
            out4 = call_method(prog, CE + ".BinaryConditionOp", "from_parsed", klass, {}, "SRC", 7, [list(toks)], interp_kwargs=IK4)
            if not isinstance(out4, _Node) or out4.shape() != want_shape:
                problems4.append(f"tokens {toks} → {out4.shape() if isinstance(out4, _Node) else out4!r} instead of {want_shape}")
            elif out4.a[0] != 7:
                problems4.append(f"tokens {toks}: location {out4.a[0]!r} instead of 7")
        except Raised as ex:
            problems4.append(f"tokens {toks}: raises {ex}")
    if not problems4:
        r.ok("C13.R4", b.qual, "left fold over every second token (interpreted on 2, 3 and 4 operands)", b.loc)
    else:
        r.violation("C13.R4", b.qual, "operands = t[0][0::2]; result = cls(l, operands[0], operands[1]); for operand in operands[2:]: result = cls(l, result, operand)", f"binary parse action no longer builds the left-associative tree over all operands: {problems4[0]}", b.loc)
    klass = ClassProxy(prog, CE + ".ConditionNOT", {}, ctor=lambda *a, **k: _Node(*a, **k), interp_kwargs=IK4)
    try:
        out4 = call_method(prog, CE + ".ConditionNOT", "from_parsed", klass, {}, "SRC", 3, [["not", "OPERAND"]], interp_kwargs=IK4)
        okn = isinstance(out4, _Node) and out4.shape() == ("OPERAND",)
        whyn = f"gives {out4.shape() if isinstance(out4, _Node) else out4!r}"
    except Raised as ex:
        okn, whyn = False, f"raises {ex}"
    if okn:
        r.ok("C13.R4", nn.qual, "NOT takes t[0][1] (interpreted)", nn.loc)
    else:
        r.violation("C13.R4", nn.qual, "expr = cls(l, t[0][1])", f"NOT parse action does not take the operand token: ['not', 'OPERAND'] {whyn}", nn.loc)
    r.floor("C13.R4", 6)


# ------------------------------------------------------------------------------------------ R5
def r5_tables(ctx) -> None:
    r, prog = ctx.r, ctx.prog
    r.rule("C13.R5", "tables and defaults: expression evaluators delegate to the same-named method (and→all, or→any, not→not); YAML keys feed the attributes of their own group; 'or'→any/'and'→all; linking defaults to all only without an expression, for all three groups")
    # evaluators, interpreted (sa.tabulate, Proxy) on recording stand-in conditions
    import types as _types
    from ..tabulate import Proxy, call_method, Raised

    class SigmaPipelineConditionError(Exception):
        def __init__(self, *a, **k): super().__init__(*[str(x) for x in a])

    class _Rec:
        def __init__(self, result, log): self.result, self.log = result, log
        def match(self, x): self.log.append(("match", x)); return self.result
        def match_detection_item(self, x): self.log.append(("match_detection_item", x)); return self.result
        def match_field_name(self, x): self.log.append(("match_field_name", x)); return self.result
        def match_value(self, x): self.log.append(("match_value", x)); return self.result

    class RuleProcessingCondition(_Rec): pass
    class DetectionItemProcessingCondition(_Rec): pass
    class FieldNameProcessingCondition(_Rec): pass
    class SigmaRule: pass
    class SigmaCorrelationRule: pass
    class SigmaDetectionItem:
        field, value, modifiers = "fname", [], []

    env = {k: v for k, v in locals().items() if isinstance(v, type) and k[:1].isupper()}
    IK = {"behaviours": (SigmaPipelineConditionError,), "max_steps": 4000}
    CI = f"{CE}.ConditionIdentifier"
    table = [
        ("match", RuleProcessingCondition, SigmaRule(), True), ("match", RuleProcessingCondition, SigmaCorrelationRule(), True), ("match", DetectionItemProcessingCondition, SigmaDetectionItem(), True),
        ("match", RuleProcessingCondition, SigmaDetectionItem(), False), ("match", DetectionItemProcessingCondition, SigmaRule(), False), ("match", FieldNameProcessingCondition, SigmaDetectionItem(), False),
        ("match_detection_item", FieldNameProcessingCondition, SigmaDetectionItem(), True), ("match_detection_item", DetectionItemProcessingCondition, SigmaDetectionItem(), False),
        ("match_field_name", FieldNameProcessingCondition, "fname", True), ("match_field_name", FieldNameProcessingCondition, None, True), ("match_field_name", RuleProcessingCondition, "fname", False),
    ]
    for fn in ("match", "match_detection_item", "match_field_name"):
        f = prog.func(f"{CI}.{fn}")
        bad = []
        for m_, K, subject, admitted in table:
            if m_ != fn:
                continue
            for result in (True, False):
                log: list = []
                me = Proxy(prog, CI, env, {"_condition": K(result, log), "identifier": "c", "expression": "c", "location": 0}, interp_kwargs=IK)
                try:
                    got = call_method(prog, CI, fn, me, env, subject, interp_kwargs=IK)
                except Raised as ex:
                    got = "error" if "SigmaPipelineConditionError" in str(ex) else f"<raises {ex}>"
                if admitted and not (got is result and log == [(fn, subject)]):
                    bad.append(f"{K.__name__} on {type(subject).__name__}: answer {got!r}, calls {[(a, type(b).__name__) for a, b in log]}; expected the condition's own {fn}() answer {result}")
                if not admitted and got != "error":
                    bad.append(f"{K.__name__} on {type(subject).__name__}: {got!r} instead of SigmaPipelineConditionError")
        if not bad:
            r.ok("C13.R5", f.qual, f"→ the resolved condition's {fn}(subject) for the condition kinds that fit, SigmaPipelineConditionError otherwise (interpreted)", f.loc)
        else:
            r.violation("C13.R5", f.qual, f"return: {bad[0]}", f"identifier evaluation must delegate to self._condition.{fn}(…); another method decides differently for conditions that override it (field references, applied-item conditions)", f.loc)
    for fn in ("match", "match_detection_item", "match_field_name"):
        subject = SigmaDetectionItem() if fn != "match_field_name" else "fname"
        for cn, fun in (("ConditionAND", all), ("ConditionOR", any)):
            f = prog.lookup_method(f"{CE}.{cn}", fn)
            bad = []
            for a_ in (True, False):
                for b_ in (True, False):
                    log: list = []
                    me = Proxy(prog, f"{CE}.{cn}", env, {"left": _Rec(a_, log), "right": _Rec(b_, log), "location": 0}, interp_kwargs=IK)
                    try:
                        got = call_method(prog, f"{CE}.{cn}", fn, me, env, subject, interp_kwargs=IK)
                    except Raised as ex:
                        got = f"<raises {ex}>"
                    if got is not fun([a_, b_]) or any(m_ != fn or x is not subject for m_, x in log):
                        bad.append(f"{a_} {cn[9:].lower()} {b_}: {got!r}, operands asked through {[m_ for m_, _ in log]}")
            if not bad:
                r.ok("C13.R5", f.qual if f else f"{CE}.{cn}", f"{cn}.{fn}: {fun.__name__}([left.{fn}, right.{fn}])", f.loc if f else "")
            else:
                r.violation("C13.R5", f.qual if f else f"{CE}.{cn}", f"{cn}.{fn}: {bad[0]}", f"binary node must combine left.{fn}(…) and right.{fn}(…) with {fun.__name__}()", f.loc if f else "")
        f = prog.func(f"{CE}.ConditionNOT.{fn}")
        bad = []
        for a_ in (True, False):
            log = []
            me = Proxy(prog, f"{CE}.ConditionNOT", env, {"condition": _Rec(a_, log), "location": 0}, interp_kwargs=IK)
            try:
                got = call_method(prog, f"{CE}.ConditionNOT", fn, me, env, subject, interp_kwargs=IK)
            except Raised as ex:
                got = f"<raises {ex}>"
            if got is not (not a_):
                bad.append(f"not {a_}: {got!r}")
        if not bad:
            r.ok("C13.R5", f.qual, f"not condition.{fn} (for a condition that answers alike for every name)", f.loc)
        else:
            r.violation("C13.R5", f.qual, f"ConditionNOT.{fn}: {bad[0]}", f"NOT node must return the negation of its operand's {fn}()", f.loc)
    # YAML key tables: ProcessingItem.from_dict interpreted (sa.tabulate, ClassProxy) on a definition in which every key holds a
    # value that names the key; the condition parsers and the linking lookup are recorders
    from ..tabulate import ClassProxy as _CPy, call_method as _cmy, Raised as _Ry
    b = prog.func(PIPE + ".ProcessingItemBase._base_args_from_dict")
    fd = prog.func(PIPE + ".ProcessingItem.from_dict")
    groups = {"rule": "rule_conditions", "detection_item": "detection_item_conditions", "field_name": "field_name_conditions"}
    doc = {"id": "<id>", "type": "<type>"}
    for g_ in groups:
        doc.update({f"{g_}_conditions": [f"<{g_}_conditions>"], f"{g_}_cond_expr": f"<{g_}_cond_expr>", f"{g_}_cond_op": f"<{g_}_cond_op>", f"{g_}_cond_not": f"<{g_}_cond_not>"})
    built_y: dict = {}
    envy = {"rule_conditions": "MAPPING:rule", "detection_item_conditions": "MAPPING:detection_item", "field_name_conditions": "MAPPING:field_name",
            "parse_condition_expression": lambda t_: ("expression of", t_), "cast": lambda t_, v_: v_, "transformations": "TRANSFORMATIONS"}
    overrides_y = {"_parse_conditions": lambda mapping, defs: ("conditions", mapping, tuple(defs) if isinstance(defs, list) else defs),
                   "_parse_condition_linking": lambda d_, key_=None: ("linking of", d_.get(key_) if isinstance(d_, dict) else d_),
                   "_instantiate_transformation": lambda *a_, **k_: "TRANSFORMATION"}
    klass_y = _CPy(prog, PIPE + ".ProcessingItem", envy, ctor=lambda *a_, **k_: (built_y.update(k_), "ITEM")[1], interp_kwargs={"max_steps": 8000}, overrides=overrides_y)
    try:
        _cmy(prog, PIPE + ".ProcessingItem", "from_dict", klass_y, envy, dict(doc), interp_kwargs={"max_steps": 8000})
        raised_y = None
    except _Ry as ex:
        raised_y = str(ex)
    want_y = {"identifier": "<id>"}
    for g_ in groups:
        want_y[f"{g_}_conditions"] = ("conditions", f"MAPPING:{g_}", (f"<{g_}_conditions>",))
        want_y[f"{g_}_condition_expression"] = ("expression of", f"<{g_}_cond_expr>")
        want_y[f"{g_}_condition_linking"] = ("linking of", f"<{g_}_cond_op>")
        want_y[f"{g_}_condition_negation"] = f"<{g_}_cond_not>"
    for attr, wv in want_y.items():
        f = b if attr.startswith("rule_") or attr == "identifier" else fd
        key = {"identifier": "id"}.get(attr, attr.replace("_condition_expression", "_cond_expr").replace("_condition_linking", "_cond_op").replace("_condition_negation", "_cond_not"))
        got_v = built_y.get(attr, "<not passed to the constructor>") if raised_y is None else f"<raises {raised_y}>"
        if got_v == wv:
            r.ok("C13.R5", f.qual, f"{attr} ← d[{key!r}]", f.loc)
        else:
            r.violation("C13.R5", f.qual, f"{attr} ← {got_v!r}", f"attribute {attr} must be fed from the document key {key!r} of its own condition group (found {got_v!r})", f.loc)
    # an absent expression stays absent (None), it is not parsed
    built_y.clear()
    try:
        _cmy(prog, PIPE + ".ProcessingItem", "from_dict", klass_y, envy, {"id": "x", "type": "t"}, interp_kwargs={"max_steps": 8000})
        absent = {k_: built_y.get(k_, "<missing>") for k_ in built_y if k_.endswith("_condition_expression")}
    except _Ry as ex:
        absent = {"<raises>": str(ex)}
    if absent and all(v_ is None for v_ in absent.values()):
        r.ok("C13.R5", fd.qual, "without the *_cond_expr keys the three expressions are None", fd.loc)
    else:
        r.violation("C13.R5", fd.qual, f"expressions of a definition without *_cond_expr: {absent}", "an absent condition expression must stay None (linking then defaults to all)", fd.loc)
    pl = prog.func(PIPE + ".ProcessingItemBase._parse_condition_linking")
    tabs = [d for d in walk_no_nested(pl.node) if isinstance(d, ast.Dict)]
    if tabs and {unparse(k): unparse(v) for k, v in zip(tabs[0].keys, tabs[0].values)} == {"'or'": "any", "'and'": "all", "None": "None"}:
        r.ok("C13.R5", pl.qual, "{'or': any, 'and': all, None: None}", pl.loc)
    else:
        r.violation("C13.R5", pl.qual, unparse(tabs[0]) if tabs else "linking table", "linking table must map 'or'→any, 'and'→all, absent→None", pl.loc)
    ck = prog.func(PIPE + ".ProcessingItemBase._check_conditions")
    # _check_conditions interpreted (sa.tabulate, Proxy) over (expression given?, linking given?, conditions as list / dict / other)

    class SigmaTypeError(Exception):
        def __init__(self, *a, **k): super().__init__(*a)

    class _K:
        pass

    envc = {"SigmaPipelineConditionError": SigmaPipelineConditionError, "SigmaTypeError": SigmaTypeError}
    IKc = {"behaviours": (SigmaPipelineConditionError, SigmaTypeError), "max_steps": 4000}
    PB = PIPE + ".ProcessingItemBase"
    k1, k2 = _K(), _K()
    cases = [
        ("no expression, no linking, list", None, None, [k1, k2], (all, [k1, k2], None)),
        ("no expression, linking any, list", None, any, [k1], (any, [k1], None)),
        ("no expression, no linking, mapping", None, None, {"a": k1, "b": k2}, (all, [k1, k2], None)),
        ("no expression, no linking, no conditions", None, None, [], (all, [], None)),
        ("expression, no linking, mapping", "a and b", None, {"a": k1, "b": k2}, (None, {"a": k1, "b": k2}, None)),
        ("expression and linking", "a", all, {"a": k1}, (None, None, "SigmaPipelineConditionError")),
        ("expression, conditions as list", "a", None, [k1], (None, None, "SigmaPipelineConditionError")),
        ("conditions of another type", None, None, "text", (None, None, "SigmaTypeError")),
        ("a condition of another class", None, None, [k1, object()], (None, None, "SigmaTypeError")),
    ]
    badc = []
    for what, expr, linking, conds, (want_l, want_c, want_err) in cases:
        me = Proxy(prog, PB, envc, {"e": expr, "l": linking, "c": conds}, interp_kwargs=IKc)
        try:
            call_method(prog, PB, "_check_conditions", me, envc, "e", "l", "c", _K, "Test condition", interp_kwargs=IKc)
            err = None
        except Raised as ex:
            err = str(ex)
        if want_err is not None:
            if err is None or want_err not in err:
                badc.append(f"{what}: {'no error' if err is None else err} instead of {want_err}")
            continue
        a = me.attrs()
        if err is not None:
            badc.append(f"{what}: raises {err}")
        elif a.get("l") is not want_l:
            badc.append(f"{what}: linking becomes {getattr(a.get('l'), '__name__', a.get('l'))!r} instead of {getattr(want_l, '__name__', want_l)!r}")
        elif a.get("c") != want_c:
            badc.append(f"{what}: conditions become {a.get('c')!r}")
    if not badc:
        r.ok("C13.R5", ck.qual, f"linking defaults to all only without expression and without explicit linking; mappings become lists without expression; expression excludes linking and needs a mapping; wrong types are refused ({len(cases)} interpreted cases)", ck.loc)
    else:
        r.violation("C13.R5", ck.qual, f"self.__setattr__(linking_attr, all): {badc[0]}", "default linking must be `all`, set only when no expression and no linking is configured (and the other normalisations/refusals of the condition group must stay)", ck.loc)
    triples = {("rule_condition_expression", "rule_condition_linking", "rule_conditions"): PIPE + ".ProcessingItemBase.__post_init__",
               ("detection_item_condition_expression", "detection_item_condition_linking", "detection_item_conditions"): PIPE + ".ProcessingItem.__post_init__",
               ("field_name_condition_expression", "field_name_condition_linking", "field_name_conditions"): PIPE + ".ProcessingItem.__post_init__"}
    for tr, fn in triples.items():
        f = prog.func(fn)
        okc = any(isinstance(c, ast.Call) and call_name(c) == "self._check_conditions" and tuple(const_eval(prog, f.module, a) for a in c.args[:3]) == tr for c in walk_no_nested(f.node))
        if okc:
            r.ok("C13.R5", f.qual, f"_check_conditions{tr}", f.loc)
        else:
            r.violation("C13.R5", f.qual, f"self._check_conditions{tr}", "condition group not normalised with its own expression/linking/conditions attributes", f.loc)
    r.floor("C13.R5", 28)


def _doc_keys(f: FuncInfo, v: ast.AST) -> set[str]:
    """Document keys (d.get('k') / d['k'] / helper(d, 'k')) an expression depends on, following locals."""
    keys: set[str] = set()
    seen: set[str] = set()

    def rec(e: ast.AST) -> None:
        for n in ast.walk(e):
            if isinstance(n, ast.Call) and call_name(n) == "d.get" and n.args and isinstance(n.args[0], ast.Constant):
                keys.add(n.args[0].value)
            elif isinstance(n, ast.Subscript) and unparse(n.value) == "d" and isinstance(n.slice, ast.Constant):
                keys.add(n.slice.value)
            elif isinstance(n, ast.Call) and call_name(n).endswith("_parse_condition_linking") and len(n.args) == 2 and isinstance(n.args[1], ast.Constant):
                keys.add(n.args[1].value)
            elif isinstance(n, ast.Name) and n.id not in seen and n.id not in ("d", "cls", "self"):
                seen.add(n.id)
                for dv in assignments_to(f.node, n.id):
                    if isinstance(dv, ast.AST) and not isinstance(dv, ast.stmt):
                        rec(dv)
    rec(v)
    return keys


# ------------------------------------------------------------------------------------------ R6
def r6_tracking(ctx) -> None:
    r, prog = ctx.r, ctx.prog
    r.rule("C13.R6", "objects that replace a detection item inherit its applied-item tracking and every replacement is marked as applied")
    n = 0
    for q, f in sorted(prog.funcs.items()):
        if not f.module.name.startswith("sigma.processing"):
            continue
        for c in (x for x in walk_no_nested(f.node) if isinstance(x, ast.Call) and call_name(x) in ("dataclasses.replace", "replace")):
            types = ctx.types.class_names(f.module, c.args[0]) if c.args else []
            if "sigma.rule.detection.SigmaDetectionItem" in types:
                n += 1
                loc = f"{f.module.relpath}:{c.lineno}"
                stores_t = [x for x in walk_no_nested(f.node) if isinstance(x, ast.Assign) and isinstance(x.targets[0], ast.Attribute) and x.targets[0].attr == "applied_processing_items"]
                copied = bool(stores_t)
                fresh = all(isinstance(x.value, ast.Call) and (call_name(x.value).endswith(".copy") or call_name(x.value) in ("set", "copy.copy", "copy.deepcopy")) for x in stores_t)
                if copied and not fresh:
                    r.violation("C13.R6", q, stmt_head(stores_t[0]), "the replacement items receive the original item's tracking set itself, not a copy: all siblings of a one-to-many mapping share one set, so a processing item applied to one of them is recorded on all and a processing_item_applied condition fires on items that were never processed", f"{f.module.relpath}:{stores_t[0].lineno}")
                elif copied:
                    r.ok("C13.R6", q, "dataclasses.replace(...) followed by a copy of applied_processing_items", loc)
                else:
                    r.violation("C13.R6", q, short(c, 100),
                                "dataclasses.replace re-runs __init__/__post_init__: the init=False field applied_processing_items starts empty, so items applied to the original "
                                "detection item are forgotten and a later item conditioned on processing_item_applied no longer sees them", loc)
    from .standins import apply_detection_outcomes, DIT_BASE
    seen = set()
    for cq in sorted(prog.subclasses(DIT_BASE)):
        m = prog.lookup_method(cq, "apply_detection")
        if m is None:
            continue
        key = (m.qual, tuple(q for q in prog.mro(cq) if (ci := prog.classes.get(q)) is not None and "apply_detection" in ci.methods))
        if key in seen:
            continue
        seen.add(key)
        m, outs = apply_detection_outcomes(ctx, cq)
        bad = None
        for o in outs:
            for nm, i in o.items.items():
                if i.result is not None and not i.stored and not (i.now is None or type(i.now).__name__ == "DeleteSigmaDetectionItem"):
                    bad = f"the replacement apply_detection_item returned for {nm} is not stored in the detection ({o.mode})"
                elif i.result is not None and not i.marked:
                    bad = f"the replacement of {nm} is not marked with processing_item_applied ({o.mode}, marked: {o.marked})"
                elif i.result is None and i.now is not None and getattr(i.now, "name", None) in o.marked and o.mode == "none":
                    bad = f"{nm} is marked as processed although apply_detection_item replaced nothing"
            if bad:
                break
        if bad:
            r.violation("C13.R6", m.qual, "detection.detection_items[i] = r; self.processing_item_applied(r)", f"a replacement is not marked as applied by this processing item: {bad}", m.loc)
        else:
            n += 1
            r.ok("C13.R6", m.qual, f"interpreted for {cq.rsplit('.', 1)[-1]}: each replacement is stored in place of the item and marked with processing_item_applied; nothing is marked when nothing was replaced", m.loc)
    r.floor("C13.R6", 4)


def r9_no_dunder_comparisons(ctx) -> None:
    r, prog = ctx.r, ctx.prog
    r.rule("C13.R9", "conditions compare through operators or the operator module, never by calling a comparison dunder on the value: int.__eq__(5.0) is NotImplemented, which is truthy, so such a condition holds for every operator and value")
    dunders = {"__eq__", "__ne__", "__lt__", "__le__", "__gt__", "__ge__"}
    n = 0
    for f in prog.functions_in("sigma.processing.conditions", "sigma.processing.pipeline"):
        for c in walk_no_nested(f.node):
            if not isinstance(c, ast.Call):
                continue
            loc = f"{f.module.relpath}:{c.lineno}"
            if isinstance(c.func, ast.Attribute) and c.func.attr in dunders and not unparse(c.func.value).startswith("super()"):
                n += 1
                r.violation("C13.R9", f.qual, short(c, 80), "comparison dunder called directly on a value", loc)
            elif isinstance(c.func, ast.Call) and call_name(c.func) == "getattr" and len(c.func.args) >= 2:
                tgt, name = c.func.args[0], c.func.args[1]
                names = set()
                if isinstance(name, ast.Constant):
                    names = {name.value}
                elif isinstance(name, ast.Subscript):
                    owner = f.cls.qual if f.cls else None
                    attr = name.value.attr if isinstance(name.value, ast.Attribute) else None
                    a = prog.lookup_class_attr(owner, attr) if owner and attr else None
                    if a is not None and isinstance(getattr(a[1], "value", None), ast.Dict):
                        names = {v.value for v in a[1].value.values if isinstance(v, ast.Constant)}
                if names & dunders:
                    n += 1
                    if unparse(tgt) == "operator":
                        r.ok("C13.R9", f.qual, f"{short(c, 70)}: operator-module function (handles NotImplemented by reflection)", loc)
                    else:
                        r.violation("C13.R9", f.qual, short(c, 90), f"the comparison method {sorted(names & dunders)[0]}… is looked up on the value {unparse(tgt)} and called directly: for operands of different numeric types it returns NotImplemented (truthy) — the condition is true whatever the operator and the value", loc)
    r.floor("C13.R9", 1)


def r8_state_conditions(ctx) -> None:
    from ..tabulate import Interp, Raised
    r, prog = ctx.r, ctx.prog
    r.rule("C13.R8", "processing-state conditions: match_state, tabulated over key unset / set to falsy and truthy values x every operator — False only for an unset key, otherwise the comparison the operator names")
    f = prog.func("sigma.processing.conditions.state.ProcessingStateConditionBase.match_state")
    import operator
    ops = {"eq": operator.eq, "ne": operator.ne, "gte": operator.ge, "gt": operator.gt, "lte": operator.le, "lt": operator.lt}

    class _Pipe:
        def __init__(self, state):
            self.state = state

    class _Self:
        def __init__(self, key, val, op):
            self.key, self.val, self.op = key, val, op

    wrong = []
    n = 0
    for state in ({}, {"k": 0}, {"k": 1}, {"k": 5}):
        for val in (0, 1):
            for op in ops:
                it = Interp({"self": _Self("k", val, op), "processing_pipeline": _Pipe(state), "SigmaConfigurationError": lambda *a, **k: "SigmaConfigurationError"})
                try:
                    got = it.call(f.node.body)
                except Raised as e:
                    got = f"<raises {e}>"
                want = False if "k" not in state else bool(ops[op](state["k"], val))
                n += 1
                if got != want:
                    wrong.append(f"state={state} val={val} op={op}: {got} instead of {want}")
    for state, val in (({"k": False}, False), ({"k": ""}, ""), ({"k": "x"}, "x")):
        for op in ("eq", "ne"):
            it = Interp({"self": _Self("k", val, op), "processing_pipeline": _Pipe(state), "SigmaConfigurationError": lambda *a, **k: "SigmaConfigurationError"})
            try:
                got = it.call(f.node.body)
            except Raised as e:
                got = f"<raises {e}>"
            want = bool(ops[op](state["k"], val))
            n += 1
            if got != want:
                wrong.append(f"state={state} val={val!r} op={op}: {got} instead of {want}")
    if wrong:
        r.violation("C13.R8", f.qual, f"state condition table: {wrong[0]}", f"{len(wrong)} of {n} tabulated cases deviate: a state value of 0, false or '' set by an earlier item is a set value, not an unset key — items gated on it would never (or always) act", f.loc)
    else:
        r.ok("C13.R8", f.qual, f"{n} cases (unset/falsy/truthy state x 6 operators): unset → False, set → the named comparison", f.loc)
    # every state condition delegates to it with the pipeline it belongs to
    users = 0
    for q, g in sorted(prog.funcs.items()):
        if g.module.name == "sigma.processing.conditions.state" and g.name in ("match", "match_field_name", "match_detection_item", "match_value") and g.cls is not None and prog.is_subclass(g.cls.qual, "sigma.processing.conditions.state.ProcessingStateConditionBase"):
            users += 1
            if any(isinstance(c, ast.Call) and call_name(c) == "self.match_state" for c in walk_no_nested(g.node)):
                r.ok("C13.R8", q, "delegates to match_state", g.loc)
            else:
                r.violation("C13.R8", q, "self.match_state(...)", "state condition does not evaluate the pipeline state", g.loc)
    r.floor("C13.R8", 3)


# ------------------------------------------------------------------------------------------ R7
def r7_walkers(ctx, rid: str = "C13.R7", scope=("sigma.processing", "sigma.validators")) -> None:
    r, prog = ctx.r, ctx.prog
    r.rule(rid, "every loop or comprehension over <detection>.detection_items recurses into nested detections (a SigmaDetection may contain SigmaDetections)")
    for q, f in sorted(prog.funcs.items()):
        if not f.module.name.startswith(tuple(scope)):
            continue
        for n in walk_no_nested(f.node):
            its = []
            if isinstance(n, ast.For):
                its = [(n.iter, n)]
            elif isinstance(n, (ast.ListComp, ast.SetComp, ast.GeneratorExp, ast.DictComp)):
                its = [(g.iter, n) for g in n.generators]
            for it, node in its:
                t = unparse(it)
                if not (t.endswith(".detection_items") or t.endswith(".detection_items)")):
                    continue
                loc = f"{f.module.relpath}:{node.lineno}"
                rec = [c for c in ast.walk(node) if isinstance(c, ast.Call) and call_name(c) in (f"self.{f.name}", f.name, f"cls.{f.name}")]
                if not rec and f.cls is not None:
                    # mutual recursion: the loop calls a method of the same class that (transitively) calls this function again
                    def reaches(mname: str, depth: int, seen: set) -> bool:
                        if mname in seen or depth > 3:
                            return False
                        seen.add(mname)
                        impls = [m_ for cq_ in prog.subclasses(f.cls.qual) + list(prog.mro(f.cls.qual)) if (ci_ := prog.classes.get(cq_)) is not None and (m_ := ci_.methods.get(mname)) is not None]
                        if not impls:
                            return False
                        for m_ in impls:  # every implementation the call can reach has to come back
                            if any(d_.split(".")[-1] == "abstractmethod" for d_ in m_.decorators) or all(
                                    isinstance(b_, ast.Pass) or (isinstance(b_, ast.Expr) and isinstance(b_.value, ast.Constant)) or (isinstance(b_, ast.Raise) and "NotImplementedError" in unparse(b_))
                                    for b_ in m_.node.body):
                                continue  # an abstract declaration: nothing runs there
                            names = {call_name(c_) for c_ in ast.walk(m_.node) if isinstance(c_, ast.Call)}
                            if f"self.{f.name}" in names or f"cls.{f.name}" in names:
                                continue
                            if f"super().{mname}" in names:
                                continue  # an override that extends the base implementation, which is examined as well
                            if not any(nm.startswith("self.") and reaches(nm[5:], depth + 1, set(seen)) for nm in names if nm.count(".") == 1):
                                return False
                        return True
                    rec = [c for c in ast.walk(node) if isinstance(c, ast.Call) and call_name(c).startswith("self.") and call_name(c).count(".") == 1 and reaches(call_name(c)[5:], 0, set())]
                filt = any("isinstance" in unparse(i) and "SigmaDetectionItem" in unparse(i) for g in getattr(node, "generators", []) for i in g.ifs)
                # a comprehension that hands the elements on as they are and only leaves out instances of a class that no nested
                # detection is an instance of (the marker of deleted items) does nothing to any element: it is no walk
                pure_selection = False
                if isinstance(node, (ast.ListComp, ast.GeneratorExp)) and len(node.generators) == 1 and isinstance(node.generators[0].target, ast.Name) \
                        and isinstance(node.elt, ast.Name) and node.elt.id == node.generators[0].target.id and node.generators[0].ifs:
                    det_mro = set(prog.mro("sigma.rule.detection.SigmaDetection"))
                    def leaves_nested(cond: ast.AST) -> bool:
                        if not (isinstance(cond, ast.UnaryOp) and isinstance(cond.op, ast.Not) and isinstance(cond.operand, ast.Call) and call_name(cond.operand) == "isinstance" and len(cond.operand.args) == 2):
                            return False
                        a0, a1 = cond.operand.args
                        cq_ = prog.resolve_expr(f.module, a1)
                        return isinstance(a0, ast.Name) and a0.id == node.elt.id and cq_ in prog.classes and cq_ not in det_mro
                    pure_selection = all(leaves_nested(c_) for c_ in node.generators[0].ifs)
                if pure_selection:
                    r.ok(rid, q, f"{short(node, 90)}: a selection that keeps every nested detection and changes no element", loc)
                elif rec and not filt:
                    r.ok(rid, q, f"walk over {t} recurses through {f.name}(...)", loc)
                else:
                    r.violation(rid, q, stmt_head(node, 140) if isinstance(node, ast.stmt) else short(node, 140),
                                "this walk over detection_items does not recurse into nested SigmaDetection objects: items at nesting depth ≥ 2 (lists of maps, results of one-to-many mappings) are invisible to it", loc)
    r.floor(rid, 5)


def r10_field_name_tracking(ctx) -> None:
    """processing_item_applied as a field-name condition reads the per-name tracking of the pipeline: every place that maps
    a field name has to record it there, and the history of a name must still be there when the name is met again."""
    r, prog = ctx.r, ctx.prog
    r.rule("C13.R10", "field-name tracking: every routine of the field mapping base class that replaces a field name (field list / field references / correlation fields via _apply_field_name, the detection item's own field in apply_detection_item) records the mapping with track_field_processing_items under the same gate; recording a mapping does not delete the history of the source name, which can occur again elsewhere in the rule")
    TBQ = "sigma.processing.transformations.base.FieldMappingTransformationBase"
    for mn, store in (("_apply_field_name", None), ("apply_detection_item", "detection_item.field")):
        f = prog.func(f"{TBQ}.{mn}")
        calls = [c for c in walk_no_nested(f.node) if isinstance(c, ast.Call) and call_name(c) == "self._pipeline.track_field_processing_items"]
        if not calls:
            r.violation("C13.R10", f.qual, "self._pipeline.track_field_processing_items(...)",
                        "a field name is replaced here without being recorded in the pipeline's field-name tracking: a following item whose field name condition is processing_item_applied(<this item>) is never applied to the renamed field (for a detection item's own field: `renamed=\"x\"` stays unprefixed while the same name in the field list is prefixed)", f.loc)
            continue
        gs = atomic_guards(guards_at(prog, f, calls[0]))
        gated = any("match_field_name(field)" in g and p for g, p in gs) or any("self.processing_item is None" in g for g, p in gs)
        if gated:
            r.ok("C13.R10", f.qual, "mapping recorded with track_field_processing_items under the field name gate", f"{f.module.relpath}:{calls[0].lineno}")
        else:
            r.violation("C13.R10", f.qual, short(calls[0], 100), f"the mapping is recorded outside the field name gate ({gs}): names the item did not process are marked as processed", f"{f.module.relpath}:{calls[0].lineno}")
    t = prog.func("sigma.processing.pipeline.ProcessingPipeline.track_field_processing_items")
    dels = [d for d in walk_no_nested(t.node) if isinstance(d, ast.Delete) and "field_name_applied_ids" in unparse(d)]
    if dels:
        r.violation("C13.R10", t.qual, unparse(dels[0]),
                    "the tracking set of the source name is deleted when a mapping is recorded: the same name met again later in the rule (the field list is mapped before the detection items) has lost its history, so a processing_item_applied field name condition holds for one occurrence and not for the other", f"{t.module.relpath}:{dels[0].lineno}")
    else:
        r.ok("C13.R10", t.qual, "the history of the source name is kept", t.loc)
    r.floor("C13.R10", 3)


def r11_negation_per_name(ctx) -> None:
    """A detection item has several field names (its field, referenced fields). The item-level form of a field name
    condition is 'holds for any of them'; negating *that* gives 'holds for none', which is not 'the negated condition
    holds for one of them' — the per-name gates (match_field_name / match_field_in_value) negate per name."""
    r, prog = ctx.r, ctx.prog
    r.rule("C13.R11", "negation of field name conditions is applied per field name: no `not` is applied to the any-name result of match_detection_item (ProcessingItem.match_detection_item's negation flag, ConditionNOT.match_detection_item)")
    # both interpreted (sa.tabulate, Proxy) on a detection item `keep|fieldref: other` with the field name condition
    # "name is keep", negated: the negated condition holds for the name `other`, so the item-level gate must let it pass
    import types as _types
    from ..tabulate import Proxy, call_method, Raised
    pi = prog.func("sigma.processing.pipeline.ProcessingItem.match_detection_item")
    cond = _types.SimpleNamespace(match_detection_item=lambda item: any(nm == "keep" for nm in item.names), match_field_name=lambda nm: nm == "keep",
                                  match=lambda item: True, match_value=lambda v: getattr(v, "field", None) == "keep")
    item = _types.SimpleNamespace(field="keep", names=["keep", "other"], value=[_types.SimpleNamespace(field="other")])
    only_keep = _types.SimpleNamespace(field="keep", names=["keep"], value=[])
    PI = "sigma.processing.pipeline.ProcessingItem"
    env = {"SigmaPipelineConditionError": type("SigmaPipelineConditionError", (Exception,), {}), "any": any, "all": all}
    attrs = {"detection_item_condition_expression": None, "detection_item_condition_linking": all, "detection_item_conditions": [], "detection_item_condition_negation": False,
             "field_name_condition_expression": None, "field_name_condition_linking": any, "field_name_conditions": [cond], "field_name_condition_negation": True}
    try:
        mixed = call_method(prog, PI, "match_detection_item", Proxy(prog, PI, env, dict(attrs), interp_kwargs={"max_steps": 4000}), env, item, interp_kwargs={"max_steps": 4000})
        alone = call_method(prog, PI, "match_detection_item", Proxy(prog, PI, env, dict(attrs), interp_kwargs={"max_steps": 4000}), env, only_keep, interp_kwargs={"max_steps": 4000})
    except Raised as ex:
        raise AnalysisError(f"{pi.qual}: raises {ex} on the stand-in item")
    if alone is not False:
        r.violation("C13.R11", pi.qual, f"negated field name condition on an item whose only name satisfies the condition: {alone!r}", "the negation flag is not applied", pi.loc)
    elif mixed is True:
        r.ok("C13.R11", pi.qual, "negation applied to a per-name result (interpreted: `keep|fieldref: other` passes the negated include-list gate)", pi.loc)
    else:
        r.violation("C13.R11", pi.qual, "field_name_cond_result = not field_name_cond_result  [field_name_condition_negation]",
                    "the negation flag is applied to 'condition holds for the field OR for a referenced field': with include_fields [keep] + field_name_cond_not the item `keep|fieldref: other` is rejected by this pre-gate although the negated condition holds for `other` (the per-name gates would map it) — equivalent spellings (exclude_fields) behave differently", pi.loc)
    cn = prog.func("sigma.processing.condition_expressions.ConditionNOT.match_detection_item")
    CN = "sigma.processing.condition_expressions.ConditionNOT"
    try:
        mixed = call_method(prog, CN, "match_detection_item", Proxy(prog, CN, {}, {"condition": cond, "location": 0}, interp_kwargs={"max_steps": 2000}), {}, item, interp_kwargs={"max_steps": 2000})
        alone = call_method(prog, CN, "match_detection_item", Proxy(prog, CN, {}, {"condition": cond, "location": 0}, interp_kwargs={"max_steps": 2000}), {}, only_keep, interp_kwargs={"max_steps": 2000})
    except Raised as ex:
        raise AnalysisError(f"{cn.qual}: raises {ex} on the stand-in item")
    if alone is not False:
        r.violation("C13.R11", cn.qual, f"`not c` on an item whose only name satisfies c: {alone!r}", "the expression negation is not applied", cn.loc)
    elif mixed is True:
        r.ok("C13.R11", cn.qual, "expression negation is evaluated per field name", cn.loc)
    else:
        r.violation("C13.R11", cn.qual, "return not self.condition.match_detection_item(detection_item)",
                    "`not c` in a field name condition expression negates the any-name result of c for the whole detection item (same defect as the negation flag)", cn.loc)

    r.floor("C13.R11", 2)


def r12_field_name_condition_tables(ctx) -> None:
    """Field name conditions, interpreted (sa.tabulate; the stdlib `re` is the only library): include/exclude in both modes
    hold for exactly the names one of their patterns denotes, and the item-level form asks the per-name form about the
    item's field whatever it is — also about the missing field name (None) of a keyword item."""
    import re as _re
    from ..tabulate import Interp, Raised
    r, prog = ctx.r, ctx.prog
    r.rule("C13.R12", "field name conditions decide per name: include_fields/exclude_fields (plain and re mode, several patterns with groups and back-references) interpreted on sample names agree with 'some pattern matches'; match_detection_item_field passes the item's field — None for keyword items — to match_field_name unchanged")
    FQ = "sigma.processing.conditions.fields.IncludeFieldCondition"
    pi, mf = prog.func(FQ + ".__post_init__"), prog.func(FQ + ".match_field_name")
    err = type("SigmaConfigurationError", (Exception,), {})
    bad = []
    n = 0
    for mode, fields in (("plain", ["src_ip", "user.user"]), ("re", ["^(src|dst)_ip$", r"^(\w+)\.\1$"]), ("re", [r"^(a)(b)\2$", r"^(x)-\1$"]), ("re", ["^proc"])):
        me = type("Cond", (), {})()
        me.fields, me.mode, me.patterns = fields, mode, []
        try:
            Interp({"self": me, "re": _re, "SigmaConfigurationError": err}, max_steps=2000).call(pi.node.body)
        except Raised as ex:
            bad.append(f"mode {mode} {fields}: __post_init__ raises {ex}")
            continue
        for name in (None, "src_ip", "dst_ip", "xsrc_ip", "user.user", "user.name", "abb", "aba", "x-x", "x-y", "process", "other"):
            n += 1
            try:
                got = bool(Interp({"self": me, "field": name, "re": _re}, max_steps=2000).call(mf.node.body))
            except Raised as ex:
                bad.append(f"mode {mode} {fields}, name {name!r}: raises {ex}")
                continue
            want = False if name is None else (name in fields if mode == "plain" else any(_re.compile(p_).match(name) for p_ in fields))
            if got != want:
                bad.append(f"mode {mode} {fields}, name {name!r}: {got} instead of {want}")
    if bad:
        r.violation("C13.R12", FQ, f"include_fields table: {bad[0]}", f"{len(bad)} of {n} interpreted cases deviate: each pattern is an alternative of its own — merged into one expression its groups are renumbered, so a back-reference in a later pattern refers to a group of an earlier one and that alternative never matches", pi.loc)
    else:
        r.ok("C13.R12", FQ, f"{n} cases (plain / re, groups and back-references): holds iff one pattern denotes the name", pi.loc)
    g = prog.func("sigma.processing.conditions.base.FieldNameProcessingCondition.match_detection_item_field")
    wrong = []
    for fld, per_name in ((None, True), (None, False), ("f", True), ("f", False)):
        me = type("Cond", (), {})()
        seen = []
        me.match_field_name = lambda x, _s=seen, _v=per_name: (_s.append(x), _v)[1]
        item = type("Item", (), {"field": fld})()
        try:
            got = bool(Interp({"self": me, "detection_item": item}, max_steps=200).call(g.node.body))
        except Raised as ex:
            wrong.append(f"field {fld!r}: raises {ex}")
            continue
        if got != per_name:
            wrong.append(f"field {fld!r}, per-name answer {per_name}: item-level answer {got}")
    if wrong:
        r.violation("C13.R12", g.qual, f"item-level form: {wrong[0]}", "the detection item gate answers differently from the per-name gate for the item's own field: for a keyword item (no field name) exclude_fields and processing-state conditions hold per name but the item is rejected before, so a value transformation conditioned on them is never applied to keywords", g.loc)
    else:
        r.ok("C13.R12", g.qual, "item-level form = per-name form on the item's field, None included", g.loc)
    r.floor("C13.R12", 2)


GATE_MUTATORS = {"append", "extend", "insert", "pop", "remove", "clear", "update", "add", "discard", "setdefault", "sort", "reverse", "popitem"}


def r13_gates_keep_nothing(ctx) -> None:
    """What a gate answers depends on the conditions, on what it is asked about and on the *current* state of the pipeline
    (processing state, what was applied to this rule so far). A gate that stores something on the item or the condition can
    only do so to answer from it later — for another rule, with another state, after other items were applied."""
    r, prog = ctx.r, ctx.prog
    r.rule("C13.R13", "gates answer from the conditions and the current pipeline state only: no match method of a processing item or of a processing condition (and nothing it calls on the item/condition) stores to the item/condition or mutates one of its attributes")
    roots = []
    for q, f in prog.funcs.items():
        if f.cls is None or not f.name.startswith("match") or "self" not in f.params():
            continue
        if prog.is_subclass(f.cls.qual, "sigma.processing.pipeline.ProcessingItemBase") or prog.is_subclass(f.cls.qual, "sigma.processing.conditions.base.ProcessingCondition"):
            roots.append(q)
    if len(roots) < 10:
        raise AnalysisError(f"C13.R13: only {len(roots)} gate methods found")
    reach = ctx.cg.reachable(roots)
    n = 0
    for q in sorted(x for x in reach if x in prog.funcs):
        f = prog.funcs[q]
        if f.cls is None or "self" not in f.params() or f.name in ("__init__", "__post_init__"):
            continue
        if not (prog.is_subclass(f.cls.qual, "sigma.processing.pipeline.ProcessingItemBase") or prog.is_subclass(f.cls.qual, "sigma.processing.conditions.base.ProcessingCondition")):
            continue
        n += 1
        bad = []
        for x in walk_no_nested(f.node):
            root = None
            if isinstance(x, (ast.Attribute, ast.Subscript)) and isinstance(x.ctx, (ast.Store, ast.Del)):
                root = x
                while isinstance(root, (ast.Attribute, ast.Subscript)):
                    root = root.value
            elif isinstance(x, ast.Call) and isinstance(x.func, ast.Attribute) and x.func.attr in GATE_MUTATORS and isinstance(x.func.value, (ast.Attribute, ast.Subscript)):
                root = x.func.value
                while isinstance(root, (ast.Attribute, ast.Subscript)):
                    root = root.value
            if isinstance(root, ast.Name) and root.id == "self":
                bad.append(x)
        for b in bad:
            r.violation("C13.R13", q, short(prog.enclosing_stmt(b), 110), "a gate writes to its own item/condition: what it keeps answers a later question — for another rule, another processing state, after other items were applied to the rule", f"{f.module.relpath}:{b.lineno}")
        if not bad:
            r.ok("C13.R13", q, "no store to self, no mutating call on an attribute of self", f.loc)
    r.analysed["C13.gate_methods_checked_for_purity"] = n
    r.floor("C13.R13", 10)
