"""Stand-in values shared by the rules that interpret methods of sigma.types (sa.tabulate)."""
from __future__ import annotations


def string_standin(ctx):
    """A SigmaString stand-in for interpreting its methods (sa.tabulate): parts list `s`, concatenation, placeholder test;
    every other method (helpers a refactoring introduces, the recursion) resolves from the source of sigma.types.SigmaString."""
    import re as _re
    from ..tabulate import _class_attr
    prog = ctx.prog

    class Placeholder:
        def __init__(self, name): self.name = name
        def __repr__(self): return f"%{self.name}%"

    class SpecialChars:
        def __init__(self, n): self.n = n
        def __repr__(self): return f"<{self.n}>"

    SpecialChars.WILDCARD_MULTI, SpecialChars.WILDCARD_SINGLE = SpecialChars("*"), SpecialChars("?")
    sc = SpecialChars
    env = {"re": _re, "Placeholder": Placeholder, "SpecialChars": sc, "cast": lambda t, v: v, "escape_char": "\\",
           "char_mapping": {"*": sc.WILDCARD_MULTI, "?": sc.WILDCARD_SINGLE}, "special_char_mapping": {sc.WILDCARD_MULTI: "*", sc.WILDCARD_SINGLE: "?"}}
    kw = {"max_steps": 20000}

    class Str:
        def __init__(self, parts=()):
            self.s = list(parts)
            self.original = "stale%zzz%"

        def contains_placeholder(self, *a, **k):
            return any(isinstance(x, Placeholder) for x in self.s)

        def __add__(self, o):
            n = type(self)()
            n.s = self.s + (list(o.s) if isinstance(o, Str) else [o])
            return n

        def __radd__(self, o):
            n = type(self)()
            n.s = [o] + self.s
            return n

        def __getattr__(self, name):
            if name.startswith("__"):
                raise AttributeError(name)
            return _class_attr(prog, "sigma.types.SigmaString", env, kw, name, type(self), self)

        def call(self, name, *a, **k):
            """a method of SigmaString by name (also the special ones) interpreted on this stand-in"""
            return _class_attr(prog, "sigma.types.SigmaString", env, kw, name, type(self), self)(*a, **k)

    class CasedStr(Str):
        pass

    env["SigmaString"] = Str
    return Str, CasedStr, Placeholder, sc, env
