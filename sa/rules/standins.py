"""Stand-in values shared by the rules that interpret methods of sigma.types (sa.tabulate)."""
from __future__ import annotations

import ast
import types


def string_standin(ctx):
    """A SigmaString stand-in for interpreting its methods (sa.tabulate): parts list `s`, concatenation, placeholder test;
    every other method (helpers a refactoring introduces, the recursion) resolves from the source of sigma.types.SigmaString."""
    import re as _re
    from ..tabulate import _class_attr
    prog = ctx.prog

    class Placeholder:
        def __init__(self, name): self.name = name
        def __repr__(self): return f"%{self.name}%"

    class SpecialChars:
        def __init__(self, n): self.n = n
        def __repr__(self): return f"<{self.n}>"

    SpecialChars.WILDCARD_MULTI, SpecialChars.WILDCARD_SINGLE = SpecialChars("*"), SpecialChars("?")
    sc = SpecialChars
    env = {"re": _re, "Placeholder": Placeholder, "SpecialChars": sc, "cast": lambda t, v: v, "escape_char": "\\",
           "char_mapping": {"*": sc.WILDCARD_MULTI, "?": sc.WILDCARD_SINGLE}, "special_char_mapping": {sc.WILDCARD_MULTI: "*", sc.WILDCARD_SINGLE: "?"}}
    kw = {"max_steps": 20000}

    class _StrMeta(type):
        """class-level attributes of SigmaString that a classmethod reads through `cls` resolve from the source"""
        def __getattr__(cls, name):
            if name.startswith("__"):
                raise AttributeError(name)
            return _class_attr(prog, "sigma.types.SigmaString", env, kw, name, cls, None)

    class Str(metaclass=_StrMeta):
        def __init__(self, parts=(), escape=True):
            self.original = "stale%zzz%"
            if parts is None or isinstance(parts, str):  # text: the parser of the source decides the parts
                self.s = []
                self.call("__init__", parts, escape)
                self.original = "stale%zzz%"
            else:
                self.s = list(parts)

        def __str__(self):
            return self.call("__str__")

        def __iter__(self):
            return iter(self.call("__iter__"))

        def __len__(self):
            return self.call("__len__")

        def contains_placeholder(self, *a, **k):
            return any(isinstance(x, Placeholder) for x in self.s)

        def __add__(self, o):
            n = type(self)()
            n.s = self.s + (list(o.s) if isinstance(o, Str) else [o])
            return n

        def __radd__(self, o):
            n = type(self)()
            n.s = [o] + self.s
            return n

        def __getattr__(self, name):
            if name.startswith("__"):
                raise AttributeError(name)
            return _class_attr(prog, "sigma.types.SigmaString", env, kw, name, type(self), self)

        def call(self, name, *a, **k):
            """a method of SigmaString by name (also the special ones) interpreted on this stand-in"""
            return _class_attr(prog, "sigma.types.SigmaString", env, kw, name, type(self), self)(*a, **k)

    class CasedStr(Str):
        pass

    env["SigmaString"] = Str
    return Str, CasedStr, Placeholder, sc, env


class StandinSigmaError(Exception):
    pass


StandinSigmaError.__name__ = "SigmaError"


def converter_env():
    """Names of sigma.conversion.base that the per-rule converters (and the helpers a refactoring gives them) refer to."""
    import types as _types
    SigmaError = StandinSigmaError

    class SigmaConversionError(SigmaError):
        def __init__(self, *a, **k): super().__init__(*[str(x) for x in a])

    class SigmaExtendedCorrelationCondition:
        pass

    class _Type:
        def __init__(self, n): self.n = n
        def __repr__(self): return self.n

    class ConversionState:
        """as the dataclass of sigma.conversion.state: (deferred, processing_state), fresh containers by default"""
        def __init__(self, deferred=None, processing_state=None):
            self.deferred = [] if deferred is None else deferred
            self.processing_state = {} if processing_state is None else processing_state

    names = ("EVENT_COUNT", "VALUE_COUNT", "VALUE_SUM", "VALUE_AVG", "VALUE_PERCENTILE", "VALUE_MEDIAN", "TEMPORAL", "TEMPORAL_ORDERED")
    SigmaCorrelationType = _types.SimpleNamespace(**{n_: _Type(n_) for n_ in names})
    return {"SigmaError": SigmaError, "SigmaConversionError": SigmaConversionError, "SigmaCorrelationType": SigmaCorrelationType,
            "SigmaExtendedCorrelationCondition": SigmaExtendedCorrelationCondition, "ConversionState": ConversionState, "NotImplementedError": NotImplementedError, "Exception": Exception}


def run_per_rule_converter(ctx, fn: str, fin_sub: bool = False, referenced: bool = False, output: bool = True, fail_at: str | None = None,
                           collect: bool = False, me=None, fail_with: BaseException | None = None, keep_pipeline: bool = False, output_format: str | None = None,
                           rule_type: str = "EVENT_COUNT", extended_condition: bool = False, convert_fn=None):
    """Backend.convert_rule / convert_correlation_rule interpreted (sa.tabulate, Proxy) on a stand-in rule with two queries.
    fail_at ∈ {None, 'pipeline', 'convert', 'finish', 'finalize'} makes that stage raise a (stand-in) SigmaError.
    Returns a namespace: ret, raised, stored, finalised_calls, errors, rule, me, error (the injected error object)."""
    import types as _types
    from ..tabulate import Proxy, call_method, Raised
    from ..prog import AnalysisError
    prog = ctx.prog
    B = "sigma.conversion.base.Backend"
    SigmaError = StandinSigmaError
    env = converter_env() if me is None else object.__getattribute__(object.__getattribute__(me, "_k"), "_p")[2]
    SigmaCorrelationType = env.get("SigmaCorrelationType") or converter_env()["SigmaCorrelationType"]
    error = fail_with if fail_with is not None else SigmaError("injected failure")
    stored: list = []
    finalised_calls: list = []

    trace: list = []

    def stage(name, value):
        trace.append(name)
        if fail_at == name:
            raise error
        return value

    class _Detection:
        @property
        def parsed_condition(self):
            trace.append("read conditions")
            return conds

    conds = [_types.SimpleNamespace(parsed="c0"), _types.SimpleNamespace(parsed="c1")]
    class _Rule(_types.SimpleNamespace):
        """rules compare by content (dataclasses): two stand-in rules are equal"""
        def __eq__(self, o): return isinstance(o, _types.SimpleNamespace) and getattr(o, "title", None) == self.title
        def __hash__(self): return 1

    rule = _Rule(_backreferences=[object()] if referenced else [], _output=output, source=None, generate=True, errors=[], rules=[], type=getattr(SigmaCorrelationType, rule_type), condition=(env["SigmaExtendedCorrelationCondition"]() if extended_condition else None), title="t",
                                  detection=_Detection(),
                                  set_conversion_result=lambda q: stored.append(list(q)), set_conversion_states=lambda st: None,
                                  get_conversion_result=lambda: list(stored[-1]), get_conversion_states=lambda: [])

    def finalize_query(rule_, query, index, state, fmt):
        finalised_calls.append(query)
        return stage("finalize", f"FINAL({query})")

    pipeline = _types.SimpleNamespace(apply=lambda rule_: stage("pipeline", None), state={"set by the pipeline": 1})
    corr = lambda rule_, fmt, method: stage("convert", ["c0", "c1"])  # noqa: E731
    # with the pipeline initialisation of the source in play, a missing attribute of the backend (no pipeline yet) is a behaviour
    IK = {"behaviours": (SigmaError,) + ((type(fail_with),) if fail_with is not None else ()) + ((AttributeError, KeyError) if keep_pipeline else ()), "max_steps": 8000}
    me_given = me
    if me is None:
        attrs = {"last_processing_pipeline_format": "default", "default_format": "default", "collect_errors": collect, "errors": [],
                 "correlation_methods": {"default": "d"}, "default_correlation_method": "default", "name": "b", "init_processing_pipeline": lambda fmt=None: None}
        me = Proxy(prog, B, env, attrs, interp_kwargs=IK)
    if not keep_pipeline:
        me.last_processing_pipeline = pipeline
    me.finalize_correlation_subqueries = fin_sub
    me.convert_condition = (lambda c, st: stage("convert", convert_fn(c, st))) if convert_fn is not None else (lambda c, st: stage("convert", c))
    me.finish_query = lambda rule_, q, st: stage("finish", f"fin({q})")
    me.finalize_query = finalize_query
    def mk_corr(name):
        def fn_(rule_, fmt, method):
            trace.append(f"dispatch:{name}")
            return corr(rule_, fmt, method)
        return fn_
    for cm in ("event_count", "value_count", "value_sum", "value_avg", "value_percentile", "value_median", "temporal", "temporal_ordered", "extended_temporal", "extended_temporal_ordered"):
        setattr(me, f"convert_correlation_{cm}_rule", mk_corr(f"convert_correlation_{cm}_rule"))
    out = _types.SimpleNamespace(ret=None, raised=None, stored=stored, finalised_calls=finalised_calls, rule=rule, me=me, error=error, errors=None, trace=trace)
    try:
        out.ret = call_method(prog, B, fn, me, env, rule, output_format, interp_kwargs=IK) if fn == "convert_rule" else call_method(prog, B, fn, me, env, rule, output_format, None, interp_kwargs=IK)
    except Raised as ex:
        out.raised = ex
    except AnalysisError as ex:
        # a run without injected failure has shown that every name of the body has a stand-in: a name that is missing when
        # a stage fails is a local that the failing path leaves unbound (UnboundLocalError at run time)
        plain_ok = getattr(ctx, "_converter_plain_ok", {})
        if "NameError" in str(ex) and (fail_at is not None or plain_ok.get(fn)):
            out.raised = Raised(f"UnboundLocalError ({ex})")
        else:
            raise
    else:
        if fail_at is None and me_given is None and out.raised is None:
            if not hasattr(ctx, "_converter_plain_ok"):
                ctx._converter_plain_ok = {}
            ctx._converter_plain_ok[fn] = True
    out.errors = me.errors
    return out


def run_backend_convert(ctx, per_rule=None, fmt=None, reused=False):
    """Backend.convert interpreted (sa.tabulate, Proxy) on a stand-in collection of plain and correlation rules. The
    per-rule converters, pipeline initialisation, reference resolution and finalisation are recording stand-ins.
    Returns a namespace: ret, raised, trace (the calls in order), rules."""
    import types as _types
    from ..tabulate import Proxy, call_method, Raised
    prog = ctx.prog
    B = "sigma.conversion.base.Backend"

    class SigmaRule:
        def __init__(self, n):
            self.n, self._output, self.errors, self._backreferences = n, n != "r2", (["e"] if n == "empty" else []), []

    class SigmaCorrelationRule:
        def __init__(self, n):
            self.n, self._output, self.errors, self._backreferences = n, True, ["e"], []

    trace: list = []
    rules = [SigmaRule("r1"), SigmaCorrelationRule("c1"), SigmaRule("r2"), SigmaRule("empty"), SigmaRule("r1")]
    per_rule = per_rule or (lambda rule: [] if rule.n == "empty" else [f"{rule.n}-a", "same"])

    def convert_rule(rule, output_format=None, callback=None):
        trace.append(("convert_rule", rule.n, output_format))
        return per_rule(rule)

    def convert_correlation_rule(rule, output_format=None, method=None, callback=None):
        trace.append(("convert_correlation_rule", rule.n, output_format))
        return per_rule(rule)

    coll = _types.SimpleNamespace(rules=rules, resolve_rule_references=lambda: trace.append(("resolve",)))
    attrs = {"default_format": "default", "init_processing_pipeline": lambda f=None: trace.append(("init", f)), "convert_rule": convert_rule,
             "convert_correlation_rule": convert_correlation_rule, "finalize": lambda queries, f: (trace.append(("finalize", list(queries), f)), ("FINAL", list(queries)))[1]}
    if reused:  # a backend object that has converted before (another format / another user pipeline)
        attrs.update({"last_processing_pipeline": object(), "last_processing_pipeline_format": "default"})
    env = {"SigmaRule": SigmaRule, "SigmaCorrelationRule": SigmaCorrelationRule}
    IK = {"max_steps": 8000}
    me = Proxy(prog, B, env, attrs, interp_kwargs=IK)
    out = _types.SimpleNamespace(ret=None, raised=None, trace=trace, rules=rules)
    try:
        out.ret = call_method(prog, B, "convert", me, env, coll, fmt, interp_kwargs=IK)
    except Raised as ex:
        out.raised = ex
    return out


def wildcard_string_standin():
    """(S, wm, SpecialChars): a SigmaString stand-in whose elements are characters, the multi wildcard `wm` or an escaped
    literal ('\\*'); startswith/endswith answer for the wildcard *part*, str() prints the escaped plain form."""
    class _W:
        def __repr__(self): return "<*>"

    wm = _W()

    class S:
        def __init__(self, t=""):
            self.e = [wm if c == "*" else c for c in t] if isinstance(t, str) else list(t)

        @staticmethod
        def _el(o):
            return [wm] if o is wm else list(o.e) if isinstance(o, S) else [wm if c == "*" else c for c in o]

        def __add__(self, o): return S(self.e + S._el(o))
        def __radd__(self, o): return S(S._el(o) + self.e)
        def startswith(self, o): return bool(self.e) and (self.e[0] is wm if o is wm else str(self).startswith(o))
        def endswith(self, o): return bool(self.e) and (self.e[-1] is wm if o is wm else str(self).endswith(o))
        def __str__(self): return "".join("*" if x is wm else x for x in self.e)
        def __len__(self): return len(self.e)
        def __eq__(self, o): return isinstance(o, S) and len(o.e) == len(self.e) and all(a is b or (a is not wm and b is not wm and a == b) for a, b in zip(self.e, o.e))
        def __hash__(self): return len(self.e)
        def __repr__(self): return "S" + repr(self.e)

    sc = type("SpecialChars", (), {"WILDCARD_MULTI": wm})
    return S, wm, sc


def pipeline_sum_outcome(ctx):
    """ProcessingPipeline.__add__ / __radd__ interpreted (sa.tabulate, Proxy) on two stand-in pipelines with recording
    items. → namespace: built (constructor keyword arguments of the sum, or None), left/right (the operands), released
    ({'left'|'right': item names whose ownership was cleared}), none_result, bad_type, radd0, radd5, operands_changed."""
    import types as _types
    from ..tabulate import Proxy, call_method, Raised
    prog = ctx.prog
    PP = "sigma.processing.pipeline.ProcessingPipeline"
    released = {"left": [], "right": []}

    class _It:
        def __init__(self, n, side): self.n, self.side, self._pipeline = n, side, "owner"
        def _clear_pipeline(self):
            released[self.side].append(self.n)
            self._pipeline = None
        def set_pipeline(self, p): self._pipeline = p
        def __repr__(self): return self.n

    class _Fin(_It):
        def __setattr__(self, k, v):
            if k == "_pipeline" and v is None and "n" in self.__dict__:
                released[self.side].append(self.n)
            object.__setattr__(self, k, v)

    built: list = []
    env: dict = {}
    IK = {"max_steps": 6000}

    def ctor(*a, **k):
        names = ["items", "postprocessing_items", "finalizers", "vars"]
        kw = dict(zip(names, a))
        kw.update(k)
        built.append(kw)
        return Proxy(prog, PP, env, dict(kw), ctor=ctor, interp_kwargs=IK)

    def mk(side, tag, vars_):
        return Proxy(prog, PP, env, {"items": [_It(f"{tag}i1", side), _It(f"{tag}i2", side)], "postprocessing_items": [_It(f"{tag}p1", side)], "finalizers": [_Fin(f"{tag}f1", side)],
                                     "vars": dict(vars_), "state": {}, "applied": [], "applied_ids": set(), "name": tag, "priority": 0}, ctor=ctor, interp_kwargs=IK)

    left, right = mk("left", "L", {"x": 1, "y": 1}), mk("right", "R", {"y": 2, "z": 2})
    before = {side: {k: (list(v) if isinstance(v, list) else dict(v)) for k, v in p.attrs().items() if k in ("items", "postprocessing_items", "finalizers", "vars")} for side, p in (("left", left), ("right", right))}
    out = _types.SimpleNamespace(built=None, left=left, right=right, released=released, result=None, raised=None)
    try:
        out.result = call_method(prog, PP, "__add__", left, env, right, interp_kwargs=IK)
        out.built = built[-1] if built else None
    except Raised as ex:
        out.raised = ex
    after = {side: {k: (list(v) if isinstance(v, list) else dict(v)) for k, v in p.attrs().items() if k in before[side]} for side, p in (("left", left), ("right", right))}
    out.operands_changed = [f"{side}.{k}" for side in before for k in before[side] if before[side][k] != after[side].get(k)]
    lone = mk("left", "N", {})
    try:
        out.none_result = call_method(prog, PP, "__add__", lone, env, None, interp_kwargs=IK) is lone
    except Raised as ex:
        out.none_result = ex
    try:
        call_method(prog, PP, "__add__", lone, env, 5, interp_kwargs=IK)
        out.bad_type = "no error"
    except Raised as ex:
        out.bad_type = str(ex)
    try:
        out.radd0 = call_method(prog, PP, "__radd__", lone, env, 0, interp_kwargs=IK) is lone
        out.radd5 = call_method(prog, PP, "__radd__", lone, env, 5, interp_kwargs=IK)
    except Raised as ex:
        out.radd0, out.radd5 = ex, ex
    return out


class PipeStandin:
    """A processing pipeline as far as Backend uses it: '+' (None is an identity), vars, state, apply(), query post-processing."""
    log: list = []

    # priorities as a user may set them: they order what the *resolver* combines and say nothing about the fixed order
    # backend → user → output format (adverse values: sorting by them would reverse that order)
    PRIORITIES = {"backend": 50, "user": -1, "fmt-default": 10, "fmt-test": 20}

    def __init__(self, names, vars_=None):
        self.names, self.vars, self.state, self.applied_to = list(names), dict(vars_ or {}), {}, []
        self.priority = self.PRIORITIES.get(self.names[0], 0) if len(self.names) == 1 else 0
        self.name = "same"

    def __add__(self, o):
        if o is None:
            return self
        return PipeStandin(self.names + o.names, {**self.vars, **o.vars})

    def __radd__(self, o):
        return self if o in (0, None) else NotImplemented

    def apply(self, rule, *a, **k):
        PipeStandin.log.append(("apply", tuple(self.names), dict(self.vars)))
        return rule

    def postprocess_query(self, rule, query):
        return query

    def finalize(self, output):
        PipeStandin.log.append(("finalize", tuple(self.names), output))
        return ("PIPELINE-FINAL", output)


def backend_with_real_init(ctx, user_pipeline=True):
    """A Backend stand-in (Proxy) whose init_processing_pipeline is the one of the source, interpreted; pipelines are PipeStandin."""
    import types as _types
    from ..tabulate import Proxy, call_method
    prog = ctx.prog
    B = "sigma.conversion.base.Backend"
    env: dict = converter_env()
    env.setdefault("ProcessingPipeline", lambda *a, **k: PipeStandin([]))     # the empty pipeline
    IK = {"behaviours": (StandinSigmaError, KeyError), "max_steps": 8000}
    inits: list = []
    attrs = {"backend_processing_pipeline": PipeStandin(["backend"], {"from_backend": 1}), "processing_pipeline": PipeStandin(["user"], {"from_user": 1}) if user_pipeline else None,
             "output_format_processing_pipeline": {"default": PipeStandin(["fmt-default"]), "test": PipeStandin(["fmt-test"])}, "backend_options": {"opt": "val"}, "name": "bk",
             "default_format": "default", "formats": {"default": "d", "test": "t"}, "collect_errors": False, "errors": [], "correlation_methods": {"default": "d"}, "default_correlation_method": "default"}
    me = Proxy(prog, B, env, attrs, interp_kwargs=IK)

    def init(fmt=None):
        inits.append(fmt)
        return call_method(prog, B, "init_processing_pipeline", me, env, fmt, interp_kwargs=IK)
    me.init_processing_pipeline = init
    return me, env, IK, inits


def class_swap_outcome(ctx, cq: str, method: str, on_args=(True,), off_args=(False,)):
    """A context manager that swaps class attributes, interpreted (sa.tabulate, Proxy) with every template attribute of the
    class set to a distinct marker. → namespace: at_yield {name: value} (attributes that differ at the suspension point),
    restored_normal, restored_exception (exception thrown into the with-body), exception_propagates, off_changes."""
    import types as _types
    from ..tabulate import Proxy, call_method, Raised
    prog = ctx.prog
    names = set()
    for q in prog.mro(cq):
        c = prog.classes.get(q)
        if c is not None:
            for n, sts in c.assigns.items():  # the templates: class attributes holding text (or None)
                v = getattr(sts[-1], "value", None)
                if n.endswith(("_expression", "_token")) and not n.startswith("_") and (v is None or (isinstance(v, ast.Constant) and (v.value is None or isinstance(v.value, str)))):
                    names.add(n)
    orig = {n: f"orig:{n}" for n in sorted(names)}

    class _Boom(Exception):
        pass

    def run(args, boom=False):
        snap: dict = {}
        over = dict(orig)
        def hook(v):
            snap.update(over_ref())
            if boom:
                raise _Boom("thrown into the with-body")
        env = {"__on_yield__": hook, "cast": lambda t, v: v}
        IK = {"behaviours": (_Boom,), "max_steps": 8000}
        me = Proxy(prog, cq, env, {}, interp_kwargs=IK, class_overrides=over)
        k = object.__getattribute__(me, "_k")
        over_ref = lambda: dict(object.__getattribute__(k, "_p")[5])  # noqa: E731
        raised = None
        try:
            res = call_method(prog, cq, method, me, env, *args, interp_kwargs=IK)
            if hasattr(res, "__next__"):
                list(res)
        except Raised as ex:
            raised = ex
        return snap, over_ref(), raised, me.attrs()

    out = _types.SimpleNamespace()
    snap, after, raised, inst = run(on_args)
    out.at_yield = {n: v for n, v in snap.items() if orig.get(n) != v}
    out.yielded = bool(snap)
    out.restored_normal = (after == orig) and raised is None
    out.instance_attrs_written = sorted(inst)
    snap, after, raised, inst = run(on_args, boom=True)
    out.restored_exception = after == orig
    out.exception_propagates = raised is not None and "_Boom" in str(raised)
    snap, after, raised, inst = run(off_args)
    out.off_changes = {n: v for n, v in snap.items() if orig.get(n) != v} or {n: v for n, v in after.items() if orig.get(n) != v}
    out.off_yielded = bool(snap)
    out.orig = orig
    return out


# ------------------------------------------------------------------------------------------------------------------
# apply_detection of the detection item transformations, interpreted on a stand-in detection

DIT_BASE = "sigma.processing.transformations.base.DetectionItemTransformation"


def apply_detection_outcomes(ctx, cq: str):
    """``cq.apply_detection`` (looked up over the MRO in the source) interpreted (sa.tabulate, Proxy) on the stand-in
    detection [A, B, [C]] with a stand-in apply_detection_item and a stand-in processing item whose detection item
    condition matches A and C only. One outcome per (way the item is changed, modifiers left on it, type of its values,
    processing item present): which items apply_detection_item was asked about, which were replaced, voided, re-synced
    and marked as processed. Shared by C06.R2 (voiding protocol), C13.R2 (gate) and C13.R6 (marks)."""
    from ..tabulate import Proxy, call_method, Raised
    from ..prog import AnalysisError
    prog = ctx.prog
    cache = ctx.__dict__.setdefault("_apply_detection_outcomes", {})
    m = prog.lookup_method(cq, "apply_detection")
    if m is None:
        raise AnalysisError(f"anchor vanished: method {cq}.apply_detection")
    key = (m.qual, tuple(q for q in prog.mro(cq) if q in prog.classes and prog.is_subclass(q, DIT_BASE)))
    if key in cache:
        return cache[key]

    class SigmaType: pass
    class SigmaString(SigmaType):
        def __init__(self, s): self.s = s
        def __repr__(self): return f"S({self.s})"
        def __eq__(self, o): return type(o) is type(self) and o.s == self.s
        __hash__ = None
    class SigmaNumber(SigmaString): pass
    class SigmaBool(SigmaString): pass
    class SigmaNull(SigmaString): pass
    class SigmaRegularExpression(SigmaString): pass
    class SigmaCasedString(SigmaString): pass
    class SigmaModifier: pass
    class SigmaValueModifier(SigmaModifier): pass
    class SigmaListModifier(SigmaModifier): pass
    class SigmaBase64Modifier(SigmaValueModifier): pass
    class SigmaAllModifier(SigmaListModifier): pass

    class SigmaDetectionItem:
        def __init__(self, name, value, modifiers, matches):
            self.name, self.field, self.value, self.modifiers, self.matches = name, (None if name.startswith("C") else "f"), value, list(modifiers), matches
            self.original_value = self.at_load = [SigmaString("loaded")]
            self.voided = False
            self.applied_processing_items = set()
        def disable_conversion_to_plain(self):
            self.voided = True
            self.original_value = None
        def __repr__(self): return self.name

    class DeleteSigmaDetectionItem(SigmaDetectionItem): pass

    class SigmaDetection:
        def __init__(self, items): self.detection_items = list(items)

    env = {k: v for k, v in locals().items() if isinstance(v, type)}
    # every value modifier class the source defines, by name (a guard may single some of them out)
    real_value_mods = []
    for q in sorted(prog.subclasses("sigma.modifiers.SigmaValueModifier")):
        nm = q.rsplit(".", 1)[-1]
        if nm not in env:
            env[nm] = type(nm, (SigmaValueModifier,), {})
            real_value_mods.append(env[nm])
    if len(real_value_mods) < 10:
        raise AnalysisError(f"only {len(real_value_mods)} value modifier classes found in sigma.modifiers (>= 10 confirmed)")
    IK = {"max_steps": 20000}
    out = []
    scenarios = []
    for mode in ("rebind", "inplace", "new", "none"):
        for mods, mname in (((), "no modifiers"), ((SigmaBase64Modifier,), "a value modifier"), ((SigmaAllModifier,), "a list modifier")):
            for vt, vname in ((SigmaString, "strings"), (SigmaRegularExpression, "regular expressions"), (SigmaCasedString, "case-sensitive strings")):
                for with_pi in (True, False):
                    if mode in ("new", "none") and (mods or vt is not SigmaString):
                        continue
                    scenarios.append((mode, mods, mname, vt, vname, with_pi))
    for vm in real_value_mods:
        scenarios.append(("rebind", (vm,), f"the value modifier {vm.__name__}", SigmaString, "strings", False))
    if True:
        if True:
            if True:
                for mode, mods, mname, vt, vname, with_pi in scenarios:
                    a = SigmaDetectionItem("A", [vt("a")], mods, True)
                    b = SigmaDetectionItem("B", [vt("b")], mods, False)
                    c = SigmaDetectionItem("C", [vt("c")], mods, True)
                    inner = SigmaDetection([c])
                    det = SigmaDetection([a, b, inner])
                    asked, marked, results = [], [], {}
                    def apply_detection_item(item, _mode=mode, _vt=vt, _mods=mods, _asked=asked, _results=results):
                        _asked.append(item)
                        if _mode == "none":
                            return None
                        if _mode == "rebind":
                            item.value = [_vt(item.value[0].s + "'")]
                            res = item
                        elif _mode == "inplace":
                            item.value[0] = _vt(item.value[0].s + "'")
                            res = item
                        else:
                            res = SigmaDetectionItem(item.name + "new", [_vt(item.value[0].s + "'")], _mods, item.matches)
                        _results[item.name] = res
                        return res
                    pi = type("PI", (), {"match_detection_item": lambda self_, it: it.matches, "identifier": "pi"})() if with_pi else None
                    me = Proxy(prog, cq, env, {"processing_item": pi, "_pipeline": None, "apply_detection_item": apply_detection_item,
                                               "processing_item_applied": lambda d, _m=marked: _m.append(d)}, interp_kwargs=IK)
                    raised = None
                    try:
                        call_method(prog, cq, "apply_detection", me, env, det, interp_kwargs=IK)
                    except Raised as ex:
                        raised = ex
                    items = {}
                    for orig, holder, idx in ((a, det, 0), (b, det, 1), (c, inner, 0)):
                        now = holder.detection_items[idx] if idx < len(holder.detection_items) else None
                        res = results.get(orig.name)
                        items[orig.name] = types.SimpleNamespace(
                            asked=any(x is orig for x in asked), result=res, stored=res is not None and now is res, now=now,
                            marked=res is not None and any(x is res for x in marked),
                            voided=res is not None and res.voided,
                            resynced=res is not None and not res.voided and res.original_value is not res.at_load
                            and res.original_value == res.value,
                            resync_shared=res is not None and res.original_value is res.value,
                            stale=res is not None and not res.voided and res.original_value is res.at_load)
                    out.append(types.SimpleNamespace(mode=mode, mods=mname, value_modifiers=any(issubclass(x, SigmaValueModifier) for x in mods), any_mods=bool(mods), values=vname,
                                                     plain_values=vt is SigmaString, with_pi=with_pi, items=items, raised=raised, asked=[x.name for x in asked],
                                                     marked=[getattr(x, "name", repr(x)) for x in marked], inner_same=det.detection_items[2] is inner if len(det.detection_items) > 2 else False))
    cache[key] = (m, out)
    return m, out


def load_ruleset_outcome(ctx, resolve: bool = True, hooks: bool = False):
    """SigmaCollection.load_ruleset interpreted (sa.tabulate, ClassProxy) on two stand-in paths: what the per-file loader, the
    merge and the final resolution are called with. → namespace: per_file (list of keyword dicts of from_yaml, positional
    arguments mapped to its parameter names), merge (list of (collections, keywords)), resolved (number of calls of
    resolve_rule_references on the merged collection), ret, raised."""
    import types as _types
    from collections.abc import Iterable as _Iterable
    from ..tabulate import ClassProxy, call_method, Raised
    prog = ctx.prog
    SC = "sigma.collection.SigmaCollection"
    fy_params = [p for p in prog.func(SC + ".from_yaml").params() if p not in ("self", "cls")]
    mg_params = [p for p in prog.func(SC + ".merge").params() if p not in ("self", "cls")]
    per_file: list = []
    merges: list = []
    resolved = [0]
    opened: list = []

    class _Path:
        def __init__(self, n): self.n = n
        def open(self, *a, **k):
            opened.append(self.n)
            outer = self
            class _F:
                def __enter__(self_): return f"FD({outer.n})"
                def __exit__(self_, *a_): return False
                def read(self_): return f"TEXT({outer.n})"
                def close(self_): pass
            return _F()
        def __repr__(self): return self.n

    def from_yaml(*a, **k):
        d = dict(zip(fy_params, a)); d.update(k)
        per_file.append(d)
        return _types.SimpleNamespace(rules=[f"rule-of-{len(per_file)}"], filters=[], errors=[], tag=f"collection-{len(per_file)}")

    merged = _types.SimpleNamespace(resolve_rule_references=lambda: resolved.__setitem__(0, resolved[0] + 1), tag="merged")

    def merge(*a, **k):
        d = dict(zip(mg_params, a)); d.update(k)
        d["collections"] = [getattr(c, "tag", c) for c in d.get("collections", [])]
        merges.append(d)
        return merged
    env: dict = {"Iterable": _Iterable, "SigmaRuleLocation": lambda p_: ("location", p_), "Path": _Path, "open": lambda p_, *a, **k: p_.open()}
    over = {"resolve_paths": lambda inputs, pattern=None: [_Path("p1"), _Path("p2")], "from_yaml": from_yaml, "merge": merge}
    klass = ClassProxy(prog, SC, env, interp_kwargs={"max_steps": 8000, "behaviours": (TypeError,)}, overrides=over)
    env["SigmaCollection"] = klass
    out = _types.SimpleNamespace(per_file=per_file, merge=merges, resolved=resolved, ret=None, raised=None, opened=opened, merged=merged)
    kwargs = {"resolve_references": resolve}
    if hooks:
        kwargs.update({"on_beforeload": lambda p_: None if p_.n == "p1" else p_, "on_load": lambda p_, c_: c_})
    try:
        out.ret = call_method(prog, SC, "load_ruleset", klass, env, ["in1", "in2"], False, interp_kwargs={"max_steps": 8000, "behaviours": (TypeError,)}, **kwargs)
    except Raised as ex:
        out.raised = ex
    return out
