"""C09 — rule references resolve the same way whatever the document order."""
from __future__ import annotations

import ast
from typing import Optional

from ..prog import AnalysisError, FuncInfo, call_name, short, stmt_head, unparse, walk_no_nested
from ..util import assignments_to, atomic_guards, cfg_of, guards_at

COLL = "sigma.collection.SigmaCollection"


def run(ctx) -> None:
    r, prog = ctx.r, ctx.prog
    r.explanation = (
        "Order-independence mechanism decided on the source: after reference resolution the rule list is re-assigned from an "
        "ordering step that is a topological order of the reference relation (depth-first post-order over referenced_rules, or "
        "graphlib); comparison-based sorting with the non-transitive 'referenced by' relation, rank keys that cannot see chains, "
        "or no ordering at all are reported; resolution happens before the first conversion, over the merged set on every load "
        "path, unconditionally for every reference, with lookups failing as SigmaRuleNotFoundError; the output switch is monotone "
        "(only ever disabled, only under `not generate`) and both conversion functions honour it. Equality of outputs across "
        "permutations is not observed.")
    r1_ordering(ctx)
    r2_resolution_before_use(ctx)
    r3_load_paths(ctx)
    r4_output_switch(ctx)
    r5_every_reference_holder(ctx)
    r6_lookup_table(ctx)


def _ordering_step(ctx, fi: FuncInfo) -> None:
    """resolve_rule_references interpreted (sa.tabulate, Proxy) on stand-in collections: two plain rules, a correlation rule
    over both, a correlation rule over that one, a correlation rule whose references come from its condition only (empty
    rules list), an unrelated rule and a filter — in every document order (5040 orders would be too many: all orders of the
    five related rules with the other two at fixed places). The resulting rule list must hold every rule once and each rule
    behind all rules it refers to. Rule objects compare like SigmaRuleBase.__lt__ does ('is directly referenced by') so
    that a comparison sort in the analysed code is followed faithfully."""
    import itertools
    from functools import reduce as _reduce
    from ..tabulate import Proxy, call_method, Raised
    r, prog = ctx.r, ctx.prog
    spec = {"a": (), "b": (), "c1": ("a", "b"), "c2": ("c1",), "c3": ("a",)}

    class _Base:
        def __init__(self, n):
            self.n, self.resets, self.referenced_rules, self._backreferences, self.name, self.id, self.source = n, 0, [], [], n, None, None
        def reset_references(self):
            self.resets += 1
            self._backreferences = []
        def __lt__(self, other):  # SigmaRuleBase.__lt__: self is referenced by other
            return any(ref.rule is self for ref in getattr(other, "referenced_rules", []))
        def __repr__(self): return self.n

    class SigmaRule(_Base):
        pass

    class SigmaCorrelationRule(_Base):
        def __init__(self, n, targets):
            super().__init__(n)
            self.targets = targets
            self.rules = [] if n == "c3" else [SimpleRef(t) for t in targets]   # c3: references from an extended condition only
        def resolve_rule_references(self, coll):
            byname = {x.n: x for x in coll.rules if isinstance(x, _Base)}
            self.referenced_rules = [SimpleRef(t, byname[t]) for t in self.targets]
        def flatten_rules(self, include_correlations=True):
            # as the public method of the rule class: a referred correlation rule comes *before* the rules it refers to
            out = []
            for ref in self.referenced_rules:
                if isinstance(ref.rule, SigmaCorrelationRule):
                    if include_correlations:
                        out.append(ref.rule)
                    out.extend(ref.rule.flatten_rules(include_correlations))
                else:
                    out.append(ref.rule)
            return out

    class SimpleRef:
        def __init__(self, reference, rule=None): self.reference, self.rule = reference, rule

    class SigmaFilter:
        def __init__(self): self.seen = []
        def apply_on_rule(self, rule):
            self.seen.append(rule)
            return rule
        def __repr__(self): return "filter"

    env = {"SigmaRule": SigmaRule, "SigmaCorrelationRule": SigmaCorrelationRule, "SigmaFilter": SigmaFilter, "reduce": _reduce, "cast": lambda t, v: v}
    IK = {"max_steps": 20000}
    bad: list[str] = []
    n = 0
    class SigmaCollectionError(Exception):
        pass

    env["SigmaCollectionError"] = SigmaCollectionError
    env["sigma_exceptions"] = type("E", (), {"__getattr__": lambda s_, k_: SigmaCollectionError})()
    IK["behaviours"] = (SigmaCollectionError,)
    # second pass: rules without a name (it is optional; such rules are referred to by id) — nothing may be keyed by the name
    for named, perm in [(True, p_) for p_ in itertools.permutations(sorted(spec))] + [(False, p_) for p_ in itertools.permutations(sorted(spec))]:
        n += 1
        objs = {k: (SigmaCorrelationRule(k, v) if v else SigmaRule(k)) for k, v in spec.items()}
        flt, z = SigmaFilter(), SigmaRule("z")
        if not named:
            for o_ in list(objs.values()) + [z]:
                o_.name, o_.id, o_.source = None, "id-" + o_.n, None
        order = [objs[k] for k in perm]
        docs = order[:2] + [flt] + order[2:4] + [z] + order[4:]
        me = Proxy(prog, COLL, env, {"rules": list(docs), "filters": [], "errors": [], "ids_to_rules": {}, "names_to_rules": {}}, interp_kwargs=IK)
        try:
            call_method(prog, COLL, fi.name, me, env, interp_kwargs=IK)
        except Raised as ex:
            bad.append(f"document order {list(perm)}{'' if named else ' (rules without names, referred to by id)'}: raises {ex}")
            continue
        out = list(me.rules)
        names = [getattr(x, "n", repr(x)) for x in out]
        if sorted(names) != sorted(list(spec) + ["z"]):
            bad.append(f"document order {[repr(d) for d in docs]}: rule list {names} is not the rules of the collection (filters taken out), each once")
            continue
        pos = {nm: i_ for i_, nm in enumerate(names)}
        late = [(k, t) for k, ts in spec.items() for t in ts if pos[t] > pos[k]]
        if late:
            bad.append(f"document order {[repr(d) for d in docs]}: result {names} has {late[0][0]} before {late[0][1]}, which it refers to")
    if bad:
        sorts = [c for c in walk_no_nested(fi.node) if isinstance(c, ast.Call) and (call_name(c) in ("sorted", "min", "max", "heapq.nsmallest") or call_name(c).endswith(".sort"))]
        why = "the rule list is not replaced by a topological order of the reference relation (referenced rules first, transitively; the relation is rule.referenced_rules as resolved — it also holds the references taken from an extended condition when no rules list is given)"
        if sorts:
            why += "; a comparison sort over rules uses SigmaRuleBase.__lt__ ('is directly referenced by'), which is neither transitive nor total, and a key that is a constant-time predicate of the rule cannot rank chains of correlation rules (c2 → c1 → a)"
        r.violation("C09.R1", fi.qual, f"ordering of self.rules after reference resolution: {bad[0]}", f"{len(bad)} of {n} document orders: {why}: a correlation rule converted before a rule it refers to finds no conversion result", fi.loc)
    else:
        r.ok("C09.R1", fi.qual, f"interpreted on {n} document orders of five related rules (chain c2 → c1 → a, b; condition-only references), an unrelated rule and a filter: every rule once, each behind all rules it refers to", fi.loc)


def correlation_resolution_table(ctx) -> dict[str, list[str]]:
    """SigmaCorrelationRule.resolve_rule_references interpreted (sa.tabulate, Proxy) on stand-in references and rules.
    → {obligation: [deviations]}; cached per run."""
    if getattr(ctx, "_c09_corr", None) is not None:
        return ctx._c09_corr
    import types as _types
    from ..tabulate import Proxy, call_method, Raised
    prog = ctx.prog
    CR = "sigma.correlations.SigmaCorrelationRule"

    class SigmaRuleNotFoundError(Exception):
        pass

    class _Target:
        def __init__(self, n): self.n, self.back, self.disabled = n, [], 0
        def add_backreference(self, x): self.back.append(x)
        def disable_output_by_reference(self): self.disabled += 1
        def disable_output(self): self.disabled += 100
        def enable_output(self): self.disabled -= 1000
        def __repr__(self): return f"rule {self.n}"

    class SigmaRuleReference:
        def __init__(self, reference, rule=None): self.reference, self.rule, self.resolved = reference, rule, 0
        def resolve(self, coll):
            self.resolved += 1
            self.rule = coll[self.reference]

    class SigmaExtendedCorrelationCondition:
        def get_referenced_rules(self): return ["a", "b"]

    class _Coll(dict):
        def __getitem__(self, k):
            if k not in self:
                raise SigmaRuleNotFoundError(k)
            return dict.__getitem__(self, k)

    env = {"SigmaRuleReference": SigmaRuleReference, "SigmaExtendedCorrelationCondition": SigmaExtendedCorrelationCondition,
           "sigma_exceptions": _types.SimpleNamespace(SigmaRuleNotFoundError=SigmaRuleNotFoundError), "SigmaRuleNotFoundError": SigmaRuleNotFoundError}
    IK = {"behaviours": (SigmaRuleNotFoundError,), "max_steps": 6000}
    out: dict[str, list[str]] = {k: [] for k in ("every reference is resolved", "every referenced rule gets the back reference", "a missing rule is an error",
                                                 "output of the referenced rules is disabled exactly if the rule does not generate", "aliases are resolved", "the reference list is taken from the rules list or the extended condition")}
    for generate, own_output in ((False, True), (True, True), (True, False), (False, False)):
        for scenario in ("rules list", "extended condition", "no references", "missing rule", "rules list and extended condition"):
            coll = _Coll(a=_Target("a"), b=_Target("b"))
            stale = _Target("stale a")
            alias_calls: list = []
            attrs = {"generate": generate, "aliases": _types.SimpleNamespace(resolve_rule_references=lambda c: alias_calls.append(c)), "referenced_rules": [], "source": None,
                     "rules": None, "condition": object(), "_output": own_output, "_output_disabled_by_reference": False, "_backreferences": []}
            if scenario in ("rules list", "missing rule"):
                attrs["rules"] = [SigmaRuleReference("a", stale), SigmaRuleReference("b" if scenario == "rules list" else "nowhere")]
            elif scenario == "extended condition":
                attrs["condition"] = SigmaExtendedCorrelationCondition()
            elif scenario == "rules list and extended condition":  # the list names the rules in another order than the condition text
                attrs["rules"] = [SigmaRuleReference("b"), SigmaRuleReference("a", stale)]
                attrs["condition"] = SigmaExtendedCorrelationCondition()
            me = Proxy(prog, CR, env, attrs, interp_kwargs=IK)
            case = f"{scenario}, generate={generate}, own output {'on' if own_output else 'off'}"
            try:
                call_method(prog, CR, "resolve_rule_references", me, env, coll, interp_kwargs=IK)
                raised = None
            except Raised as ex:
                raised = ex
            if scenario == "missing rule":
                if raised is None or "SigmaRuleNotFoundError" not in str(raised):
                    out["a missing rule is an error"].append(f"{case}: {'no error' if raised is None else raised}")
                continue
            if raised is not None:
                out["every reference is resolved"].append(f"{case}: raises {raised}")
                continue
            refs = list(me.referenced_rules)
            want_names = [] if scenario == "no references" else ["b", "a"] if scenario == "rules list and extended condition" else ["a", "b"]
            if [getattr(x, "reference", None) for x in refs] != want_names:
                out["the reference list is taken from the rules list or the extended condition"].append(f"{case}: referenced_rules = {[getattr(x, 'reference', x) for x in refs]}, expected {want_names}")
                continue
            for x in refs:
                if x.resolved != 1 or x.rule is not coll[x.reference]:
                    out["every reference is resolved"].append(f"{case}: reference {x.reference!r} resolved {x.resolved} time(s), points to {x.rule!r}")
            for t in (coll["a"], coll["b"]):
                want_back = 0 if scenario == "no references" else 1
                if len(t.back) != want_back or any(b is not me for b in t.back):
                    out["every referenced rule gets the back reference"].append(f"{case}: {t!r} has {len(t.back)} back reference(s)")
                want_dis = 0 if (generate or scenario == "no references") else 1
                if t.disabled != want_dis:
                    out["output of the referenced rules is disabled exactly if the rule does not generate"].append(f"{case}: {t!r}: output disabled by reference {t.disabled} time(s), expected {want_dis}")
            if stale.back or stale.disabled:
                out["every reference is resolved"].append(f"{case}: the stale object of an already resolved reference was used")
            if len(alias_calls) != 1 or alias_calls[0] is not coll:
                out["aliases are resolved"].append(f"{case}: aliases.resolve_rule_references called {len(alias_calls)} time(s)")
    ctx._c09_corr = out
    return out


def _only_below(ctx, q: str, root: str, depth: int = 0) -> bool:
    """q is a private method of the class of ``root`` and every call of it lies in ``root`` or in such a helper of it."""
    prog = ctx.prog
    f, rf = prog.funcs.get(q), prog.funcs.get(root)
    if f is None or rf is None or f.cls is None or rf.cls is None or f.cls.qual != rf.cls.qual or not f.name.startswith("_") or depth > 3:
        return False
    callers = {s_.caller for s_ in ctx.cg.callers(q)} if hasattr(ctx.cg, "callers") else set()
    # references by name anywhere (also uncalled ones) must lie in the same closure
    refs = {g.qual for g in prog.funcs.values() if g.qual != q and any(isinstance(n_, ast.Attribute) and n_.attr == f.name for n_ in walk_no_nested(g.node))}
    users = callers | refs
    return bool(users) and all(u == root or _only_below(ctx, u, root, depth + 1) for u in users)


def r1_ordering(ctx) -> None:
    r, prog = ctx.r, ctx.prog
    r.rule("C09.R1", "between reference resolution and conversion the rule list is replaced by a topological order of the reference relation (referenced rules first, transitively); comparison sorts on the non-transitive __lt__ and rank keys blind to chains are reported")
    fi = prog.func(COLL + ".resolve_rule_references")
    _ordering_step(ctx, fi)
    # any other sort over rule objects anywhere (uses the same __lt__)
    lt = prog.lookup_method("sigma.rule.base.SigmaRuleBase", "__lt__")
    for q, f in sorted(prog.funcs.items()):
        if q == fi.qual or not f.module.name.startswith(("sigma.collection", "sigma.conversion", "sigma.correlations", "sigma.rule")):
            continue
        for c in (x for x in walk_no_nested(f.node) if isinstance(x, ast.Call) and (call_name(x) in ("sorted", "min", "max") or call_name(x).endswith(".sort"))):
            if any(kw.arg == "key" for kw in c.keywords):
                continue
            arg = c.args[0] if c.args else (c.func.value if isinstance(c.func, ast.Attribute) else None)
            names = ctx.types.type_str(f.module, arg) if arg is not None else None
            if names and ("SigmaRule" in names or "SigmaCorrelationRule" in names or "SigmaRuleBase" in names):
                r.violation("C09.R1", q, short(c, 100), "comparison sort over rule objects relies on the partial order SigmaRuleBase.__lt__", f"{f.module.relpath}:{c.lineno}")
    if lt is not None:
        r.ok("C09.R1", lt.qual, "__lt__ = referenced_by (partial, non-transitive): no comparison sort in collection/conversion code depends on it", lt.loc)
    r.floor("C09.R1", 1)


def r2_resolution_before_use(ctx) -> None:
    r, prog = ctx.r, ctx.prog
    r.rule("C09.R2", "Backend.convert resolves references before the first conversion; collection lookups fail as SigmaRuleNotFoundError; referenced results are read only through get_conversion_result(), which raises a Sigma error when absent; every reference is resolved unconditionally")
    cv = prog.func("sigma.conversion.base.Backend.convert")
    # Backend.convert interpreted (sa.tabulate, Proxy) on a stand-in collection: the order of the recorded calls
    from .standins import run_backend_convert
    tr2 = [t_[0] for t_ in run_backend_convert(ctx).trace]
    first_conv = next((i_ for i_, k_ in enumerate(tr2) if k_.startswith("convert")), None)
    if "resolve" not in tr2:
        r.violation("C09.R2", cv.qual, "rule_collection.resolve_rule_references()", "convert() no longer resolves (and orders) references itself: a collection built with resolve_references=False or modified after loading is converted in document order", cv.loc)
    elif first_conv is not None and tr2.index("resolve") < first_conv and tr2.count("resolve") == 1:
        r.ok("C09.R2", cv.qual, "resolve_rule_references() runs once, before every per-rule conversion (interpreted)", cv.loc)
    else:
        r.violation("C09.R2", cv.qual, "rule_collection.resolve_rule_references()", f"a conversion can run before references are resolved: calls in order {tr2[:8]}", cv.loc)
    gi = prog.func(COLL + ".__getitem__")
    handlers = {}
    for t in (x for x in walk_no_nested(gi.node) if isinstance(x, ast.Try)):
        for h in t.handlers:
            nm = unparse(h.type) if h.type else ""
            raises = [x for x in ast.walk(h) if isinstance(x, ast.Raise)]
            handlers[nm] = [unparse(x.exc).split("(")[0] if x.exc is not None else "" for x in raises]
    for exc in ("KeyError", "IndexError"):
        if handlers.get(exc) == ["SigmaRuleNotFoundError"]:
            r.ok("C09.R2", gi.qual, f"{exc} → SigmaRuleNotFoundError", gi.loc)
        else:
            r.violation("C09.R2", gi.qual, f"except {exc}", f"a missing rule does not surface as SigmaRuleNotFoundError (handlers: {handlers})", gi.loc)
    ref = prog.func("sigma.correlations.SigmaRuleReference.resolve")
    if any(isinstance(n, ast.Assign) and unparse(n.targets[0]) == "self.rule" and unparse(n.value) == "rule_collection[self.reference]" for n in walk_no_nested(ref.node)) \
            and not any(isinstance(n, ast.Try) for n in walk_no_nested(ref.node)):
        r.ok("C09.R2", ref.qual, "self.rule = rule_collection[self.reference] (lookup error propagates)", ref.loc)
    else:
        r.violation("C09.R2", ref.qual, "self.rule = rule_collection[self.reference]", "reference lookup altered or its failure swallowed", ref.loc)
    gr = prog.func("sigma.rule.base.SigmaRuleBase.get_conversion_result")
    # the getter interpreted (sa.tabulate, Proxy): an absent result is a Sigma error, a stored one is handed out
    from ..tabulate import Proxy as _Pg, call_method as _cmg, Raised as _Rg
    RB_ = "sigma.rule.base.SigmaRuleBase"

    class SigmaConversionError(Exception):
        def __init__(self, *a, **k): super().__init__(*[str(x) for x in a[2:3]])
    envg = {"SigmaConversionError": SigmaConversionError}
    IKg = {"max_steps": 2000, "behaviours": (SigmaConversionError,)}
    outs_g = {}
    for stored in (None, ["q1"], []):
        me_g = _Pg(prog, RB_, envg, {"_conversion_result": stored, "_conversion_states": None}, interp_kwargs=IKg)
        try:
            got_g = _cmg(prog, RB_, "get_conversion_result", me_g, envg, interp_kwargs=IKg)
            outs_g[repr(stored)] = "the stored list" if got_g is stored else repr(got_g)
        except _Rg as ex:
            outs_g[repr(stored)] = "SigmaConversionError" if "SigmaConversionError" in str(ex) else f"raises {ex}"
    if outs_g == {"None": "SigmaConversionError", "['q1']": "the stored list", "[]": "the stored list"}:
        r.ok("C09.R2", gr.qual, "absent result → SigmaConversionError; a stored result (also an empty one) is handed out (interpreted)", gr.loc)
    else:
        r.violation("C09.R2", gr.qual, "if self._conversion_result is None: raise SigmaConversionError", f"an absent conversion result of a referenced rule is not reported as a Sigma error (or a stored one is not handed out): {outs_g}", gr.loc)
    n_reads = 0
    for q, f in sorted(prog.funcs.items()):
        if not q.startswith("sigma.conversion."):
            continue
        for n in walk_no_nested(f.node):
            if isinstance(n, ast.Attribute) and n.attr == "_conversion_result":
                r.violation("C09.R2", q, stmt_head(prog.enclosing_stmt(n)), "conversion code reads _conversion_result directly instead of get_conversion_result()", f"{f.module.relpath}:{n.lineno}")
            if isinstance(n, ast.Call) and call_name(n).endswith(".get_conversion_result"):
                n_reads += 1
                r.ok("C09.R2", q, short(n, 80), f"{f.module.relpath}:{n.lineno}")
    # resolution loop of the correlation rule: unconditional per reference
    rr = prog.func("sigma.correlations.SigmaCorrelationRule.resolve_rule_references")
    for what, problems in correlation_resolution_table(ctx).items():
        if what not in ("every reference is resolved", "every referenced rule gets the back reference", "a missing rule is an error"):
            continue
        if not problems:
            r.ok("C09.R2", rr.qual, f"{what}, unconditionally (interpreted: explicit rules list incl. an already resolved reference, references from an extended condition, no references)", rr.loc)
        else:
            r.violation("C09.R2", rr.qual, f"{what}: {problems[0]}",
                        "a reference can be skipped (already-resolved shortcut / guard): a missing rule is then not reported at load time and a re-loaded rule keeps pointing at a stale object", rr.loc)
    r.floor("C09.R2", 6)


def r5_every_reference_holder(ctx) -> None:
    """A rule may be referred to by name or by id, anywhere a reference can be written."""
    r, prog = ctx.r, ctx.prog
    r.rule("C09.R5", "every place of a correlation rule that holds SigmaRuleReference objects is resolved on the normal path of SigmaCorrelationRule.resolve_rule_references (a missing rule is an error there as well), and conversion code tells references apart by the rule they resolve to, not by the text of the reference alone")
    C = "sigma.correlations"
    rr = prog.func(C + ".SigmaCorrelationRule.resolve_rule_references")
    cfg = cfg_of(rr)
    # holders: dataclass fields of SigmaCorrelationRule whose declared type (transitively through sigma.correlations classes) contains SigmaRuleReference
    def holds(cq: str, seen: set) -> bool:
        if cq in seen:
            return False
        seen.add(cq)
        for _, st in prog.dataclass_fields(cq).items():
            ann = unparse(st.annotation)
            if "SigmaRuleReference" in ann:
                return True
            for nm in {x.id for x in ast.walk(st.annotation) if isinstance(x, ast.Name)}:
                if f"{C}.{nm}" in prog.classes and holds(f"{C}.{nm}", seen):
                    return True
        return False
    n = 0
    for fname, st in prog.dataclass_fields(C + ".SigmaCorrelationRule").items():
        ann = unparse(st.annotation)
        direct = "SigmaRuleReference" in ann
        via = [nm for nm in {x.id for x in ast.walk(st.annotation) if isinstance(x, ast.Name)} if f"{C}.{nm}" in prog.classes and nm != "SigmaRuleReference" and holds(f"{C}.{nm}", set())]
        if not direct and not via:
            continue
        n += 1
        loc = f"{rr.module.relpath}:{st.lineno}"
        if fname == "condition":
            # reviewed: the references inside an extended condition are names; __post_init__ compares them as text with the
            # `rules` list and raises SigmaCorrelationConditionError on any difference (checked here), so a condition cannot
            # silently name another rule than the list does; without a list the names become the references that are resolved
            # __post_init__ interpreted (sa.tabulate, Proxy) on rule lists and extended conditions that agree and that differ
            import types as _types9
            from ..tabulate import Proxy as _P9, call_method as _cm9, Raised as _R9
            CR9 = C + ".SigmaCorrelationRule"
            class SigmaExtendedCorrelationCondition:
                def __init__(self, names): self.names = names
                def get_referenced_rules(self): return list(self.names)
            class SigmaCorrelationCondition: fieldref = "f"
            class _SErr(Exception):
                def __init__(self, *a, **k): super().__init__(*a)
            exc9 = _types9.SimpleNamespace(SigmaCorrelationRuleError=type("SigmaCorrelationRuleError", (_SErr,), {}), SigmaCorrelationConditionError=type("SigmaCorrelationConditionError", (_SErr,), {}))
            T9 = _types9.SimpleNamespace(**{n_: n_ for n_ in ("EVENT_COUNT", "VALUE_COUNT", "VALUE_SUM", "VALUE_AVG", "VALUE_PERCENTILE", "VALUE_MEDIAN", "TEMPORAL", "TEMPORAL_ORDERED")})
            env9 = {"SigmaExtendedCorrelationCondition": SigmaExtendedCorrelationCondition, "SigmaCorrelationCondition": SigmaCorrelationCondition, "sigma_exceptions": exc9,
                    "SigmaCorrelationRuleError": exc9.SigmaCorrelationRuleError, "SigmaCorrelationConditionError": exc9.SigmaCorrelationConditionError, "SigmaCorrelationType": T9,
                    "super": lambda: _types9.SimpleNamespace(__post_init__=lambda: None)}
            IK9 = {"max_steps": 4000, "behaviours": (_SErr,)}
            outs9 = {}
            for nm9, rules9, names9 in (("same", ["a", "b"], ["a", "b"]), ("same, other order", ["b", "a"], ["a", "b", "a"]), ("rule not in condition", ["a", "b"], ["a"]), ("condition names an undefined rule", ["a"], ["a", "b"]),
                                        ("disjoint", ["a"], ["b"]), ("no list", None, ["a", "b"])):
                me9 = _P9(prog, CR9, env9, {"rules": None if rules9 is None else [_types9.SimpleNamespace(reference=x) for x in rules9], "condition": SigmaExtendedCorrelationCondition(names9),
                                           "type": "TEMPORAL", "source": None, "generate": False}, interp_kwargs=IK9)
                try:
                    _cm9(prog, CR9, "__post_init__", me9, env9, interp_kwargs=IK9)
                    outs9[nm9] = "accepted"
                except _R9 as ex:
                    outs9[nm9] = "condition error" if "SigmaCorrelationConditionError" in str(ex) else f"raises {ex}"
            want9 = {"same": "accepted", "same, other order": "accepted", "rule not in condition": "condition error", "condition names an undefined rule": "condition error", "disjoint": "condition error", "no list": "accepted"}
            taken9 = correlation_resolution_table(ctx)["the reference list is taken from the rules list or the extended condition"]
            if outs9 == want9 and not taken9:
                r.ok("C09.R5", rr.qual, "field condition: its references are names checked against `rules` in both directions (error on mismatch) or become the resolved references", loc)
            else:
                r.violation("C09.R5", rr.qual, "field condition", f"the names in an extended condition are no longer checked against the rules list in both directions: { {k_: v_ for k_, v_ in outs9.items() if want9.get(k_) != v_} }", loc)
            continue
        if fname == "referenced_rules" or fname == "rules":
            r.ok("C09.R5", rr.qual, f"field {fname}: resolved by the loop over self.referenced_rules (C09.R2)", loc)
            continue
        calls = [c for c in walk_no_nested(rr.node) if isinstance(c, ast.Call) and call_name(c) == f"self.{fname}.resolve_rule_references"]
        exits = [x.id for x in cfg.nodes if x.kind == "exit"] if hasattr(cfg, "nodes") else []
        nodes = [x for c in calls for x in cfg.node_of_expr(c, prog.parent)]
        on_all = bool(nodes) and all(cfg.must_pass(e, nodes) for e in ([cfg.exit] if hasattr(cfg, "exit") else exits))
        if calls and on_all:
            r.ok("C09.R5", rr.qual, f"field {fname} ({ann}): self.{fname}.resolve_rule_references(rule_collection) on every normal path", loc)
        elif calls:
            r.violation("C09.R5", rr.qual, f"self.{fname}.resolve_rule_references(...)", f"the references held by {fname} are resolved on some paths only", loc)
        else:
            r.violation("C09.R5", rr.qual, f"field {fname}: {ann}", f"the rule references held by {fname} are never resolved: a reference to a rule that does not exist is accepted silently, and the references can only be compared as text (an alias that names a rule by id does not apply to a rule listed by name)", loc)
    # which aliases apply to a referenced rule: the normalisation renderer interpreted (sa.tabulate, Proxy) on references that
    # name the same rule differently (by name / by id), another rule, and an unresolved reference with equal text
    import types as _types5
    from ..tabulate import Proxy as _P5, call_method as _cm5, Raised as _R5
    TQ5 = "sigma.conversion.base.TextQueryBackend"
    nf = prog.func(TQ5 + ".convert_correlation_search_field_normalization_expression")
    class _Ref:
        def __init__(self, text, rule=None):
            self.reference = text
            if rule is not None:
                self.rule = rule
        def __eq__(self, o): return isinstance(o, _Ref) and o.reference == self.reference
        def __hash__(self): return hash(self.reference)
    class _Aliases(list): pass
    RULE1, RULE2 = object(), object()
    def alias(name, mapping): return _types5.SimpleNamespace(alias=name, mapping=mapping)
    aliases5 = _Aliases([alias("al1", {_Ref("rule-1-id", RULE1): "by_id_field", _Ref("other-rule", RULE2): "other_field"}),
                         alias("al2", {_Ref("rule-1-name", None): "same_text_field"}), alias("al3", {_Ref("unrelated", None): "unrelated_field"})])
    me5 = _P5(prog, TQ5, {}, {"correlation_search_field_normalization_expression": "{alias}={field}", "correlation_search_field_normalization_expression_joiner": ";",
                              "escape_and_quote_field": lambda f_: f_}, interp_kwargs={"max_steps": 6000})
    try:
        got5 = _cm5(prog, TQ5, nf.name, me5, {}, aliases5, _Ref("rule-1-name", RULE1), interp_kwargs={"max_steps": 6000})
    except _R5 as ex:
        got5 = f"raises {ex}"
    interpreted_ok = got5 == "al1=by_id_field;al2=same_text_field"
    covered5 = {q_ for q_ in ctx.cg.reachable([nf.qual]) if q_.startswith(TQ5 + ".")} if interpreted_ok else set()
    if interpreted_ok:
        r.ok("C09.R5", nf.qual, "an alias applies to a referenced rule when its key has the same text or resolves to the same rule (interpreted: by name / by id / another rule / unresolved)", nf.loc)
        n += 1
    else:
        r.violation("C09.R5", nf.qual, "if alias_rule_reference == rule_reference or … is the same resolved rule", f"two rule references are compared by their text only: the same rule referred to by name in `rules` and by id in `aliases` (or the other way round) is taken for two rules and the field normalisation is dropped from the query without an error — rendered {got5!r} instead of 'al1=by_id_field;al2=same_text_field'", nf.loc)
    # comparisons of references in conversion code
    for q, f in sorted(prog.funcs.items()):
        if not f.module.name.startswith("sigma.conversion") or q in covered5:
            continue
        for cmp_ in (x for x in walk_no_nested(f.node) if isinstance(x, ast.Compare) and len(x.ops) == 1 and isinstance(x.ops[0], (ast.Eq, ast.NotEq))):
            lt = ctx.types.class_names(f.module, cmp_.left)
            rt = ctx.types.class_names(f.module, cmp_.comparators[0])
            if any(t.endswith("SigmaRuleReference") for t in lt) and any(t.endswith("SigmaRuleReference") for t in rt):
                n += 1
                loc = f"{f.module.relpath}:{cmp_.lineno}"
                # accepted: the comparison is one arm of an `or` whose other arm compares the resolved rules by identity
                par = prog.parent(cmp_)
                by_rule = isinstance(par, ast.BoolOp) and isinstance(par.op, ast.Or) and any(
                    isinstance(x, ast.Compare) and isinstance(x.ops[0], ast.Is) and ("rule" in unparse(x)) for v in par.values for x in ast.walk(v))
                if by_rule:
                    r.ok("C09.R5", q, f"{unparse(cmp_)} or … the same resolved rule", loc)
                else:
                    r.violation("C09.R5", q, short(prog.enclosing_stmt(cmp_), 120), "two rule references are compared by their text only: the same rule referred to by name in `rules` and by id in `aliases` (or the other way round) is taken for two rules and the field normalisation is dropped from the query without an error", loc)
    r.floor("C09.R5", 3)


def r3_load_paths(ctx) -> None:
    r, prog = ctx.r, ctx.prog
    r.rule("C09.R3", "every load path ends in one resolution over the final rule set: __post_init__ resolves iff resolve_references; from_yaml/from_dicts/merge pass the flag through; load_ruleset builds per-file collections and the merge with resolve_references=False and resolves the merged collection")
    pi = prog.func(COLL + ".__post_init__")
    calls = [c for c in walk_no_nested(pi.node) if isinstance(c, ast.Call) and call_name(c) == "self.resolve_rule_references"]
    if len(calls) == 1 and ("resolve_references", True) in atomic_guards(guards_at(prog, pi, calls[0])):
        cfg = cfg_of(pi)
        # after all rules are registered
        reg = [n for n in walk_no_nested(pi.node) if isinstance(n, ast.For) and unparse(n.iter) == "init_rules"]
        if reg and calls[0].lineno > reg[0].end_lineno:
            r.ok("C09.R3", pi.qual, "resolve_rule_references() iff resolve_references, after all rules are registered", f"{pi.module.relpath}:{calls[0].lineno}")
        else:
            r.violation("C09.R3", pi.qual, short(calls[0]), "references are resolved before every rule of the collection is registered", pi.loc)
    else:
        r.violation("C09.R3", pi.qual, "if resolve_references: self.resolve_rule_references()", "collection construction does not resolve references exactly once under the resolve_references flag", pi.loc)
    for fn, callee in (("from_yaml", "cls.from_dicts"), ("from_dicts", "cls"), ("merge", "cls")):
        f = prog.func(f"{COLL}.{fn}")
        cs = [c for c in walk_no_nested(f.node) if isinstance(c, ast.Call) and call_name(c) == callee]
        passed = False
        for c in cs:
            idx = None
            for kw in c.keywords:
                if kw.arg == "resolve_references" and unparse(kw.value) == "resolve_references":
                    passed = True
            if any(unparse(a) == "resolve_references" for a in c.args):
                passed = True
        if passed:
            r.ok("C09.R3", f.qual, f"{callee}(..., resolve_references=resolve_references)", f.loc)
        else:
            r.violation("C09.R3", f.qual, f"{callee}(...)", "the resolve_references flag is not handed on: the caller can no longer defer resolution until the rule set is complete (or resolution never happens)", f.loc)
    # resolving is the default on every load path: a caller has to ask for deferral explicitly
    for fn in ("from_yaml", "from_dicts", "merge", "load_ruleset"):
        f = prog.func(f"{COLL}.{fn}")
        a = f.node.args
        names = [x.arg for x in a.args]
        dflt = dict(zip(names[len(names) - len(a.defaults):], a.defaults))
        dflt.update({k.arg: d for k, d in zip(a.kwonlyargs, a.kw_defaults) if d is not None})
        d = dflt.get("resolve_references")
        if isinstance(d, ast.Constant) and d.value is True:
            r.ok("C09.R3", f.qual, "resolve_references defaults to True", f.loc)
        else:
            r.violation("C09.R3", f.qual, f"resolve_references default = {unparse(d) if d is not None else None}", "the load path no longer resolves rule references unless asked to: a dangling reference is not reported when the collection is built, the rule list is not in reference order and get_output_rules() still lists rules whose output a correlation suppresses", f.loc)
    cf = prog.dataclass_fields(COLL).get("resolve_references")
    lr = prog.func(COLL + ".load_ruleset")
    # load_ruleset interpreted (sa.tabulate, ClassProxy) on two stand-in files: what the per-file loader, the merge and the
    # final resolution are called with — with and without the caller's resolve_references
    from .standins import load_ruleset_outcome
    for flag in (True, False):
        o3 = load_ruleset_outcome(ctx, resolve=flag)
        if o3.raised is not None:
            r.violation("C09.R3", lr.qual, "load_ruleset on two files", f"raises {o3.raised}", lr.loc)
            continue
        if len(o3.per_file) == 2 and all(d_.get("resolve_references") is False for d_ in o3.per_file):
            r.ok("C09.R3", lr.qual, f"per-file from_yaml(..., resolve_references=False) [caller's flag {flag}]", lr.loc)
        else:
            r.violation("C09.R3", lr.qual, "SigmaCollection.from_yaml(..., resolve_references=False)", f"per-file collections resolve references on their own: a rule referenced from another file is reported missing (per-file calls: {[d_.get('resolve_references', '<default>') for d_ in o3.per_file]})", lr.loc)
        okm = len(o3.merge) == 1 and o3.merge[0].get("collections") == ["collection-1", "collection-2"] and o3.merge[0].get("resolve_references") is False
        if okm and o3.resolved[0] == (1 if flag else 0) and o3.ret is o3.merged:
            r.ok("C09.R3", lr.qual, f"merged collection resolved {'once' if flag else 'not at all'}, under the caller's flag {flag}", lr.loc)
        elif not o3.merge or o3.resolved[0] == 0 and flag:
            r.violation("C09.R3", lr.qual, "merged.resolve_rule_references()", f"no resolution over the merged rule set (merge calls {o3.merge}, resolutions {o3.resolved[0]})", lr.loc)
        else:
            r.violation("C09.R3", lr.qual, "merged.resolve_rule_references()", f"final resolution is not performed on the merged collection under the caller's flag {flag}: merge calls {o3.merge}, resolutions {o3.resolved[0]}", lr.loc)
    r.floor("C09.R3", 10)


def assignments_target(fi: FuncInfo, call: ast.Call, prog) -> ast.AST:
    st = prog.enclosing_stmt(call)
    if isinstance(st, ast.Assign):
        return st.targets[0]
    return ast.Name(id="?")


def r4_output_switch(ctx) -> None:
    r, prog = ctx.r, ctx.prog
    r.rule("C09.R4", "the output switch is determined per resolution and monotone within it: every resolution first resets the reference-derived state of all rules (reset_references re-enables only an output that a reference disabled), then _output is only ever set to False — by references only under `not self.generate`; a manual disable_output() is never undone; both per-rule conversion functions return queries only under rule._output")
    n = 0
    # the three operations on the switch interpreted (sa.tabulate, Proxy) as a state machine: every start state x every
    # sequence of up to three operations, against the specified transitions
    import itertools as _it
    from ..tabulate import Proxy as _Ps, call_method as _cms, Raised as _Rs
    RB_ = "sigma.rule.base.SigmaRuleBase"
    ops_ = ("disable_output", "disable_output_by_reference", "reset_references")

    def spec(state, op):
        out, by_ref, back = state
        if op == "disable_output":
            return (False, False, back)
        if op == "disable_output_by_reference":
            return (False, True, back) if out else (out, by_ref, back)
        return (True, False, 0) if by_ref else (out, False if by_ref else by_ref, 0)
    bad_s = None
    n_seq = 0
    for start in _it.product((True, False), (True, False)):
        if start == (True, True):
            continue  # unreachable: a reference only records a disabling it performed
        for ln in (1, 2, 3):
            for seq in _it.product(ops_, repeat=ln):
                n_seq += 1
                me_s = _Ps(prog, RB_, {}, {"_output": start[0], "_output_disabled_by_reference": start[1], "_backreferences": ["b"]}, interp_kwargs={"max_steps": 3000})
                want = (start[0], start[1], 1)
                try:
                    for op in seq:
                        _cms(prog, RB_, op, me_s, {}, interp_kwargs={"max_steps": 3000})
                        want = spec(want, op)
                    got = (me_s._output, me_s._output_disabled_by_reference, len(me_s._backreferences))
                except _Rs as ex:
                    got = f"raises {ex}"
                if got != want and bad_s is None:
                    bad_s = f"from (output={start[0]}, disabled by reference={start[1]}) the operations {list(seq)} lead to (output, by reference, back references) = {got} instead of {want}"
    sw = prog.func(RB_ + ".disable_output_by_reference")
    if bad_s is None:
        r.ok("C09.R4", RB_, f"disable_output / disable_output_by_reference / reset_references follow the specified transitions on {n_seq} operation sequences: a manual switch is never undone, a reference disables only an output that is on and only that is re-enabled by a reset (interpreted)", sw.loc)
    else:
        r.violation("C09.R4", RB_, "the output switch (disable_output, disable_output_by_reference, reset_references)",
                    f"whether a rule emits its own query then depends on the order in which correlation rules are resolved, or a manual switch is undone: {bad_s}", sw.loc)
    # who may write the switch: the three operations and the private helpers of the rule class they call
    allowed_w = set(ctx.cg.reachable([f"{RB_}.{o}" for o in ops_]))
    for q, f in sorted(prog.funcs.items()):
        if not f.module.name.startswith("sigma."):
            continue
        for x in walk_no_nested(f.node):
            if isinstance(x, ast.Attribute) and x.attr in ("_output", "_output_disabled_by_reference") and isinstance(x.ctx, ast.Store):
                st = prog.enclosing_stmt(x)
                loc = f"{f.module.relpath}:{x.lineno}"
                n += 1
                if q in allowed_w and f.cls is not None and prog.is_subclass(f.cls.qual, RB_) or (f.cls is not None and f.cls.qual == RB_ and q in allowed_w):
                    r.ok("C09.R4", q, f"{unparse(st)[:70]}: inside the three switch operations (transitions interpreted above)", loc)
                else:
                    r.violation("C09.R4", q, unparse(st),
                                "the output switch is written outside the three admitted places (manual disable_output, disable_output_by_reference while the output is on, reset_references undoing a by-reference disabling): whether a rule emits its own query then depends on the order in which correlation rules are resolved, or a manual switch is undone", loc)
            if isinstance(x, ast.Call) and call_name(x).endswith(".disable_output_by_reference"):
                loc = f"{f.module.relpath}:{x.lineno}"
                gs = atomic_guards(guards_at(prog, f, x))
                tbl = correlation_resolution_table(ctx)["output of the referenced rules is disabled exactly if the rule does not generate"]
                if q == "sigma.correlations.SigmaCorrelationRule.resolve_rule_references" and not tbl:
                    r.ok("C09.R4", q, "rule.disable_output_by_reference() exactly under `not self.generate` (interpreted: generate x own output switch x reference source)", loc)
                elif q == "sigma.correlations.SigmaCorrelationRule.resolve_rule_references":
                    r.violation("C09.R4", q, short(x, 80), f"disable_output_by_reference() not exactly under `not self.generate`: {tbl[0]}", loc)
                elif _only_below(ctx, q, "sigma.correlations.SigmaCorrelationRule.resolve_rule_references") and not tbl:
                    r.ok("C09.R4", q, "rule.disable_output_by_reference() in a private helper that only reference resolution calls; exactly under `not self.generate` (interpreted through the helper)", loc)
                else:
                    r.violation("C09.R4", q, short(x, 80), f"disable_output_by_reference() called outside reference resolution or not under `not self.generate` ({gs})", loc)
            if isinstance(x, ast.Call) and call_name(x).endswith(".disable_output"):
                r.violation("C09.R4", q, short(x, 80), "library code uses the manual switch: the disabling is not recorded as caused by a reference, so it survives into a collection in which nothing refers to the rule (and is never recomputed)", f"{f.module.relpath}:{x.lineno}")
            if isinstance(x, ast.Call) and call_name(x).endswith((".enable_output",)):
                r.violation("C09.R4", q, short(x, 80), "output re-enabled: the last correlation rule resolved decides, i.e. document order", f"{f.module.relpath}:{x.lineno}")
    # the reset precedes every resolve of this resolution
    cr = prog.func(COLL + ".resolve_rule_references")
    ccfg = cfg_of(cr)
    resets = [c for c in walk_no_nested(cr.node) if isinstance(c, ast.Call) and call_name(c).endswith(".reset_references")]
    resolves = [c for c in walk_no_nested(cr.node) if isinstance(c, ast.Call) and call_name(c).endswith(".resolve_rule_references")]
    if not resolves:
        raise AnalysisError(f"{cr.qual}: per-rule resolve call not found")
    if not resets:
        r.violation("C09.R4", cr.qual, "rule.reset_references()", "a resolution does not reset the reference-derived state first: backreferences and a by-reference disabled output of an earlier collection (or conversion) stay on the rule objects, an unreferenced rule emits no query", cr.loc)
    else:
        rs_loop = next((a for a in prog.ancestors(resets[0]) if isinstance(a, ast.For)), None)
        rv_loop = next((a for a in prog.ancestors(resolves[0]) if isinstance(a, ast.For)), None)
        same_loop = rs_loop is not None and rs_loop is rv_loop
        over_all = rs_loop is not None and unparse(rs_loop.iter) == "self.rules"
        rn = ccfg.nodes_of(rs_loop) if rs_loop is not None else []
        before = bool(rn) and all(ccfg.must_pass(x, rn) for x in ccfg.node_of_expr(resolves[0], prog.parent))
        gs = [g for g, pol in atomic_guards(guards_at(prog, cr, resets[0])) if "isinstance(rule" not in g]
        if over_all and not same_loop and before and not gs:
            r.ok("C09.R4", cr.qual, "every rule is reset in a loop of its own before the first correlation rule is resolved", f"{cr.module.relpath}:{resets[0].lineno}")
        else:
            r.violation("C09.R4", cr.qual, short(prog.enclosing_stmt(resets[0]), 100),
                        "the reset is not a complete pass over self.rules before the first resolve (same loop as the resolve: a rule later in the list is reset after an earlier correlation rule referred to it — document order decides)", f"{cr.module.relpath}:{resets[0].lineno}")
    # a collection object built over rules that live in another collection (a lookup helper) must not resolve: its
    # constructor would run this very reset on the borrowed rule objects
    for q, f in sorted(prog.funcs.items()):
        if not f.module.name.startswith("sigma.") or (f.cls is not None and f.cls.qual == COLL):
            continue
        for c in (x for x in walk_no_nested(f.node) if isinstance(x, ast.Call) and prog.resolve_expr(f.module, x.func) == COLL):
            kw = {k.arg: k.value for k in c.keywords}
            loc = f"{f.module.relpath}:{c.lineno}"
            if "resolve_references" in kw and isinstance(kw["resolve_references"], ast.Constant) and kw["resolve_references"].value is False:
                r.ok("C09.R4", q, f"{short(c, 70)}: temporary collection without reference resolution", loc)
            else:
                r.violation("C09.R4", q, short(c, 100), "a collection is constructed over rule objects of another collection with reference resolution on: the constructor resets their backreferences and by-reference disabled output — a rule referenced without generate emits its own query once a filter that names rules has looked it up", loc)
    for q, f in sorted(prog.funcs.items()):
        if f.module.name.startswith("sigma.") and q != cr.qual:
            for c in (x for x in walk_no_nested(f.node) if isinstance(x, ast.Call) and call_name(x).endswith(".reset_references")):
                r.violation("C09.R4", q, short(c, 80), "reference state is reset outside a resolution", f"{f.module.relpath}:{c.lineno}")
    from .c08 import _slot_functions
    from .standins import run_per_rule_converter
    for q in _slot_functions(ctx):
        f = prog.func(q)
        fn = q.rsplit(".", 1)[-1]
        # the per-rule converter interpreted (sa.tabulate, Proxy) on a stand-in rule with the switch on and off
        bad = []
        for fin_sub in (False, True):
            for referenced in (False, True):
                for output in (False, True):
                    o = run_per_rule_converter(ctx, fn, fin_sub, referenced, output)
                    if o.raised is not None or bool(list(o.ret or [])) != output:
                        bad.append(f"_output={output}, referenced={referenced}, backend finalises sub-queries={fin_sub}: " + (f"raises {o.raised}" if o.raised is not None else f"returns {o.ret!r}"))
        if not bad:
            r.ok("C09.R4", q, "queries are returned exactly under rule._output (8 interpreted cases)", f.loc)
        else:
            r.violation("C09.R4", q, f"return of the queries: {bad[0]}", "queries returned without testing rule._output", f.loc)
    # finalisation of sub-queries depends on backreferences only
    r.floor("C09.R4", 4)


def r6_lookup_table(ctx, rid: str = "C09.R6") -> None:
    """A rule is found by its id or by its name, whatever the name looks like. SigmaCollection.__getitem__ interpreted
    (sa.tabulate; uuid.UUID is the only library object) on a stand-in collection."""
    from uuid import UUID
    from ..tabulate import Interp, Raised
    r, prog = ctx.r, ctx.prog
    r.rule(rid, "rule lookup by reference text: SigmaCollection.__getitem__, interpreted on a stand-in collection, finds a rule by its id in any UUID spelling, by its name — also a name that itself reads as a UUID (a 32-digit hex digest) —, and answers SigmaRuleNotFoundError for everything else")
    f = prog.func(COLL + ".__getitem__")
    uid = UUID("9a6b8f0e-3c1d-4e2a-8b7c-1d2e3f4a5f60")
    me = type("C", (), {})()
    me.rules = ["R1", "R2", "R3"]
    me.ids_to_rules = {uid: "R1"}
    me.names_to_rules = {"base": "R2", "d41d8cd98f00b204e9800998ecf8427e": "R3"}
    cases = [(str(uid), "R1"), (str(uid).upper(), "R1"), (uid, "R1"), ("base", "R2"), ("d41d8cd98f00b204e9800998ecf8427e", "R3"),
             ("nosuchrule", "<not found>"), ("00000000-0000-0000-0000-000000000000", "<not found>"), (1, "R2"), (7, "<not found>")]
    bad = []
    for key, want in cases:
        it = Interp({"self": me, "i": key, "UUID": UUID, "SigmaRuleNotFoundError": type("SigmaRuleNotFoundError", (Exception,), {}),
                     "ValueError": ValueError, "KeyError": KeyError, "IndexError": IndexError}, max_steps=300, behaviours=(ValueError, TypeError, AttributeError))
        try:
            got = it.call(f.node.body)
        except Raised as ex:
            got = "<not found>" if "SigmaRuleNotFoundError" in str(ex) else f"<raises {ex}>"
        if got != want:
            bad.append(f"[{key!r}] gives {got}, expected {want}")
    if bad:
        r.violation(rid, f.qual, f"lookup {bad[0]}", f"{len(bad)} of {len(cases)} interpreted lookups deviate: a reference (correlation `rules`, filter `rules`, alias keys) names a rule by id or by name; a name that parses as a UUID must still be found by name, and a miss is a SigmaRuleNotFoundError", f.loc)
    else:
        r.ok(rid, f.qual, f"{len(cases)} lookups (id spellings, names, UUID-like names, misses, positions) answer as specified", f.loc)
    r.floor(rid, 1)
