"""C17 — placeholders expand completely or conversion fails; never emitted as text."""
from __future__ import annotations

import ast
from typing import Optional

from ..prog import AnalysisError, FuncInfo, call_name, short, stmt_head, unparse, walk_no_nested
from ..util import assignments_to, atomic_guards, cfg_of, guards_at

T = "sigma.types"
PH = "sigma.processing.transformations.placeholder"


def run(ctx) -> None:
    r = ctx.r
    r.explanation = (
        "The 'never emitted as text' half and the hand-back mechanism decided on the source: every renderer that turns a Sigma "
        "string or regular expression into query text either goes through SigmaString.convert (whose Placeholder branch raises "
        "SigmaPlaceholderError naming the placeholder) or is dominated by an explicit placeholder check; text forms that print "
        "%name% (str()/to_plain()) reach query output nowhere else in the conversion modules; no handler on the way to "
        "convert_rule swallows the error; unhandled placeholders are yielded back; the cross product is the nested comprehension "
        "with the first placeholder outermost; an empty or wrongly typed replacement list is rejected; placeholder insertion works "
        "on the parts, not on the stale source text; replacement lists are not cached across rules. The set and order of "
        "expansions for concrete variable tables are not evaluated.")
    r1_renderers_refuse(ctx)
    r2_raising_branch(ctx)
    r3_hand_back(ctx)
    r4_replacement_validation(ctx)
    r5_stateless(ctx)
    from . import c05
    c05.r5_reparse_sites(ctx, "C17.R6", placeholders=True)
    r9_alternatives_under_all(ctx)
    r7_consuming_modifiers(ctx)
    r8_filters_honoured(ctx)


def r1_renderers_refuse(ctx) -> None:
    r, prog = ctx.r, ctx.prog
    r.rule("C17.R1", "every renderer of string/regex values refuses placeholders: it goes through SigmaString.convert or a dominating placeholder check; str()/to_plain() of a Sigma string (which prints %name%) never feeds query text in conversion code")
    # SigmaRegularExpression.escape
    esc = prog.func(T + ".SigmaRegularExpression.escape")
    # escape() interpreted (sa.tabulate, Proxy) on a stand-in expression with and without a placeholder part
    import re as _re
    from ..tabulate import Proxy, call_method, Raised
    Str, Cased, PHc, spc, senv = _string_standin(ctx)

    class SigmaPlaceholderError(Exception):
        def __init__(self, *a, **k): super().__init__(*a)

    env = dict(senv, SigmaPlaceholderError=SigmaPlaceholderError, re=_re, cast=lambda t, v: v)
    RX = T + ".SigmaRegularExpression"
    IK = {"behaviours": (SigmaPlaceholderError,), "max_steps": 8000}
    outs = {}
    for what, parts in (("placeholder in the middle", ["foo", PHc("p"), "bar"]), ("placeholder only", [PHc("p")]), ("no placeholder", ["foo.bar"])):
        me = Proxy(prog, RX, env, {"regexp": Str(parts), "flags": set()}, interp_kwargs=IK)
        try:
            outs[what] = call_method(prog, RX, "escape", me, env, ("/",), interp_kwargs=IK)
        except Raised as ex:
            outs[what] = "refused" if "SigmaPlaceholderError" in str(ex) else f"<raises {ex}>"
    if outs["placeholder in the middle"] == "refused" and outs["placeholder only"] == "refused" and isinstance(outs["no placeholder"], str) and not outs["no placeholder"].startswith("<"):
        r.ok("C17.R1", esc.qual, "str(self.regexp) only after the placeholder check that raises SigmaPlaceholderError (interpreted)", esc.loc)
    else:
        r.violation("C17.R1", esc.qual, f"regexp_str = str(self.regexp): {outs}",
                    "the regular expression is rendered through its text form, which prints an unresolved placeholder as %name%; no dominating check raises SigmaPlaceholderError: the query silently contains the raw placeholder text", esc.loc)
    # conversion code: str()/to_plain()/f-string of SigmaString-typed expressions
    n_sites = 0
    for q, f in sorted(prog.funcs.items()):
        if not f.module.name.startswith(("sigma.conversion", "sigma.backends")):
            continue
        for n in walk_no_nested(f.node):
            tgt = None
            if isinstance(n, ast.Call) and call_name(n) == "str" and n.args:
                tgt = n.args[0]
            elif isinstance(n, ast.Call) and isinstance(n.func, ast.Attribute) and n.func.attr in ("to_plain", "to_plain_regex", "__str__"):
                tgt = n.func.value
            elif isinstance(n, ast.FormattedValue):
                tgt = n.value
            if tgt is None:
                continue
            cls = ctx.types.class_names(f.module, tgt)
            if not any(c.endswith((".SigmaString", ".SigmaCasedString", ".SigmaRegularExpression")) for c in cls):
                continue
            n_sites += 1
            loc = f"{f.module.relpath}:{n.lineno}"
            st = prog.enclosing_stmt(n)
            # classification: boolean decision / error message / output
            in_raise = any(isinstance(a, ast.Raise) for a in [st] + list(prog.ancestors(n)))
            decision = any(isinstance(a, ast.Call) and (call_name(a).endswith((".match", ".search", ".fullmatch", "re.match", "re.search", "re.compile", "bool", "len")) or call_name(a).endswith("decide_string_quoting")) for a in prog.ancestors(n)) \
                or f.name in ("decide_string_quoting",)
            if in_raise:
                r.ok("C17.R1", q, f"{short(n, 50)} only inside an error message", loc)
            elif decision:
                r.ok("C17.R1", q, f"{short(n, 50)} feeds a boolean decision, not output", loc)
            else:
                gs = atomic_guards(guards_at(prog, f, n))
                if any("contains_placeholder" in g and p is False for g, p in gs):
                    r.ok("C17.R1", q, f"{short(n, 50)} under a no-placeholder guard", loc)
                else:
                    r.violation("C17.R1", q, short(st, 120), "text form of a Sigma string/regex (prints %name% for an unresolved placeholder) flows into conversion output without a placeholder check", loc)
    # the three value renderers go through convert()/escape()
    # (call graph: directly or through helpers)
    for fn, must in (("sigma.conversion.base.TextQueryBackend.convert_value_str", T + ".SigmaString.convert"), ("sigma.conversion.base.TextQueryBackend.convert_value_re", T + ".SigmaRegularExpression.escape"),
                     (T + ".SigmaString.to_regex", T + ".SigmaString.convert")):
        f = prog.func(fn)
        short_ = must.rsplit(".", 1)[-1]
        if must in ctx.cg.reachable([fn]):
            r.ok("C17.R1", fn, f"renders through {short_}()", f.loc)
        else:
            r.violation("C17.R1", fn, f"def {f.name}" if f.name != "to_regex" else "self.convert(...)", f"value renderer no longer goes through {short_}() (the placeholder-refusing renderer)" if f.name != "to_regex" else "to_regex bypasses convert() and with it the placeholder check", f.loc)
    r.analysed["C17.text_form_sites_in_conversion"] = n_sites
    r.floor("C17.R1", 4)


def r2_raising_branch(ctx) -> None:
    r, prog = ctx.r, ctx.prog
    r.rule("C17.R2", "SigmaString.convert raises SigmaPlaceholderError naming the placeholder for every Placeholder part, on every branch; nothing between it and convert_rule swallows it")
    cv = prog.func(T + ".SigmaString.convert")
    # convert() interpreted (sa.tabulate) on stand-in strings that hold a placeholder at the start, in the middle, at the end,
    # alone, next to wildcards — under configurations that take the fast paths of the string branch
    from ..tabulate import Raised
    Str, Cased, PHc, spc, senv = _string_standin(ctx)

    class SigmaPlaceholderError(Exception):
        def __init__(self, *a, **k): super().__init__(*a)

    class SigmaValueError(Exception):
        def __init__(self, *a, **k): super().__init__(*a)

    senv.update({"SigmaPlaceholderError": SigmaPlaceholderError, "SigmaValueError": SigmaValueError})
    bad = []
    n = 0
    for parts in ([PHc("user")], ["a", PHc("user")], [PHc("user"), "b"], ["a", PHc("user"), "b"], ["a", spc.WILDCARD_MULTI, PHc("user")], ["a", PHc("x"), "b", PHc("user")]):
        for args in (("\\", "*", "?", "", ""), (None, "*", "?", "", ""), ("\\", "*", "?", "\"", "x"), ("\\", None, None, "", "")):
            if args[1] is None and any(p_ is spc.WILDCARD_MULTI for p_ in parts):
                continue  # a wildcard the target cannot express is refused first, as a value error
            n += 1
            try:
                out = Str(parts).call("convert", *args)
                bad.append(f"parts {parts}, convert{args}: gives {out!r}")
            except Raised as ex:
                first = next(p_.name for p_ in parts if isinstance(p_, PHc))
                if "SigmaPlaceholderError" not in str(ex):
                    bad.append(f"parts {parts}, convert{args}: raises {ex}")
                elif getattr(ex, "exc", None) is not None and first not in str(ex.exc) and "user" not in str(ex.exc):
                    bad.append(f"parts {parts}: the error does not name the placeholder ({ex.exc})")
    if not bad:
        r.ok("C17.R2", cv.qual, f"Placeholder part → SigmaPlaceholderError naming it ({n} interpreted cases: every position, fast-path configurations included)", cv.loc)
        r.ok("C17.R2", cv.qual, "no result is returned for a value that holds a placeholder", cv.loc)
    else:
        r.violation("C17.R2", cv.qual, f"elif isinstance(part, Placeholder): raise SigmaPlaceholderError(...part.name...) — {bad[0]}", f"{len(bad)} of {n} cases: the raising branch for Placeholder parts is missing, does not name the placeholder, or a result is returned without walking the parts (fast path): placeholders in such values are not refused", cv.loc)
    pe = "sigma.exceptions.SigmaPlaceholderError"
    if pe in prog.classes and "sigma.exceptions.SigmaError" in prog.mro(pe):
        r.ok("C17.R2", pe, "SigmaPlaceholderError is a SigmaError (collected/raised by convert_rule)")
    else:
        r.violation("C17.R2", pe, "class SigmaPlaceholderError", "placeholder error is not part of the Sigma error hierarchy")
    from . import c08
    c08.r5_no_swallowing_handlers(ctx, "C17.R2")
    r.floor("C17.R2", 4)


def r3_hand_back(ctx) -> None:
    r, prog = ctx.r, ctx.prog
    r.rule("C17.R3", "partial handling hands placeholders back: the base callback yields the placeholder itself when it is not handled; include/exclude are exclusive; replace_placeholders builds the cross product with the first placeholder outermost and recurses over the suffix; placeholder insertion works on the parts")
    # both interpreted (sa.tabulate, Proxy) over the include/exclude configurations
    import types as _types
    from ..tabulate import Proxy, call_method, Raised
    f = prog.func(PH + ".BasePlaceholderTransformation.placeholder_replacements_base")
    ih = prog.func(PH + ".PlaceholderIncludeExcludeMixin.is_handled_placeholder")
    MX = PH + ".PlaceholderIncludeExcludeMixin"
    BP = PH + ".BasePlaceholderTransformation"
    bad_ih, bad_base = [], []
    for include, exclude in ((None, None), (["a"], None), (None, ["a"]), ([], None), (None, []), (["a", "b"], None), (None, ["a", "b"])):
        for name in ("a", "b", "c"):
            p_ = _types.SimpleNamespace(name=name)
            want = (include is None and exclude is None) or (include is not None and name in include) or (exclude is not None and name not in exclude)
            try:
                got = call_method(prog, MX, "is_handled_placeholder", Proxy(prog, MX, {}, {"include": include, "exclude": exclude}, interp_kwargs={"max_steps": 2000}), {}, p_, interp_kwargs={"max_steps": 2000})
            except Raised as ex:
                got = f"<raises {ex}>"
            if got is not want:
                bad_ih.append(f"include={include}, exclude={exclude}, placeholder {name!r}: {got!r} instead of {want}")
            for handled in (True, False):
                me = Proxy(prog, BP, {}, {"include": include, "exclude": exclude, "is_handled_placeholder": (lambda x, _h=handled: _h), "placeholder_replacements": (lambda x: iter(["r1", "r2"]))}, interp_kwargs={"max_steps": 2000})
                try:
                    out = list(call_method(prog, BP, "placeholder_replacements_base", me, {}, p_, interp_kwargs={"max_steps": 2000}))
                except Raised as ex:
                    out = f"<raises {ex}>"
                okb = out == ["r1", "r2"] if handled else (isinstance(out, list) and len(out) == 1 and out[0] is p_)
                if not okb:
                    bad_base.append(f"placeholder {'handled' if handled else 'not handled'}: yields {out!r}")
    if not bad_base:
        r.ok("C17.R3", f.qual, "handled → replacements, otherwise → the placeholder itself (interpreted)", f.loc)
    else:
        r.violation("C17.R3", f.qual, f"if self.is_handled_placeholder(p): yield from replacements else: yield p — {bad_base[0]}", "an unhandled placeholder is not handed back unchanged (it would be dropped or replaced)", f.loc)
    if not bad_ih:
        r.ok("C17.R3", ih.qual, "no lists → all; include → members; exclude → non-members (interpreted: 7 configurations x 3 names)", ih.loc)
    else:
        r.violation("C17.R3", ih.qual, bad_ih[0], "include/exclude decision differs from: no lists → every placeholder, include → listed ones, exclude → all but listed", ih.loc)
    for cq in prog.subclasses(PH + ".PlaceholderIncludeExcludeMixin", strict=True):
        c = prog.classes[cq]
        pi = c.methods.get("__post_init__")
        if pi is None:
            continue
        if PH + ".PlaceholderIncludeExcludeMixin.check_exclusivity" in ctx.cg.reachable([pi.qual]):
            r.ok("C17.R3", pi.qual, "check_exclusivity() on construction (directly or through super().__post_init__())", pi.loc)
        else:
            r.violation("C17.R3", pi.qual, "self.check_exclusivity()", "include and exclude given together are no longer rejected", pi.loc)
    rp = prog.func(T + ".SigmaString.replace_placeholders")
    _r3_string_expansion(ctx, rp)
    rr = prog.func(T + ".SigmaRegularExpression.replace_placeholders")
    _r3_regex_expansion(ctx, rr)
    ip = prog.func(T + ".SigmaString.insert_placeholders")
    _r3_insertion(ctx, ip)
    r.floor("C17.R3", 8)


def r4_replacement_validation(ctx) -> None:
    r, prog = ctx.r, ctx.prog
    r.rule("C17.R4", "value-list replacement: a missing variable, an empty list or a non-string/number element is a SigmaValueError (never a silently vanishing value); values are wrapped as SigmaString(str(v)) in configuration order")
    f = prog.func(PH + ".ValueListPlaceholderTransformation.placeholder_replacements")
    loc = f.loc
    # interpreted (sa.tabulate, Proxy) over the variables a pipeline may hold
    import types as _types
    from ..tabulate import Proxy, call_method, Raised
    VL = PH + ".ValueListPlaceholderTransformation"

    class SigmaValueError(Exception):
        def __init__(self, *a, **k): super().__init__(*a)

    class SigmaString:
        def __init__(self, t=None): self.t = t

    env = {"SigmaValueError": SigmaValueError, "SigmaString": SigmaString}
    IK = {"behaviours": (SigmaValueError,), "max_steps": 4000}
    variables = {"list": ["a", 2, 3.5], "single": "x", "number": 7, "empty": [], "bad": ["a", None], "bad2": [["nested"]], "badsingle": {"k": 1}, "bool": [True]}
    want = {"list": ["a", "2", "3.5"], "single": ["x"], "number": ["7"], "empty": "error", "bad": "error", "bad2": "error", "badsingle": "error", "missing": "error"}
    outs = {}
    for name in want:
        me = Proxy(prog, VL, env, {"_pipeline": _types.SimpleNamespace(vars=dict(variables)), "include": None, "exclude": None}, interp_kwargs=IK)
        try:
            res = call_method(prog, VL, "placeholder_replacements", me, env, _types.SimpleNamespace(name=name), interp_kwargs=IK)
            res = list(res)
            outs[name] = [x.t for x in res] if all(isinstance(x, SigmaString) for x in res) else repr(res)
        except Raised as ex:
            outs[name] = "error" if "SigmaValueError" in str(ex) else f"<raises {ex}>"
    if outs.get("missing") == "error":
        r.ok("C17.R4", f.qual, "unknown variable → SigmaValueError", loc)
    else:
        r.violation("C17.R4", f.qual, f"values = self._pipeline.vars[p.name] / except KeyError: unknown variable gives {outs.get('missing')!r}", "an unknown variable is not reported as SigmaValueError", loc)
    tc = {k: outs[k] for k in ("empty", "bad", "bad2", "badsingle")}
    if all(v == "error" for v in tc.values()):
        r.ok("C17.R4", f.qual, "values that are not strings or numbers are refused — an empty list as well", loc)
    elif tc["empty"] != "error":
        r.violation("C17.R4", f.qual, f"type check of the replacement values: an empty list gives {tc['empty']!r}",
                    "the check accepts an empty replacement list (all([]) is True): the cross product is then empty and the value silently disappears from the rule instead of failing", loc)
    else:
        r.violation("C17.R4", f.qual, f"type check of the replacement values: {tc}", "replacement values are not type checked", loc)
    rv = {k: outs[k] for k in ("list", "single", "number")}
    if rv == {k: want[k] for k in rv}:
        r.ok("C17.R4", f.qual, "[SigmaString(str(v)) for v in values] — configuration order, a single value counts as a list of one", loc)
    else:
        r.violation("C17.R4", f.qual, f"return: {rv}", f"replacements must be SigmaString(str(v)) for every configured value, in order (expected {dict((k, want[k]) for k in rv)})", loc)
    # the remaining placeholder transformations interpreted (sa.tabulate, Proxy) on stand-in strings
    class SpecialChars:
        def __init__(self, n): self.n = n
    SpecialChars.WILDCARD_MULTI, SpecialChars.WILDCARD_SINGLE = SpecialChars("*"), SpecialChars("?")
    class Placeholder:
        def __init__(self, name): self.name = name
    class SigmaQueryExpression:
        def __init__(self, *a, **k): self.a, self.k = a, k
    class SigmaRegularExpression:
        kind = "regex"
    class _Val(SigmaString):
        kind = "string"
        def __init__(self, parts, handled=True):
            self.s, self.handled, self.asked, self.cbs = list(parts), handled, [], []
        def contains_placeholder(self, include=None, exclude=None):
            self.asked.append((include, exclude))
            return self.handled and any(isinstance(x_, Placeholder) for x_ in self.s)
        def replace_placeholders(self, cb):
            self.cbs.append(cb)
            return ["EXPANDED", self]
    class _Rx(SigmaRegularExpression, _Val):
        pass
    env2 = dict(env, SpecialChars=SpecialChars, Placeholder=Placeholder, SigmaQueryExpression=SigmaQueryExpression, SigmaRegularExpression=SigmaRegularExpression)
    w = prog.func(PH + ".WildcardPlaceholderTransformation.placeholder_replacements")
    WQ = PH + ".WildcardPlaceholderTransformation"
    try:
        gotw = list(call_method(prog, WQ, "placeholder_replacements", Proxy(prog, WQ, env2, {"include": None, "exclude": None, "_pipeline": None}, interp_kwargs=IK), env2, Placeholder("p"), interp_kwargs=IK))
    except Raised as ex:
        gotw = f"raises {ex}"
    if isinstance(gotw, list) and len(gotw) == 1 and gotw[0] is SpecialChars.WILDCARD_MULTI:
        r.ok("C17.R4", w.qual, "wildcard transformation → [WILDCARD_MULTI]", w.loc)
    else:
        r.violation("C17.R4", w.qual, f"placeholder_replacements → {gotw!r}", "wildcard placeholder transformation must replace by exactly one multi-character wildcard", w.loc)
    qe = prog.func(PH + ".QueryExpressionPlaceholderTransformation.apply_string_value")
    QQ = PH + ".QueryExpressionPlaceholderTransformation"
    outs_q = {}
    for nm_q, parts_q, handled_q, is_handled in (("placeholder only", [Placeholder("a")], True, True), ("placeholder only, mapped name", [Placeholder("m")], True, True), ("text and placeholder", ["x", Placeholder("a")], True, True),
                                                 ("two placeholders", [Placeholder("a"), Placeholder("b")], True, True), ("no placeholder", ["x"], True, True), ("placeholder of another item", [Placeholder("a")], False, False),
                                                 ("placeholder only, not handled by name", [Placeholder("a")], True, False)):
        meq = Proxy(prog, QQ, env2, {"include": None, "exclude": None, "_pipeline": None, "expression": "EXPR", "mapping": {"m": "mapped"}, "is_handled_placeholder": lambda p_, _h=is_handled: _h}, interp_kwargs=IK)
        try:
            oq = call_method(prog, QQ, "apply_string_value", meq, env2, "f", _Val(parts_q, handled_q), interp_kwargs=IK)
            outs_q[nm_q] = ("query", oq.a) if isinstance(oq, SigmaQueryExpression) else oq
        except Raised as ex:
            outs_q[nm_q] = "error" if "SigmaValueError" in str(ex) else f"raises {ex}"
    want_q = {"placeholder only": ("query", ("EXPR", "a")), "placeholder only, mapped name": ("query", ("EXPR", "mapped")), "text and placeholder": "error", "two placeholders": "error", "no placeholder": None,
              "placeholder of another item": None, "placeholder only, not handled by name": None}
    if outs_q == want_q:
        r.ok("C17.R4", qe.qual, "query expression only for placeholder-only strings; mixed strings → SigmaValueError (interpreted on 7 strings)", qe.loc)
    else:
        r.violation("C17.R4", qe.qual, f"apply_string_value: { {k_: v_ for k_, v_ in outs_q.items() if want_q[k_] != v_} }", "query-expression placeholders must be placeholder-only strings, handled per include/exclude, else SigmaValueError", qe.loc)
    av = prog.func(PH + ".BasePlaceholderTransformation.apply_value")
    BQ = PH + ".BasePlaceholderTransformation"
    bad_av = []
    for val_a, want_kind in ((_Val([Placeholder("a")]), "expanded"), (_Rx([Placeholder("a")]), "expanded"), (_Val(["x"]), None), (_Val([Placeholder("a")], handled=False), None), (5, None), (None, None)):
        seen_p: list = []
        mea = Proxy(prog, BQ, env2, {"include": ("inc",), "exclude": ("exc",), "_pipeline": None, "placeholder_replacements_base": lambda p_, _s=seen_p: (_s.append(p_), iter(["R"]))[1]}, interp_kwargs=IK)
        try:
            oa = call_method(prog, BQ, "apply_value", mea, env2, "f", val_a, interp_kwargs=IK)
        except Raised as ex:
            bad_av.append(f"{getattr(val_a, 'kind', type(val_a).__name__)} value: raises {ex}")
            continue
        if want_kind is None:
            if oa is not None:
                bad_av.append(f"{getattr(val_a, 'kind', type(val_a).__name__)} value without a placeholder of this item: {oa!r} instead of None")
        else:
            cb_ok = len(val_a.cbs) == 1 and (list(val_a.cbs[0]("P")) == ["R"]) and seen_p == ["P"]
            if oa != ["EXPANDED", val_a] or not cb_ok or val_a.asked[:1] != [(("inc",), ("exc",))]:
                bad_av.append(f"{val_a.kind} value with a handled placeholder: result {oa!r}, include/exclude asked {val_a.asked[:1]}, callback is the base callback: {cb_ok}")
    if not bad_av:
        r.ok("C17.R4", av.qual, "strings and regular expressions with a handled placeholder are expanded through the base callback; anything else is passed on (interpreted)", av.loc)
    else:
        r.violation("C17.R4", av.qual, "apply_value", f"apply_value no longer expands both strings and regular expressions through placeholder_replacements_base: {bad_av[0]}", av.loc)
    r.floor("C17.R4", 6)


def r5_stateless(ctx) -> None:
    r, prog = ctx.r, ctx.prog
    r.rule("C17.R5", "placeholder transformations keep no replacement state across rules: no attribute of the transformation is written while values are replaced (variables are read from the pipeline each time)")
    n = 0
    for cq in prog.subclasses(PH + ".BasePlaceholderTransformation") + [PH + ".QueryExpressionPlaceholderTransformation"]:
        c = prog.classes.get(cq)
        if c is None or c.module.name.endswith(".external"):
            continue  # external-source caching is C15/C16's subject (gated, per instance by design)
        for name, f in c.methods.items():
            if name in ("__post_init__", "__init__"):
                continue
            n += 1
            stores = [x for x in walk_no_nested(f.node) if isinstance(x, ast.Attribute) and isinstance(x.ctx, (ast.Store, ast.Del)) and unparse(x.value) == "self"]
            muts = [x for x in walk_no_nested(f.node) if isinstance(x, ast.Call) and isinstance(x.func, ast.Attribute) and unparse(x.func.value).startswith("self.") and x.func.attr in ("setdefault", "update", "append", "add", "__setitem__")] + \
                   [x for x in walk_no_nested(f.node) if isinstance(x, ast.Subscript) and isinstance(x.ctx, ast.Store) and unparse(x.value).startswith("self.")]
            if stores or muts:
                x = (stores + muts)[0]
                r.violation("C17.R5", f.qual, short(prog.enclosing_stmt(x), 100), "replacement results are cached on the transformation object: a later conversion with another variable table (or a removed variable) still gets the earlier values", f"{f.module.relpath}:{x.lineno}")
            else:
                r.ok("C17.R5", f.qual, "no instance state written", f.loc)
    r.floor("C17.R5", 5)


def r7_consuming_modifiers(ctx) -> None:
    r, prog = ctx.r, ctx.prog
    r.rule("C17.R7", "modifiers that turn the characters of a value into other characters (base64, base64offset, wide, utf16be, utf16) refuse a value that still contains a placeholder: encoding the text %name% or passing the placeholder through unencoded consumes it without replacement or refusal")
    M = "sigma.modifiers"
    from .c04 import modifier_outcome, PlaceholderPart
    for cn in ("SigmaBase64Modifier", "SigmaBase64OffsetModifier", "SigmaWideModifier", "SigmaUTF16BEModifier", "SigmaUTF16Modifier"):
        f = prog.lookup_method(f"{M}.{cn}", "modify")
        if f is None:
            raise AnalysisError(f"anchor vanished: {M}.{cn}.modify")
        bad = []
        for parts in (["p=", PlaceholderPart("a")], [PlaceholderPart("a")], ["x", PlaceholderPart("a"), "y"]):
            kind, got = modifier_outcome(ctx, cn, parts)
            if kind != "refused":
                bad.append(f"modify({parts!r}) → {kind} {got!r}")
        if not bad:
            r.ok("C17.R7", f.qual, "interpreted: a value with a placeholder part is refused with a Sigma error", f.loc)
        elif "Base64" in cn:
            r.violation("C17.R7", f.qual, f"bytes(val) without a placeholder check: {bad[0]}", "f|expand|base64: 'p=%a%' converts to the Base64 of the literal text p=%a%: the placeholder is destroyed when the rule is loaded, neither replaced nor refused", f.loc)
        else:
            r.violation("C17.R7", f.qual, f"placeholders pass through: {bad[0]}", "f|expand|wide: 'user=%user%' yields UTF-16 text around a placeholder that is later replaced by single-byte text: a mixture that matches nothing, without any error", f.loc)
    r.floor("C17.R7", 5)


def r8_filters_honoured(ctx) -> None:
    r, prog = ctx.r, ctx.prog
    r.rule("C17.R8", "a placeholder transformation only looks at the placeholders it is responsible for: every contains_placeholder() test inside a transformation with include/exclude lists passes them on (another item's placeholder in the same value is neither replaced nor a reason to fail)")
    n = 0
    holders = [cq for cq, ci in prog.classes.items() if ci.module.name.startswith("sigma.processing.transformations") and {"include", "exclude"} <= set(prog.dataclass_fields(cq))]
    if len(holders) < 4:
        raise AnalysisError(f"only {len(holders)} transformation classes with include/exclude lists found")
    for cq in sorted(holders):
        for name, f in sorted(prog.cls(cq).methods.items()):
            for c in walk_no_nested(f.node):
                if isinstance(c, ast.Call) and isinstance(c.func, ast.Attribute) and c.func.attr == "contains_placeholder":
                    n += 1
                    args = [unparse(a) for a in c.args] + [f"{k.arg}={unparse(k.value)}" for k in c.keywords]
                    loc = f"{f.module.relpath}:{c.lineno}"
                    if args in (["self.include", "self.exclude"], ["include=self.include", "exclude=self.exclude"]):
                        r.ok("C17.R8", f.qual, f"{short(c, 70)}", loc)
                    else:
                        r.violation("C17.R8", f.qual, short(c, 80), "the test considers every placeholder of the value, also those excluded from this item: with include: [a] a value 'foo%b%' makes query_expression_placeholders abort the conversion although %b% is resolved by a later item", loc)
    r.floor("C17.R8", 2)


from .standins import string_standin as _string_standin  # noqa: E402


def _r3_string_expansion(ctx, rp: FuncInfo) -> None:
    """SigmaString.replace_placeholders interpreted on a<p1>b<p2>c with two replacements for p1 and three for p2 (one of
    them p2 itself, handed back): the result is the full cross product, first placeholder outermost, parts in place, the
    string class kept; a string without placeholders comes back alone."""
    from ..tabulate import Raised
    r = ctx.r
    Str, CasedStr, Placeholder, sc, env = _string_standin(ctx)
    p1, p2 = Placeholder("p1"), Placeholder("p2")

    def cb(p):
        return iter(["1", "2"]) if p is p1 else iter(["x", sc.WILDCARD_MULTI, p])
    src = CasedStr(["a", p1, "b", p2, "c"])
    try:
        out = src.replace_placeholders(cb)
        plain = Str(["abc", sc.WILDCARD_MULTI])
        alone = plain.replace_placeholders(cb)
    except Raised as ex:
        r.violation("C17.R3", rp.qual, "replace_placeholders on a%p1%b%p2%c", f"raises {ex}", rp.loc)
        return
    got = [("".join(repr(x) if not isinstance(x, str) else x for x in o.s), type(o).__name__) for o in out] if isinstance(out, list) and all(isinstance(o, Str) for o in out) else repr(out)
    want = [(f"a{a}b{b}c", "CasedStr") for a in ("1", "2") for b in ("x", "<*>", "%p2%")]
    if got == want:
        r.ok("C17.R3", rp.qual, "interpreted: a%p1%b%p2%c expands to the full cross product, first placeholder outermost, handed-back placeholder kept in place, string class kept", rp.loc)
    else:
        r.violation("C17.R3", rp.qual, f"cross product: a%p1%b%p2%c gives {got}", f"specified {want}: the expansion is not the full cross product with the first placeholder outermost and the recursion over the suffix (placeholders are expanded from left to right)", rp.loc)
    # the first placeholder is handed back alone (another item's business), the second one is replaced
    def cb2(p):
        return iter([p]) if p is p1 else iter(["x", "y"])
    try:
        out2 = CasedStr(["a", p1, "b", p2, "c"]).replace_placeholders(cb2)
        got2 = ["".join(repr(x) if not isinstance(x, str) else x for x in o.s) for o in out2]
    except Raised as ex:
        got2 = f"raises {ex}"
    if got2 == ["a%p1%bxc", "a%p1%byc"]:
        r.ok("C17.R3", rp.qual, "a handed-back first placeholder does not stop the expansion of the following ones", rp.loc)
    else:
        r.violation("C17.R3", rp.qual, f"a%p1%b%p2%c with p1 handed back gives {got2}", "specified ['a%p1%bxc', 'a%p1%byc']: the recursion over the suffix must take place whatever the callback yields for the first placeholder", rp.loc)
    if isinstance(alone, list) and len(alone) == 1 and alone[0] is plain:
        r.ok("C17.R3", rp.qual, "a string without placeholders is returned alone and unchanged", rp.loc)
    else:
        r.violation("C17.R3", rp.qual, f"string without placeholders gives {alone!r}", "a string without placeholders must be returned alone and unchanged", rp.loc)


def _r3_insertion(ctx, ip: FuncInfo) -> None:
    """SigmaString.insert_placeholders interpreted on the parts ['foo%a%bar\\%x%b%', <*>, '%c%', '', 'plain']: unescaped
    %name% become placeholders in place, an escaped percent becomes a literal one, special parts are kept, the stale
    `original` text is not consulted and the receiver is left alone."""
    from ..tabulate import Raised
    r = ctx.r
    Str, CasedStr, Placeholder, sc, env = _string_standin(ctx)
    parts = ["foo%a%bar\\%x%b%", sc.WILDCARD_MULTI, "%c%", "plain", "50\\%"]
    src = CasedStr(parts)
    try:
        out = src.insert_placeholders()
        for stale in ("", "no percent here"):  # what `original` holds for strings rebuilt by earlier modifiers
            src0 = CasedStr(parts)
            src0.original = stale
            out0 = src0.insert_placeholders()
            if not (isinstance(out0, Str) and [type(x) for x in out0.s] == [type(x) for x in out.s]):
                out = out0
                break
    except Raised as ex:
        r.violation("C17.R3", ip.qual, "insert_placeholders", f"raises {ex}", ip.loc)
        return
    got = [("%" + x.name + "%" if isinstance(x, Placeholder) else x) for x in out.s] if isinstance(out, Str) else repr(out)
    want = ["foo", "%a%", "bar%x", "%b%", sc.WILDCARD_MULTI, "%c%", "plain", "50%"]
    kinds_ok = isinstance(out, Str) and [isinstance(x, Placeholder) for x in out.s] == [False, True, False, True, False, True, False, False]
    if got == want and kinds_ok and type(out) is CasedStr:
        r.ok("C17.R3", ip.qual, "placeholders are inserted by walking the parts (interpreted): unescaped %name% → placeholder in place, \\% → %, special parts kept, `original` not consulted", ip.loc)
    else:
        r.violation("C17.R3", ip.qual, f"insert_placeholders on {parts} gives {got}", f"specified {want}: placeholder insertion must work on the parts (self.original is empty/stale for strings rebuilt by earlier modifiers (contains|expand …): %name% stays literal text), walk all of them and keep special parts", ip.loc)
    if src.s == parts and out is not src and not any(out is x for x in (src,)):
        r.ok("C17.R3", ip.qual, "the receiver keeps its parts (the result is a new string)", ip.loc)
    else:
        r.violation("C17.R3", ip.qual, "insert_placeholders changes the string it is called on", "the given string may be the original value of a detection item that is kept for conversion back into a plain data structure", ip.loc)


def _r3_regex_expansion(ctx, rr: FuncInfo) -> None:
    """SigmaRegularExpression.replace_placeholders interpreted (sa.tabulate) on a stand-in expression 'foo%p%bar' with a
    callback that yields a multi-character wildcard, a single-character wildcard, text and a placeholder: every replacement
    must give one expression (cross product of the string expansion), with the flags of the original, and a wildcard must be
    written as the expression it stands for ('.*' / '.'), not as the bare character '*' / '?' (a quantifier in a regex)."""
    from ..tabulate import Interp, Raised
    r = ctx.r

    class SpecialChars:  # as the enumeration of the source: its members are instances of the class
        def __init__(self, ch):
            self.ch = ch

    _SC = SpecialChars
    MULTI, SINGLE = _SC("*"), _SC("?")
    SpecialChars.WILDCARD_MULTI, SpecialChars.WILDCARD_SINGLE = MULTI, SINGLE
    sc = SpecialChars

    class _PH:
        def __init__(self, name):
            self.name = name

    class _S:  # SigmaString stand-in: parts are text, wildcards or placeholders
        def __init__(self, t="", escape=True):
            # the text is parsed: '*' and '?' are wildcard parts (a backslash protects them when escaping is on)
            self.parts = []
            acc, i = "", 0
            while i < len(t):
                c = t[i]
                if escape and c == "\\" and i + 1 < len(t) and t[i + 1] in "*?\\":
                    acc += t[i + 1]
                    i += 2
                    continue
                if c in "*?":
                    if acc:
                        self.parts.append(acc)
                        acc = ""
                    self.parts.append(MULTI if c == "*" else SINGLE)
                else:
                    acc += c
                i += 1
            if acc:
                self.parts.append(acc)

        def __add__(self, o):
            n = _S()
            n.parts = self.parts + (o.parts if isinstance(o, _S) else [o])
            return n

        def __radd__(self, o):
            n = _S()
            n.parts = [o] + self.parts
            return n

        def __str__(self):
            # the plain form: a wildcard character inside a text part is a literal one and printed escaped
            return "".join(p.replace("*", "\\*").replace("?", "\\?") if isinstance(p, str) else (p.ch if isinstance(p, _SC) else f"%{p.name}%") for p in self.parts)

        def contains_placeholder(self, *a, **k):
            return any(isinstance(p, _PH) for p in self.parts)

        def replace_placeholders(self, cb):
            out = []
            for rep in cb(_PH("p")):
                out.append(_S("%lit%foo") + rep + _S("bar"))   # '%lit%' is literal text (an escaped \\%lit\\% of the rule)
            return out

    made = []

    class _RX:
        def __init__(self, text, flags=None, *a, **k):
            self.text, self.flags, self.ph = text, flags, False
            made.append(self)

        def insert_placeholders(self):
            self.ph = True
            return self

    def cb(p):
        return iter([MULTI, SINGLE, "abc", _PH("q")])
    from ..tabulate import Proxy, ClassProxy, call_method
    from functools import partial as _partial
    RXQ = rr.cls.qual
    env3 = {"SigmaString": _S, "SpecialChars": sc, "Placeholder": _PH, "partial": _partial}
    env3["SigmaRegularExpression"] = ClassProxy(ctx.prog, RXQ, env3, ctor=_RX, interp_kwargs={"max_steps": 5000})  # class attributes from the source, instances recorded
    me = Proxy(ctx.prog, RXQ, env3, {"regexp": _S("foo%p%bar"), "flags": {"I"}}, ctor=_RX, interp_kwargs={"max_steps": 5000})
    try:
        out = call_method(ctx.prog, RXQ, rr.name, me, env3, cb, interp_kwargs={"max_steps": 5000})
        out = list(out) if out is not None else out
    except Raised as ex:
        r.violation("C17.R3", rr.qual, "replace_placeholders on 'foo%p%bar'", f"raises {ex}", rr.loc)
        return
    def kept(x):
        """placeholders of the result: as objects in the string the expression was built from, or by re-parsing printed
        text — which is only right if the literal percent pair was escaped in that text"""
        if isinstance(x.text, _S):
            return sorted(p_.name for p_ in x.text.parts if isinstance(p_, _PH))
        if x.ph:
            import re as _re
            return sorted(_re.findall(r"(?<!\\\\)%([^%\\\\]+)%", str(x.text)))
        return []
    got = [(str(x.text).replace("\\\\%", "%"), x.flags == {"I"}, kept(x)) for x in (out or [])]
    want = [("%lit%foo.*bar", True, []), ("%lit%foo.bar", True, []), ("%lit%fooabcbar", True, []), ("%lit%foo%q%bar", True, ["q"])]
    if got == want:
        r.ok("C17.R3", rr.qual, "regular expressions expand through the string cross product, keep their flags, write wildcards as '.*' / '.', keep handed-back placeholders as placeholders and literal percent pairs as text", rr.loc)
    else:
        r.violation("C17.R3", rr.qual, f"replace_placeholders on 'foo%p%bar' gives {got}",
                    f"specified {want} (text, flags kept, placeholders of the result): the literal text %lit% (written \\%lit\\% in the rule) must not become a placeholder when a handed-back placeholder is restored; a wildcard that replaces a placeholder inside a regular expression must be written as the expression it stands for — a bare '*' quantifies the preceding character (/foo*/ matches 'fo', not 'foobar') —, every replacement gives one expression and the flag set is kept", rr.loc)


def r9_alternatives_under_all(ctx) -> None:
    """`all` links the values the rule lists with AND; the replacements of one placeholder are alternatives for one of them."""
    from ..tabulate import Interp, Raised
    r, prog = ctx.r, ctx.prog
    r.rule("C17.R9", "the replacements of a placeholder stay OR-linked under the `all` modifier: BasePlaceholderTransformation.apply_detection_item, interpreted on an AND-linked item whose first value expands to two replacements, keeps them together in one SigmaExpansion (an OR) instead of splicing them into the AND-linked value list")
    q = PH + ".BasePlaceholderTransformation.apply_detection_item"
    if not prog.has_func(q):
        vt = prog.func("sigma.processing.transformations.base.ValueTransformation.apply_detection_item")
        r.violation("C17.R9", PH + ".BasePlaceholderTransformation", "apply_detection_item (inherited from ValueTransformation)",
                    "the replacements of a placeholder are spliced into the value list of the item (results.extend): under `all` the list is AND-linked, so `f|expand|all: '%a%'` with a = [x, y] converts to f=x and f=y, which no single-valued field satisfies", vt.loc)
        r.floor("C17.R9", 1)
        return
    f = prog.func(q)

    class AND:
        pass

    class OR:
        pass

    class _Exp:
        def __init__(self, values):
            self.values = list(values)

    def run(linking):
        item = type("I", (), {})()
        item.field, item.value_linking, item.value = "f", linking, ["%a%", "foo"]
        me = type("T", (), {})()
        me._apply_values = lambda field, values: ((["x", "y"], True) if values == ["%a%"] else (list(values), False)) if len(values) == 1 else (["x", "y", "foo"], True)
        base = type("B", (), {"apply_detection_item": lambda self_, it_: "DELEGATED"})()
        it = Interp({"self": me, "detection_item": item, "ConditionAND": AND, "ConditionOR": OR, "SigmaExpansion": _Exp, "super": lambda: base}, max_steps=2000)
        out = it.call(f.node.body)
        return out, item
    try:
        out, item = run(AND)
        shown = [v.values if isinstance(v, _Exp) else v for v in item.value]
        if out is item and shown == [["x", "y"], "foo"]:
            r.ok("C17.R9", f.qual, "AND-linked item: ['%a%', 'foo'] with a = [x, y] becomes [expansion(x, y), 'foo']", f.loc)
        else:
            r.violation("C17.R9", f.qual, f"AND-linked item after the transformation: {shown}", "specified [[x, y], foo]: the alternatives of one value must be kept together in an expansion (OR) when the values of the item are AND-linked", f.loc)
        # one value only: still alternatives of that value
        item1 = type("I", (), {})()
        item1.field, item1.value_linking, item1.value = "f", AND, ["%a%"]
        me1 = type("T", (), {})()
        me1._apply_values = lambda field, values: (["x", "y"], True)
        base1 = type("B", (), {"apply_detection_item": lambda self_, it_: (setattr(it_, "value", ["x", "y"]), it_)[1]})()
        Interp({"self": me1, "detection_item": item1, "ConditionAND": AND, "ConditionOR": OR, "SigmaExpansion": _Exp, "super": lambda: base1}, max_steps=2000).call(f.node.body)
        shown1 = [v.values if isinstance(v, _Exp) else v for v in item1.value]
        if shown1 == [["x", "y"]]:
            r.ok("C17.R9", f.qual, "AND-linked item with a single value: ['%a%'] becomes [expansion(x, y)]", f.loc)
        else:
            r.violation("C17.R9", f.qual, f"AND-linked item with one value after the transformation: {shown1}", "specified [[x, y]]: `f|contains|all|expand: '%admins%'` — the replacements of the only value are spliced into the AND-linked list (contains-all of every admin) instead of staying alternatives", f.loc)
        out, item = run(OR)
        if out == "DELEGATED" or [v.values if isinstance(v, _Exp) else v for v in item.value] in (["x", "y", "foo"], [["x", "y"], "foo"]):
            r.ok("C17.R9", f.qual, "OR-linked item: replacements join the (OR-linked) value list", f.loc)
        else:
            r.violation("C17.R9", f.qual, f"OR-linked item after the transformation: {item.value}", "replacements lost or reordered", f.loc)
    except Raised as ex:
        r.violation("C17.R9", f.qual, "apply_detection_item", f"raises {ex}", f.loc)
    r.floor("C17.R9", 2)
