"""C11 — a filter narrows exactly the rules it targets and nothing else."""
from __future__ import annotations

import ast
import re
from typing import Optional

from ..prog import AnalysisError, FuncInfo, call_name, short, stmt_head, unparse, walk_no_nested
from ..util import assignments_to, atomic_guards, cfg_of, const_eval, guards_at
from .c02 import _module_assign, _resolve_alias

F = "sigma.filters.SigmaFilter"
GRAMMAR_KEYWORDS = {"1", "any", "all", "of", "not", "and", "or"}


def regex_token_classes(pattern: str) -> tuple[set[str], set[str], bool]:
    """(first-char set, rest-char set, rest_optional) of a regex of the shape C1 C2* or C+ ."""
    import re._parser as sre  # type: ignore[import-not-found]
    import re._constants as sc  # type: ignore[import-not-found]
    p = sre.parse(pattern)
    items = list(p)

    def cls(op, av) -> set[str]:
        out: set[str] = set()
        if op is sc.IN:
            for o, a in av:
                if o is sc.LITERAL:
                    out.add(chr(a))
                elif o is sc.RANGE:
                    out |= {chr(c) for c in range(a[0], a[1] + 1)}
                elif o is sc.CATEGORY:
                    import string
                    if a is sc.CATEGORY_WORD:
                        out |= set(string.ascii_letters + string.digits + "_")
                    elif a is sc.CATEGORY_DIGIT:
                        out |= set(string.digits)
                    else:
                        raise AnalysisError(f"regex category {a} not supported")
                elif o is sc.NEGATE:
                    raise AnalysisError("negated class in token regex")
                else:
                    raise AnalysisError(f"regex class item {o} not supported")
        elif op is sc.LITERAL:
            out.add(chr(av))
        else:
            raise AnalysisError(f"regex item {op} not supported")
        return out

    if len(items) == 1 and items[0][0] is sc.MAX_REPEAT:
        lo, hi, sub = items[0][1]
        sub = list(sub)
        if lo >= 1 and len(sub) == 1:
            c = cls(*sub[0])
            return c, c, True
    if len(items) == 2 and items[1][0] is sc.MAX_REPEAT:
        first = cls(*items[0])
        lo, hi, sub = items[1][1]
        sub = list(sub)
        if lo == 0 and len(sub) == 1:
            return first, cls(*sub[0]), True
    raise AnalysisError(f"token regex {pattern!r} is not of the shape [first][rest]* or [class]+")


def run(ctx) -> None:
    r, prog = ctx.r, ctx.prog
    r.explanation = (
        "Structural necessary conditions of filter application decided on the source: the regex that re-tokenises the filter "
        "condition accepts exactly the token alphabet of the condition grammar (both extracted and compared as character sets), "
        "the keyword set equals the grammar's keywords and is compared case-sensitively, every mutation of the rule is dominated "
        "by the applicability test (log source containment in the documented direction, rule list), detection objects stored into "
        "a rule are fresh copies, the renaming mechanism is capture-free by construction (underscore prefix, every non-keyword "
        "token prefixed, both sides parenthesised) and filters are applied once, after merging. The boolean meaning of the "
        "filtered condition is not evaluated.")
    ap = prog.func(F + ".apply_on_rule")
    sh = prog.func(F + "._should_apply_on_rule")
    cm = prog.module("sigma.conditions")
    from .c02 import condition_grammar, grammar_alphabets
    ident_alpha, pat_alpha = (set(x) for x in grammar_alphabets(ctx, cm))
    token_alpha = ident_alpha | pat_alpha

    # ---------------------------------------------------------------- R1
    r.rule("C11.R1", "the regex that re-tokenises the filter condition accepts, as one token, exactly the token language of the condition grammar (first and following character classes = identifier ∪ pattern alphabet)")
    subs = [c for c in walk_no_nested(ap.node) if isinstance(c, ast.Call) and call_name(c) in ("re.sub", "re.finditer", "re.findall", "re.compile", "re.split") and c.args]
    if len(subs) != 1:
        raise AnalysisError(f"{ap.qual}: expected exactly one tokenising regex call (re.sub/finditer/findall/compile), found {len(subs)}")
    sub = subs[0]
    loc = f"{ap.module.relpath}:{sub.lineno}"
    try:
        pattern = const_eval(prog, ap.module, sub.args[0])
    except ValueError:
        raise AnalysisError(f"{ap.qual}: token regex is not a constant")
    first, rest, _ = regex_token_classes(pattern)
    r.analysed["C11.token_regex"] = pattern
    if first == token_alpha:
        r.ok("C11.R1", ap.qual, f"first-character class of {pattern!r} equals the grammar's token alphabet", loc)
    else:
        miss, extra = sorted(token_alpha - first), sorted(first - token_alpha)
        r.violation("C11.R1", ap.qual, f"token regex {pattern!r} (first character)",
                    f"a detection name or pattern may start with {miss[:12]} in the condition grammar, but the rewriting regex does not start a token there"
                    f"{' and accepts ' + str(extra) + ' which the grammar does not' if extra else ''}: the name is split and the rewritten condition refers to an undefined detection", loc)
    if rest == token_alpha:
        r.ok("C11.R1", ap.qual, f"following-character class of {pattern!r} equals the grammar's token alphabet", loc)
    else:
        miss, extra = sorted(token_alpha - rest), sorted(rest - token_alpha)
        r.violation("C11.R1", ap.qual, f"token regex {pattern!r} (following characters)",
                    f"characters {miss[:12]} may occur inside a name in the grammar but end a token for the rewriting regex (extra: {extra[:8]})", loc)
    text_arg = sub.args[2] if call_name(sub) == "re.sub" and len(sub.args) >= 3 else (sub.args[1] if len(sub.args) >= 2 else None)
    text_src = unparse(text_arg) if text_arg is not None else ""
    if isinstance(text_arg, ast.Name):
        defs = [unparse(v) for v in assignments_to(ap.node, text_arg.id) if isinstance(v, ast.AST)]
        text_src = defs[0] if len(defs) == 1 else text_src
    if text_src == "self.filter.condition[0]":
        r.ok("C11.R1", ap.qual, "tokenises self.filter.condition[0]", loc)
    else:
        r.violation("C11.R1", ap.qual, short(sub, 120), "the rewritten text is not the filter's condition string", loc)

    # ---------------------------------------------------------------- R2
    r.rule("C11.R2", "the rewriting treats exactly the grammar's keywords as keywords, case-sensitively and only where the grammar reads them as keywords: apply_on_rule interpreted on sample conditions (sa.tabulate, shared with C02.R6), incl. names that differ from a keyword by case only")
    from . import c02
    # grammar keywords re-derived from conditions.py (the sample table below is written for this set)
    gk = set()
    for g in condition_grammar(ctx, cm)[0]["condition"].walk():
        if g.kind in ("Keyword", "CaselessKeyword", "Literal", "CaselessLiteral"):
            gk.add(g.match)
    if gk == GRAMMAR_KEYWORDS:
        r.ok("C11.R2", "sigma.conditions", f"grammar keywords {sorted(gk)}")
    else:
        r.violation("C11.R2", "sigma.conditions", f"grammar keywords {sorted(gk)}", f"condition grammar keywords changed; the filter rewriting table {sorted(GRAMMAR_KEYWORDS)} no longer agrees")
    case_samples = [("not Or", "not P_Or"), ("NOT and Any", "P_NOT and P_Any"), ("not And", "not P_And"), ("All of x*", "P_All P_of P_x*"),
                    ("1 of Them", "1 of P_Them"), ("not flt or not OF", "not P_flt or not P_OF")]
    bad = c02.filter_rewrite_failures(ctx, c02.FILTER_SAMPLES + case_samples)
    if bad:
        cond, why = bad[0]
        r.violation("C11.R2", ap.qual, f"filter condition {cond!r}", f"{why} (+{len(bad) - 1} more sample(s)): a word the grammar reads as a detection name is left unprefixed (it then names a detection of the rule, or nothing), or a keyword is prefixed", ap.loc)
    else:
        r.ok("C11.R2", ap.qual, f"{len(c02.FILTER_SAMPLES) + len(case_samples)} sample conditions rewritten as the grammar reads them (keywords case-sensitive, positional)", ap.loc)

    # ---------------------------------------------------------------- R5 (callback + combination)
    r.rule("C11.R5", "capture-freedom mechanism: the drawn prefix starts with '_' and is drawn again while existing detection names start with it (interpreted with a colliding draw); detections are stored under prefix+'_'+name; both sides of the combined condition are parenthesised and joined by 'and'")
    pdefs = assignments_to(ap.node, "prefix")
    ploc = ap.loc
    ok_prefix = False
    if pdefs and all(isinstance(d_, ast.BinOp) and isinstance(d_.left, ast.Constant) and str(d_.left.value).startswith("_") for d_ in pdefs):
        ok_prefix = True
        ploc = f"{ap.module.relpath}:{pdefs[0].lineno}"
    if ok_prefix:
        r.ok("C11.R5", ap.qual, f"prefix = {short(pdefs[0], 80)}", ploc)
    else:
        r.violation("C11.R5", ap.qual, "prefix = '_filt_' + ...", "the injected prefix does not provably start with '_': rule selectors such as '1 of sel*'/'them' are only kept away from injected detections by the underscore rule", ploc)
    # a colliding draw is drawn again: interpreted with rules that already own names starting with the drawn prefix and a
    # random stand-in that returns x…x first and y…y afterwards (shared with C20.R4)
    probs = c02.prefix_redraw_failures(ctx)
    if probs:
        r.violation("C11.R5", ap.qual, "prefix collision", probs[0] + (f" (+{len(probs) - 1} more scenario(s))" if len(probs) > 1 else ""), ploc)
    else:
        r.ok("C11.R5", ap.qual, "a drawn prefix that existing detection names start with is drawn again (same name: nothing overwritten; other name: nothing captured)", ploc)
    # storing detections + combination
    stores = [n for n in walk_no_nested(ap.node) if isinstance(n, ast.Assign) and any(isinstance(t, ast.Subscript) and unparse(t.value) == "rule.detection.detections" for t in n.targets)]
    # the same store written as detections.update({key: value for ...}) — (key, value) taken from the comprehension
    bulk: list[tuple[ast.AST, ast.AST, ast.AST]] = []
    for c in walk_no_nested(ap.node):
        if isinstance(c, ast.Call) and call_name(c) == "rule.detection.detections.update" and c.args:
            a0 = c.args[0]
            if isinstance(a0, ast.DictComp):
                bulk.append((c, a0.key, a0.value))
            elif isinstance(a0, ast.Dict):
                bulk.extend((c, k, v) for k, v in zip(a0.keys, a0.values) if k is not None)
            else:
                bulk.append((c, a0, a0))
    for st in stores:
        key = unparse(st.targets[0].slice).replace('"', "'")  # type: ignore[attr-defined]
        sl = f"{ap.module.relpath}:{st.lineno}"
        if key in ("prefix + '_' + original_cond_name", "f'{prefix}_{original_cond_name}'"):
            r.ok("C11.R5", ap.qual, f"detections[{key}]", sl)
        else:
            r.violation("C11.R5", ap.qual, unparse(st), "filter detections are not stored under prefix + '_' + name (the rewritten condition would not find them)", sl)
    for c, k, v in bulk:
        sl = f"{ap.module.relpath}:{c.lineno}"
        kt = unparse(k).replace('"', "'")
        if kt.startswith("prefix + '_' + ") or kt.startswith("f'{prefix}_{"):
            r.ok("C11.R5", ap.qual, f"detections.update({{{kt}: …}})", sl)
        else:
            r.violation("C11.R5", ap.qual, short(c, 120), "filter detections are not stored under prefix + '_' + name (the rewritten condition would not find them)", sl)
    combos = [n for n in walk_no_nested(ap.node) if isinstance(n, ast.Assign) and any(isinstance(t, ast.Subscript) and unparse(t.value) == "rule.detection.condition" for t in n.targets)]
    for st in combos:
        sl = f"{ap.module.relpath}:{st.lineno}"
        txt = _fstring_shape(st.value)
        if txt == "({condition_str}) and ({filter_condition})":
            r.ok("C11.R5", ap.qual, f"condition[i] = {txt!r}", sl)
        else:
            r.violation("C11.R5", ap.qual, unparse(st), f"combined condition is {txt!r}; expected '(original) and (filter)' with both sides parenthesised (operator precedence would otherwise regroup the rule's own OR/AND)", sl)
    if not combos or not (stores or bulk):
        raise AnalysisError(f"{ap.qual}: detection store / condition combination not found")
    loops = [n for n in walk_no_nested(ap.node) if isinstance(n, ast.For) and unparse(n.iter) == "enumerate(rule.detection.condition)"]
    if loops:
        r.ok("C11.R5", ap.qual, "every condition of the rule is combined (loop over rule.detection.condition)", f"{ap.module.relpath}:{loops[0].lineno}")
    else:
        r.violation("C11.R5", ap.qual, "for i, condition_str in enumerate(rule.detection.condition)", "not every condition of the rule is combined with the filter", ap.loc)

    # ---------------------------------------------------------------- R3
    r.rule("C11.R3", "applicability precedes mutation: every store into the rule in apply_on_rule is dominated by _should_apply_on_rule(rule) being true and the rule not being a correlation rule; _should_apply_on_rule tests `rule.logsource in self.logsource` and the rule list")
    muts = stores + combos + [prog.enclosing_stmt(c) for c in walk_no_nested(ap.node) if isinstance(c, ast.Call) and call_name(c) == "rule.detection.__post_init__"]
    for st in muts:
        gs = atomic_guards(guards_at(prog, ap, st))
        sl = f"{ap.module.relpath}:{st.lineno}"
        if ("self._should_apply_on_rule(rule)", True) in gs and ("isinstance(rule, SigmaCorrelationRule)", False) in gs:
            r.ok("C11.R3", ap.qual, f"{stmt_head(st, 70)} — under should_apply ∧ ¬correlation", sl)
        else:
            r.violation("C11.R3", ap.qual, stmt_head(st, 120), f"rule is modified without the applicability test having succeeded (dominating facts: {gs})", sl)
    # _should_apply_on_rule decision structure
    rets = [x for x in walk_no_nested(sh.node) if isinstance(x, ast.Return)]
    facts = []
    for x in rets:
        gs = [(g.replace('"', "'"), p) for g, p in atomic_guards(guards_at(prog, sh, x))]
        facts.append((unparse(x.value), gs))
    def has(val, guard): return any(v == val and guard in gs for v, gs in facts)
    checks = [
        (has("False", ("isinstance(rule, SigmaCorrelationRule)", True)), "correlation rules are never filtered"),
        (has("False", ("rule.logsource not in self.logsource", True)) or has("False", ("rule.logsource in self.logsource", False)), "log source containment `rule.logsource in self.logsource` (rule's log source covered by the filter's)"),
        (any(v == "True" and any("self.filter.rules" in g and "'any'" in g and p for g, p in gs) for v, gs in facts), "rules == 'any' applies to every covered rule"),
        (has("False", ("not matches", True)) or has("False", ("matches", False)), "no listed reference matches → not applied"),
    ]
    for okk, what in checks:
        if okk:
            r.ok("C11.R3", sh.qual, what, sh.loc)
        else:
            r.violation("C11.R3", sh.qual, what, "decision branch of the applicability test not found in this form (direction of the containment test and the 'any'/reference logic decide which rules are changed)", sh.loc)
    for v, gs in facts:
        if v == "True":
            if not (any(g == "isinstance(rule, SigmaCorrelationRule)" and not p for g, p in gs) and any(g.replace(" not in ", " in ") == "rule.logsource in self.logsource" and (p == ("not in" not in g)) for g, p in gs)):
                r.violation("C11.R3", sh.qual, "return True", f"a positive answer is reachable without the correlation and log-source tests having passed ({gs})", sh.loc)
    if not any("reference.reference" in unparse(c) for c in walk_no_nested(sh.node) if isinstance(c, ast.Subscript)):
        r.violation("C11.R3", sh.qual, "SigmaCollection([rule])[reference.reference]", "rule references of the filter are not resolved against the rule (by id or name)", sh.loc)
    else:
        r.ok("C11.R3", sh.qual, "references resolved by id or name through SigmaCollection([rule])[reference.reference]", sh.loc)

    # the containment relation itself, tabulated on a stand-in dataclass with the class's own fields and compare flags
    import dataclasses as _dc
    import itertools
    from ..tabulate import Interp, Raised
    lc = prog.func("sigma.rule.logsource.SigmaLogSource.__contains__")
    flds = prog.dataclass_fields("sigma.rule.logsource.SigmaLogSource")
    spec = []
    for name, ann in flds.items():
        cmp_ = not (isinstance(ann.value, ast.Call) and any(k.arg == "compare" and isinstance(k.value, ast.Constant) and k.value.value is False for k in ann.value.keywords))
        spec.append((name, object, _dc.field(default=None, compare=cmp_)))
    LS = _dc.make_dataclass("SigmaLogSource", spec, frozen=True)
    if not {"category", "product", "service"} <= {n for n, _, _ in spec}:
        raise AnalysisError("SigmaLogSource lost one of category/product/service")
    wrong = []
    n_cases = 0
    for sv in itertools.product((None, "a"), repeat=3):
        for ov in itertools.product((None, "a", "b"), repeat=3):
            for sdef, odef in ((None, None), ("note", None), (None, "note"), ("x", "y")):
                kw_s = dict(zip(("category", "product", "service"), sv))
                kw_o = dict(zip(("category", "product", "service"), ov))
                if "definition" in {n for n, _, _ in spec}:
                    kw_s["definition"], kw_o["definition"] = sdef, odef
                me, other = LS(**kw_s), LS(**kw_o)
                it = Interp({"self": me, "other": other, "SigmaTypeError": lambda *a, **k: "SigmaTypeError", "dataclasses": _dc})
                try:
                    got = bool(it.call(lc.node.body))
                except Raised as e:
                    got = f"<raises {e}>"
                want = all(s_ is None or s_ == o_ for s_, o_ in zip(sv, ov))
                n_cases += 1
                if got != want:
                    wrong.append(f"filter log source {kw_s} contains rule log source {kw_o}: {got} instead of {want}")
    if wrong:
        r.violation("C11.R3", lc.qual, f"containment table: {wrong[0]}", f"{len(wrong)} of {n_cases} tabulated cases deviate: a log source covers another iff each of category, product and service is unset or equal — nothing else (not the free-text definition, not custom attributes) may narrow a filter", lc.loc)
    else:
        r.ok("C11.R3", lc.qual, f"containment tabulated over {n_cases} cases (category/product/service unset/equal/different x definition notes): unset-or-equal on exactly these three", lc.loc)

    # ---------------------------------------------------------------- R4
    r.rule("C11.R4", "objects stored into a rule's detection map are fresh (deep copy or constructor result), never the filter's own detection objects")
    for st, v in [(st, st.value) for st in stores] + [(c, v) for c, _, v in bulk]:
        sl = f"{ap.module.relpath}:{st.lineno}"
        if isinstance(v, ast.Call) and (call_name(v) in ("copy.deepcopy", "deepcopy") or call_name(v).split(".")[-1] in ("SigmaDetection", "from_definition")):
            r.ok("C11.R4", ap.qual, short(st, 120), sl)
        else:
            r.violation("C11.R4", ap.qual, short(st, 160),
                        "the filter's own SigmaDetection object is shared by every rule the filter applies to; pipelines transform detections in place, so the second rule receives detections already rewritten for the first (e.g. prefix applied twice)", sl)

    # ---------------------------------------------------------------- R6
    r.rule("C11.R6", "filters are applied by SigmaCollection.__post_init__ unless collect_filters; load_ruleset collects per file (collect_filters=True) and the merged collection applies them once")
    pi = prog.func("sigma.collection.SigmaCollection.__post_init__")
    calls = [c for c in walk_no_nested(pi.node) if isinstance(c, ast.Call) and call_name(c) == "self.apply_filters"]
    if len(calls) == 1:
        gs = atomic_guards(guards_at(prog, pi, calls[0]))
        if ("collect_filters", False) in gs and ("self.filters", True) in gs:
            r.ok("C11.R6", pi.qual, "apply_filters(self.filters) iff filters present and not collect_filters", f"{pi.module.relpath}:{calls[0].lineno}")
        else:
            r.violation("C11.R6", pi.qual, short(calls[0]), f"filters applied under {gs}; expected: filters present and not collect_filters", f"{pi.module.relpath}:{calls[0].lineno}")
    else:
        r.violation("C11.R6", pi.qual, "self.apply_filters(self.filters)", f"{len(calls)} apply_filters calls in __post_init__ (exactly one expected)", pi.loc)
    af = prog.func("sigma.collection.SigmaCollection.apply_filters")
    src = unparse(af.node)
    if "f.apply_on_rule(r)" in src and "for rule in self.rules" in src and "reduce(" in src:
        r.ok("C11.R6", af.qual, "every rule is folded through every filter, in order", af.loc)
    else:
        r.violation("C11.R6", af.qual, "reduce(lambda r, f: f.apply_on_rule(r) ..., filters, rule) for rule in self.rules", "apply_filters no longer folds each rule through all filters", af.loc)
    lr = prog.func("sigma.collection.SigmaCollection.load_ruleset")
    fy = [c for c in walk_no_nested(lr.node) if isinstance(c, ast.Call) and call_name(c).endswith("from_yaml")]
    okc = any(any(kw.arg == "collect_filters" and isinstance(kw.value, ast.Constant) and kw.value.value is True for kw in c.keywords) for c in fy)
    if okc:
        r.ok("C11.R6", lr.qual, "per-file collections built with collect_filters=True", lr.loc)
    else:
        r.violation("C11.R6", lr.qual, "SigmaCollection.from_yaml(..., collect_filters=True, ...)", "per-file collections apply filters before the rule set is merged: a filter in one file never reaches rules of other files (or is applied twice)", lr.loc)
    mg = [c for c in walk_no_nested(lr.node) if isinstance(c, ast.Call) and call_name(c).endswith("merge")]
    if mg and not any(kw.arg == "collect_filters" and isinstance(kw.value, ast.Constant) and kw.value.value is True for c in mg for kw in c.keywords):
        r.ok("C11.R6", lr.qual, "merged collection applies the collected filters", lr.loc)
    else:
        r.violation("C11.R6", lr.qual, "cls.merge(sigma_collections, ...)", "merged collection does not apply the collected filters", lr.loc)
    # ---------------------------------------------------------------- R7 (shared with C02.R4)
    from . import c02
    before = len(r.obligations)
    c02.r4_selector(ctx, cm, "".join(pat_alpha))
    for o in r.obligations[before:]:
        o["rule"] = "C11.R7"
    for f in r.findings:
        if f.rule == "C02.R4":
            f.rule = "C11.R7"
    r.rule_counts["C11.R7"] = r.rule_counts.pop("C02.R4", 0)
    r.rule_text["C11.R7"] = "selector resolution keeps the two sides apart: " + r.rule_text.pop("C02.R4")
    # which rules a filter names: the rule list is resolved through the collection's lookup (shared with C09.R6)
    from . import c09
    c09.r6_lookup_table(ctx, "C11.R8")
    for rid, n in (("C11.R1", 3), ("C11.R2", 2), ("C11.R3", 8), ("C11.R4", 1), ("C11.R5", 5), ("C11.R6", 4)):
        r.floor(rid, n)


def _fstring_shape(e: ast.AST) -> str:
    """Text of an f-string / concatenation with {name} placeholders."""
    if isinstance(e, ast.JoinedStr):
        out = ""
        for v in e.values:
            if isinstance(v, ast.Constant):
                out += str(v.value)
            elif isinstance(v, ast.FormattedValue):
                out += "{" + unparse(v.value) + "}"
        return out
    if isinstance(e, ast.BinOp) and isinstance(e.op, ast.Add):
        return _fstring_shape(e.left) + _fstring_shape(e.right)
    if isinstance(e, ast.Constant):
        return str(e.value)
    if isinstance(e, ast.Name):
        return "{" + e.id + "}"
    return "<" + unparse(e) + ">"
