"""C11 — a filter narrows exactly the rules it targets and nothing else."""
from __future__ import annotations

import ast
import re
from typing import Optional

from ..prog import AnalysisError, FuncInfo, call_name, short, stmt_head, unparse, walk_no_nested
from ..util import assignments_to, atomic_guards, cfg_of, const_eval, guards_at
from .c02 import _module_assign, _resolve_alias

F = "sigma.filters.SigmaFilter"
GRAMMAR_KEYWORDS = {"1", "any", "all", "of", "not", "and", "or"}


def regex_token_classes(pattern: str) -> tuple[set[str], set[str], bool]:
    """(first-char set, rest-char set, rest_optional) of a regex of the shape C1 C2* or C+ ."""
    import re._parser as sre  # type: ignore[import-not-found]
    import re._constants as sc  # type: ignore[import-not-found]
    p = sre.parse(pattern)
    items = list(p)

    def cls(op, av) -> set[str]:
        out: set[str] = set()
        if op is sc.IN:
            for o, a in av:
                if o is sc.LITERAL:
                    out.add(chr(a))
                elif o is sc.RANGE:
                    out |= {chr(c) for c in range(a[0], a[1] + 1)}
                elif o is sc.CATEGORY:
                    import string
                    if a is sc.CATEGORY_WORD:
                        out |= set(string.ascii_letters + string.digits + "_")
                    elif a is sc.CATEGORY_DIGIT:
                        out |= set(string.digits)
                    else:
                        raise AnalysisError(f"regex category {a} not supported")
                elif o is sc.NEGATE:
                    raise AnalysisError("negated class in token regex")
                else:
                    raise AnalysisError(f"regex class item {o} not supported")
        elif op is sc.LITERAL:
            out.add(chr(av))
        else:
            raise AnalysisError(f"regex item {op} not supported")
        return out

    # a group around the whole token (capturing for re.split, or non-capturing) does not change what a token is
    while len(items) == 1 and items[0][0] is sc.SUBPATTERN:
        items = list(items[0][1][-1])
    if len(items) == 1 and items[0][0] is sc.MAX_REPEAT:
        lo, hi, sub = items[0][1]
        sub = list(sub)
        if lo >= 1 and len(sub) == 1:
            c = cls(*sub[0])
            return c, c, True
    if len(items) == 2 and items[1][0] is sc.MAX_REPEAT:
        first = cls(*items[0])
        lo, hi, sub = items[1][1]
        sub = list(sub)
        if lo == 0 and len(sub) == 1:
            return first, cls(*sub[0]), True
    raise AnalysisError(f"token regex {pattern!r} is not of the shape [first][rest]* or [class]+")


def run(ctx) -> None:
    r, prog = ctx.r, ctx.prog
    r.explanation = (
        "Structural necessary conditions of filter application decided on the source: the regex that re-tokenises the filter "
        "condition accepts exactly the token alphabet of the condition grammar (both extracted and compared as character sets), "
        "the keyword set equals the grammar's keywords and is compared case-sensitively, every mutation of the rule is dominated "
        "by the applicability test (log source containment in the documented direction, rule list), detection objects stored into "
        "a rule are fresh copies, the renaming mechanism is capture-free by construction (underscore prefix, every non-keyword "
        "token prefixed, both sides parenthesised) and filters are applied once, after merging. The boolean meaning of the "
        "filtered condition is not evaluated.")
    ap = prog.func(F + ".apply_on_rule")
    sh = prog.func(F + "._should_apply_on_rule")
    cm = prog.module("sigma.conditions")
    from .c02 import condition_grammar, grammar_alphabets
    ident_alpha, pat_alpha = (set(x) for x in grammar_alphabets(ctx, cm))
    token_alpha = ident_alpha | pat_alpha

    # ---------------------------------------------------------------- R1
    r.rule("C11.R1", "the regex that re-tokenises the filter condition accepts, as one token, exactly the token language of the condition grammar (first and following character classes = identifier ∪ pattern alphabet)")
    # the tokenising pattern: a regex call with a constant pattern anywhere in the filter class (apply_on_rule, a helper it
    # delegates to, or a pattern compiled once at class level)
    fcls = prog.cls(F)
    RX_CALLS = ("re.sub", "re.finditer", "re.findall", "re.compile", "re.split", "re.fullmatch", "re.match")
    subs = [c for c in ast.walk(fcls.node) if isinstance(c, ast.Call) and call_name(c) in RX_CALLS and c.args]
    if not subs:
        # … or in a function of the module that the class's methods call
        helpers_ = [prog.funcs[q_] for q_ in ctx.cg.reachable([m_.qual for m_ in fcls.methods.values()]) if q_ in prog.funcs and prog.funcs[q_].module is fcls.module and prog.funcs[q_].cls is not fcls]
        # … or in a private helper class of the module that the filter class names
        named_ = {n_.id for n_ in ast.walk(fcls.node) if isinstance(n_, ast.Name)}
        for cq_, ci_ in prog.classes.items():
            if ci_.module is fcls.module and ci_.name.startswith("_") and ci_.name in named_:
                helpers_ += [m_ for m_ in ci_.methods.values() if m_ not in helpers_]
        subs = [c for h_ in helpers_ for c in ast.walk(h_.node) if isinstance(c, ast.Call) and call_name(c) in RX_CALLS and c.args]
        subs += [c for st_ in fcls.module.tree.body if isinstance(st_, (ast.Assign, ast.AnnAssign)) for c in ast.walk(st_) if isinstance(c, ast.Call) and call_name(c) in RX_CALLS and c.args]
    pats = []
    for c in subs:
        arg0 = c.args[0]
        if isinstance(arg0, ast.Name):
            # a local of the enclosing function bound once to a constant pattern
            encl = next((a_ for a_ in prog.ancestors(c) if isinstance(a_, ast.FunctionDef)), None)
            while encl is not None:
                binds = [st.value for st in ast.walk(encl) if isinstance(st, ast.Assign) and any(isinstance(t, ast.Name) and t.id == arg0.id for t in st.targets)]
                if len(binds) == 1:
                    arg0 = binds[0]
                    break
                encl = next((a_ for a_ in prog.ancestors(encl) if isinstance(a_, ast.FunctionDef)), None)
        try:
            pv = const_eval(prog, ap.module, arg0)
        except ValueError:
            raise AnalysisError(f"{F}: token regex {short(c, 60)} is not a constant")
        if isinstance(pv, str) and pv not in [p_ for p_, _ in pats]:
            pats.append((pv, c))
    if len(pats) != 1:
        raise AnalysisError(f"{F}: expected exactly one tokenising regex (re.sub/finditer/findall/compile with a constant pattern), found {len(pats)}")
    pattern, sub = pats[0]
    loc = f"{ap.module.relpath}:{sub.lineno}"
    first, rest, _ = regex_token_classes(pattern)
    r.analysed["C11.token_regex"] = pattern
    if first == token_alpha:
        r.ok("C11.R1", ap.qual, f"first-character class of {pattern!r} equals the grammar's token alphabet", loc)
    else:
        miss, extra = sorted(token_alpha - first), sorted(first - token_alpha)
        r.violation("C11.R1", ap.qual, f"token regex {pattern!r} (first character)",
                    f"a detection name or pattern may start with {miss[:12]} in the condition grammar, but the rewriting regex does not start a token there"
                    f"{' and accepts ' + str(extra) + ' which the grammar does not' if extra else ''}: the name is split and the rewritten condition refers to an undefined detection", loc)
    if rest == token_alpha:
        r.ok("C11.R1", ap.qual, f"following-character class of {pattern!r} equals the grammar's token alphabet", loc)
    else:
        miss, extra = sorted(token_alpha - rest), sorted(rest - token_alpha)
        r.violation("C11.R1", ap.qual, f"token regex {pattern!r} (following characters)",
                    f"characters {miss[:12]} may occur inside a name in the grammar but end a token for the rewriting regex (extra: {extra[:8]})", loc)
    # ---------------------------------------------------------------- R2
    r.rule("C11.R2", "the rewriting treats exactly the grammar's keywords as keywords, case-sensitively and only where the grammar reads them as keywords: apply_on_rule interpreted on sample conditions (sa.tabulate, shared with C02.R6), incl. names that differ from a keyword by case only")
    from . import c02
    # grammar keywords re-derived from conditions.py (the sample table below is written for this set)
    gk = set()
    for g in condition_grammar(ctx, cm)[0]["condition"].walk():
        if g.kind in ("Keyword", "CaselessKeyword", "Literal", "CaselessLiteral"):
            gk.add(g.match)
    if gk == GRAMMAR_KEYWORDS:
        r.ok("C11.R2", "sigma.conditions", f"grammar keywords {sorted(gk)}")
    else:
        r.violation("C11.R2", "sigma.conditions", f"grammar keywords {sorted(gk)}", f"condition grammar keywords changed; the filter rewriting table {sorted(GRAMMAR_KEYWORDS)} no longer agrees")
    case_samples = [("not Or", "not P_Or"), ("NOT and Any", "P_NOT and P_Any"), ("not And", "not P_And"), ("All of x*", "P_All P_of P_x*"),
                    ("1 of Them", "1 of P_Them"), ("not flt or not OF", "not P_flt or not P_OF")]
    bad = c02.filter_rewrite_failures(ctx, c02.FILTER_SAMPLES + case_samples)
    if bad:
        cond, why = bad[0]
        r.violation("C11.R2", ap.qual, f"filter condition {cond!r}", f"{why} (+{len(bad) - 1} more sample(s)): a word the grammar reads as a detection name is left unprefixed (it then names a detection of the rule, or nothing), or a keyword is prefixed", ap.loc)
    else:
        r.ok("C11.R2", ap.qual, f"{len(c02.FILTER_SAMPLES) + len(case_samples)} sample conditions rewritten as the grammar reads them (keywords case-sensitive, positional)", ap.loc)

    # ---------------------------------------------------------------- R5 (callback + combination)
    r.rule("C11.R5", "capture-freedom mechanism: the drawn prefix starts with '_' and is drawn again while existing detection names start with it (interpreted with a colliding draw); detections are stored under prefix+'_'+name; both sides of the combined condition are parenthesised and joined by 'and'")
    ploc = ap.loc
    # apply_on_rule interpreted (sa.tabulate, Proxy; shared with C02.R6) on a rule with two conditions and a filter with two detections
    from ..tabulate import Raised as _R5Raised
    try:
        rule5, filt5 = c02.interpret_filter_application(ctx, "flt and not flt2", rule_detections={"sel": "D(sel)", "other": "D(other)"}, rule_conditions=("sel or other", "sel"))
        keys5 = [k for k in rule5.detection.detections if k not in ("sel", "other")]
        conds5 = list(rule5.detection.condition)
    except _R5Raised as ex:
        raise AnalysisError(f"{ap.qual}: raises {ex} on the stand-in rule")
    prefixes5 = {k[:-len("_" + n_)] for k in keys5 for n_ in ("flt", "flt2") if k.endswith("_" + n_) and not (n_ == "flt" and k.endswith("_flt2"))}
    if len(keys5) == 2 and len(prefixes5) == 1 and next(iter(prefixes5)).startswith("_"):
        P5 = next(iter(prefixes5))
        r.ok("C11.R5", ap.qual, f"prefix starts with '_' ({P5[:6]}…); filter detections stored under prefix + '_' + name", ploc)
    else:
        P5 = next(iter(prefixes5)) if len(prefixes5) == 1 else None
        if P5 is not None and not P5.startswith("_"):
            r.violation("C11.R5", ap.qual, "prefix = '_filt_' + ...", f"the injected prefix {P5!r} does not start with '_': rule selectors such as '1 of sel*'/'them' are only kept away from injected detections by the underscore rule", ploc)
        else:
            r.violation("C11.R5", ap.qual, f"rule.detection.detections[prefix + '_' + name]: keys {keys5}", "filter detections are not stored under prefix + '_' + name with one prefix (the rewritten condition would not find them)", ploc)
    if P5 is not None:
        want5 = [f"(sel or other) and ({P5}_flt and not {P5}_flt2)", f"(sel) and ({P5}_flt and not {P5}_flt2)"]
        if conds5 == want5:
            r.ok("C11.R5", ap.qual, "every condition of the rule becomes '(original) and (filter)', both sides parenthesised", ploc)
        else:
            r.violation("C11.R5", ap.qual, f"rule.detection.condition = {conds5}", f"expected {want5}: '(original) and (filter)' with both sides parenthesised for every condition of the rule (operator precedence would otherwise regroup the rule's own OR/AND; not every condition of the rule is combined with the filter)", ploc)
    # a colliding draw is drawn again: interpreted with rules that already own names starting with the drawn prefix and a
    # random stand-in that returns x…x first and y…y afterwards (shared with C20.R4)
    probs = c02.prefix_redraw_failures(ctx)
    if probs:
        r.violation("C11.R5", ap.qual, "prefix collision", probs[0] + (f" (+{len(probs) - 1} more scenario(s))" if len(probs) > 1 else ""), ploc)
    else:
        r.ok("C11.R5", ap.qual, "a drawn prefix that existing detection names start with is drawn again (same name: nothing overwritten; other name: nothing captured)", ploc)
    # storing detections + combination
    stores = [n for n in walk_no_nested(ap.node) if isinstance(n, ast.Assign) and any(isinstance(t, ast.Subscript) and unparse(t.value) == "rule.detection.detections" for t in n.targets)]
    # the same store written as detections.update({key: value for ...}) — (key, value) taken from the comprehension
    bulk: list[tuple[ast.AST, ast.AST, ast.AST]] = []
    for c in walk_no_nested(ap.node):
        if isinstance(c, ast.Call) and call_name(c) == "rule.detection.detections.update" and c.args:
            a0 = c.args[0]
            if isinstance(a0, ast.DictComp):
                bulk.append((c, a0.key, a0.value))
            elif isinstance(a0, ast.Dict):
                bulk.extend((c, k, v) for k, v in zip(a0.keys, a0.values) if k is not None)
            elif isinstance(a0, (ast.GeneratorExp, ast.ListComp)) and isinstance(a0.elt, ast.Tuple) and len(a0.elt.elts) == 2:
                bulk.append((c, a0.elt.elts[0], a0.elt.elts[1]))  # update() with an iterable of (key, value) pairs
            else:
                bulk.append((c, a0, a0))
    # ---------------------------------------------------------------- R3
    r.rule("C11.R3", "applicability precedes mutation: every store into the rule in apply_on_rule is dominated by _should_apply_on_rule(rule) being true and the rule not being a correlation rule; _should_apply_on_rule tests `rule.logsource in self.logsource` and the rule list")
    # apply_on_rule interpreted with the applicability test answering no, and on a correlation rule: nothing of the rule changes
    for what, kw in (("the applicability test fails", {"should_apply": False}), ("the rule is a correlation rule", {"should_apply": True, "correlation": True})):
        try:
            rule3, _f3 = c02.interpret_filter_application(ctx, "flt", rule_detections={"sel": "D(sel)"}, **kw)
            changed = []
            if rule3.detection.detections != {"sel": "D(sel)"}:
                changed.append(f"detections = {sorted(rule3.detection.detections)}")
            if rule3.detection.condition != ["sel"]:
                changed.append(f"condition = {rule3.detection.condition}")
            if getattr(rule3.detection, "reparsed", 0):
                changed.append("the detections are parsed again")
            if rule3.returned is not rule3:
                changed.append("another object is returned")
        except _R5Raised as ex:
            changed = [f"raises {ex}"]
        if not changed:
            r.ok("C11.R3", ap.qual, f"when {what} the rule is returned unchanged (interpreted)", ap.loc)
        else:
            r.violation("C11.R3", ap.qual, f"apply_on_rule when {what}: {changed[0]}", "rule is modified without the applicability test having succeeded", ap.loc)
    # _should_apply_on_rule interpreted (sa.tabulate, Proxy) on stand-in rules and rule lists
    import types as _types
    from ..tabulate import Proxy, call_method, Raised as _Raised

    from uuid import UUID as _UUID
    RID = _UUID("9a6b8f0e-3c1d-4e2a-8b7c-1d2e3f4a5f60")

    class _RuleLS:  # the rule's log source; asked the other way round ("does the rule's log source cover the filter's") it answers the opposite
        def __init__(self, covered): self.covered = covered
        def __contains__(self, other): return not self.covered

    class SigmaCorrelationRule:
        def __init__(self):
            self.logsource, self.id, self.name = _RuleLS(True), RID, "name-1"

    class _Rule:
        def __init__(self, covered):
            self.logsource, self.id, self.name = _RuleLS(covered), RID, "name-1"

    class SigmaRuleNotFoundError(Exception):
        pass

    class SigmaCollection:
        def __init__(self, rules, *a, **k):
            self.rules = list(rules)
        def __getitem__(self, key):
            for x in self.rules:  # by id in any UUID spelling, or by name
                try:
                    if _UUID(str(key)) == x.id:
                        return x
                except ValueError:
                    pass
                if key == x.name:
                    return x
            raise SigmaRuleNotFoundError(key)

    class _Covers:
        def __contains__(self, other): return bool(other.covered)

    ref = lambda t: _types.SimpleNamespace(reference=t)  # noqa: E731
    envf = {"SigmaCorrelationRule": SigmaCorrelationRule, "SigmaCollection": SigmaCollection, "SigmaRuleNotFoundError": SigmaRuleNotFoundError,
            "sigma_exceptions": _types.SimpleNamespace(SigmaRuleNotFoundError=SigmaRuleNotFoundError)}
    IKf = {"behaviours": (SigmaRuleNotFoundError,), "max_steps": 6000}
    table = [
        ("correlation rules are never filtered", SigmaCorrelationRule(), "any", False),
        ("correlation rules are never filtered (listed by name)", SigmaCorrelationRule(), [ref("name-1")], False),
        ("log source containment `rule.logsource in self.logsource` (rule's log source covered by the filter's): not covered, rules 'any'", _Rule(False), "any", False),
        ("log source containment: not covered, rule listed by id", _Rule(False), [ref(str(RID))], False),
        ("rules == 'any' applies to every covered rule", _Rule(True), "any", True),
        ("rules == 'Any' (any spelling) applies to every covered rule", _Rule(True), "Any", True),
        ("listed by name → applied", _Rule(True), [ref("other"), ref("name-1")], True),
        ("listed by id → applied", _Rule(True), [ref(str(RID)), ref("other")], True),
        ("listed by id in another spelling of the UUID → applied", _Rule(True), [ref(str(RID).upper())], True),
        ("no listed reference matches → not applied", _Rule(True), [ref("other"), ref("another")], False),
        ("empty rule list → not applied", _Rule(True), [], False),
    ]
    for what, rule_, rules_, want in table:
        me = Proxy(prog, F, envf, {"filter": _types.SimpleNamespace(rules=rules_), "logsource": _Covers(), "source": None}, interp_kwargs=IKf)
        try:
            got = call_method(prog, F, "_should_apply_on_rule", me, envf, rule_, interp_kwargs=IKf)
        except _Raised as ex:
            got = f"<raises {ex}>"
        if got is want:
            r.ok("C11.R3", sh.qual, f"{what}: {got}", sh.loc)
        else:
            r.violation("C11.R3", sh.qual, f"{what}: answers {got!r} instead of {want}", "decision of the applicability test deviates (direction of the containment test and the 'any'/reference logic decide which rules are changed; rule references of the filter are resolved against the rule by id or name; a positive answer requires the correlation and log-source tests to have passed)", sh.loc)

    # which rules a filter document names: SigmaGlobalFilter.from_dict interpreted (sa.tabulate, ClassProxy) on stand-in documents.
    # The references are what is later compared with rule names and ids: they are the document's strings, unchanged, in order.
    from ..tabulate import ClassProxy
    GF = "sigma.filters.SigmaGlobalFilter"
    gf = prog.func(GF + ".from_dict")

    class _FErr(Exception):
        pass

    class _ExcNS:
        def __getattr__(self, name):
            return _FErr

    class _Ref:
        def __init__(self, reference): self.reference = reference
        def __eq__(self, o): return isinstance(o, _Ref) and o.reference == self.reference
        def __repr__(self): return f"ref({self.reference!r})"

    env_g = {"SigmaRuleReference": _Ref, "sigma_exceptions": _ExcNS(), "SigmaDetection": _types.SimpleNamespace(from_definition=lambda d, s=None: ("D", d)),
             "SigmaFilterRuleReferenceError": _FErr, "SigmaFilterConditionError": _FErr}
    IKg = {"max_steps": 6000, "behaviours": (_FErr, KeyError)}
    docs = [("Failed_Logon", [_Ref("Failed_Logon")]), ("any", "any"), ("ANY", "any"), ("Any", "any"), ("anyone", [_Ref("anyone")]),
            ("5013332F-8A70-4A04-BCF1-06A98A2CB8E7", [_Ref("5013332F-8A70-4A04-BCF1-06A98A2CB8E7")]),
            (["Rule_B", "rule_a", "ANY"], [_Ref("Rule_B"), _Ref("rule_a"), _Ref("ANY")]), (["x"], [_Ref("x")]),
            ([1, "a"], "<refused>"), (5, "<refused>"), (None, "<refused>"), ({"a": 1}, "<refused>")]
    badg = []
    for given, want in docs:
        got_kw: dict = {}
        klass = ClassProxy(prog, GF, env_g, ctor=lambda *a, **k: (got_kw.update(k), "built")[1], interp_kwargs=IKg)
        try:
            call_method(prog, GF, "from_dict", klass, env_g, {"flt": {"f": 1}, "condition": "flt", "rules": given}, None, interp_kwargs=IKg)
            got = got_kw.get("rules", "<no rules argument>")
        except _Raised as ex:
            got = "<refused>"
        if got != want:
            badg.append(f"rules: {given!r} is stored as {got!r}, specified {want!r}")
    if badg:
        r.violation("C11.R3", gf.qual, f"from_dict: {badg[0]}", f"{len(badg)} of {len(docs)} interpreted documents deviate: the filter must name exactly the rules the document names — references are kept as written (names are case-sensitive), only the keyword 'any' is recognised in any spelling, and anything that is neither a string nor a list of strings is refused", gf.loc)
    else:
        r.ok("C11.R3", gf.qual, f"from_dict interpreted on {len(docs)} documents: references kept as written and in order, 'any' in any spelling, other types refused", gf.loc)

    # the containment relation itself, tabulated on a stand-in dataclass with the class's own fields and compare flags
    import dataclasses as _dc
    import itertools
    from ..tabulate import Interp, Raised
    lc = prog.func("sigma.rule.logsource.SigmaLogSource.__contains__")
    flds = prog.dataclass_fields("sigma.rule.logsource.SigmaLogSource")
    spec = []
    for name, ann in flds.items():
        cmp_ = not (isinstance(ann.value, ast.Call) and any(k.arg == "compare" and isinstance(k.value, ast.Constant) and k.value.value is False for k in ann.value.keywords))
        spec.append((name, object, _dc.field(default=None, compare=cmp_)))
    LS = _dc.make_dataclass("SigmaLogSource", spec, frozen=True)
    if not {"category", "product", "service"} <= {n for n, _, _ in spec}:
        raise AnalysisError("SigmaLogSource lost one of category/product/service")
    wrong = []
    n_cases = 0
    for sv in itertools.product((None, "a"), repeat=3):
        for ov in itertools.product((None, "a", "b"), repeat=3):
            for sdef, odef in ((None, None), ("note", None), (None, "note"), ("x", "y")):
                kw_s = dict(zip(("category", "product", "service"), sv))
                kw_o = dict(zip(("category", "product", "service"), ov))
                if "definition" in {n for n, _, _ in spec}:
                    kw_s["definition"], kw_o["definition"] = sdef, odef
                me, other = LS(**kw_s), LS(**kw_o)
                it = Interp({"self": me, "other": other, "SigmaTypeError": lambda *a, **k: "SigmaTypeError", "dataclasses": _dc})
                try:
                    got = bool(it.call(lc.node.body))
                except Raised as e:
                    got = f"<raises {e}>"
                want = all(s_ is None or s_ == o_ for s_, o_ in zip(sv, ov))
                n_cases += 1
                if got != want:
                    wrong.append(f"filter log source {kw_s} contains rule log source {kw_o}: {got} instead of {want}")
    if wrong:
        r.violation("C11.R3", lc.qual, f"containment table: {wrong[0]}", f"{len(wrong)} of {n_cases} tabulated cases deviate: a log source covers another iff each of category, product and service is unset or equal — nothing else (not the free-text definition, not custom attributes) may narrow a filter", lc.loc)
    else:
        r.ok("C11.R3", lc.qual, f"containment tabulated over {n_cases} cases (category/product/service unset/equal/different x definition notes): unset-or-equal on exactly these three", lc.loc)

    # ---------------------------------------------------------------- R4
    r.rule("C11.R4", "objects stored into a rule's detection map are fresh (deep copy or constructor result), never the filter's own detection objects")
    for st, v in [(st, st.value) for st in stores] + [(c, v) for c, _, v in bulk]:
        sl = f"{ap.module.relpath}:{st.lineno}"
        if isinstance(v, ast.Call) and (call_name(v) in ("copy.deepcopy", "deepcopy") or call_name(v).split(".")[-1] in ("SigmaDetection", "from_definition")):
            r.ok("C11.R4", ap.qual, short(st, 120), sl)
        else:
            r.violation("C11.R4", ap.qual, short(st, 160),
                        "the filter's own SigmaDetection object is shared by every rule the filter applies to; pipelines transform detections in place, so the second rule receives detections already rewritten for the first (e.g. prefix applied twice)", sl)

    # ---------------------------------------------------------------- R6
    r.rule("C11.R6", "filters are applied by SigmaCollection.__post_init__ unless collect_filters; load_ruleset collects per file (collect_filters=True) and the merged collection applies them once")
    pi = prog.func("sigma.collection.SigmaCollection.__post_init__")
    # __post_init__ interpreted (sa.tabulate, Proxy) on stand-in rules and filters, with the two switches in all positions
    from ..tabulate import Proxy as _P6a, call_method as _cm6a, Raised as _R6a

    class _Obj:
        def __init__(self, n): self.n, self.id, self.name = n, "id-" + n, n
        def __repr__(self): return self.n
    class SigmaRule(_Obj): pass
    class SigmaCorrelationRule(_Obj): pass
    class SigmaFilter(_Obj): pass
    env6a = {"SigmaRule": SigmaRule, "SigmaCorrelationRule": SigmaCorrelationRule, "SigmaFilter": SigmaFilter}
    SC = "sigma.collection.SigmaCollection"
    bad6 = None
    for given_filters in (0, 1, 2):
        for collect in (False, True):
            for resolve in (True, False):
                flts = [SigmaFilter(f"f{i}") for i in range(given_filters)]
                init = [SigmaRule("r1")] + flts[:1] + [SigmaCorrelationRule("c1")] + flts[1:]
                log = []
                me = _P6a(prog, SC, env6a, {"rules": [], "filters": [], "errors": [],
                                            "apply_filters": lambda fs, _l=log: _l.append(("apply_filters", list(fs))),
                                            "resolve_rule_references": lambda _l=log: _l.append(("resolve",))}, interp_kwargs={"max_steps": 6000})
                try:
                    _cm6a(prog, SC, "__post_init__", me, env6a, init, collect, resolve, interp_kwargs={"max_steps": 6000})
                except _R6a as ex:
                    bad6 = f"raises {ex} ({given_filters} filters, collect_filters={collect})"
                    break
                want_log = ([("apply_filters", flts)] if flts and not collect else []) + ([("resolve",)] if resolve else [])
                if log != want_log:
                    bad6 = f"{given_filters} filter(s), collect_filters={collect}, resolve_references={resolve}: {log} instead of {want_log}"
                elif [x.n for x in me.rules] != ["r1", "c1"] or list(me.filters) != flts:
                    bad6 = f"the collection holds rules {me.rules} and filters {me.filters} for the objects {init}"
            if bad6:
                break
        if bad6:
            break
    if bad6 is None:
        r.ok("C11.R6", pi.qual, "apply_filters(all filters given) exactly once iff filters are present and not collect_filters, before references are resolved (interpreted over 12 configurations)", pi.loc)
    else:
        r.violation("C11.R6", pi.qual, "self.apply_filters(self.filters)", f"filters applied under other conditions than: filters present and not collect_filters — {bad6}", pi.loc)
    af = prog.func("sigma.collection.SigmaCollection.apply_filters")
    # apply_filters interpreted (sa.tabulate, Proxy) on a stand-in collection: three rules (one of them a correlation rule), two filters
    from functools import reduce as _reduce
    from ..tabulate import Proxy as _P6, call_method as _cm6, Raised as _R6

    class SigmaRule:
        def __init__(self, n, trail=()): self.n, self.trail = n, list(trail)

    class _CorrRule:
        def __init__(self, n): self.n, self.trail = n, []

    class _Flt:
        def __init__(self, n): self.n = n
        def apply_on_rule(self, rule):
            out = type(rule)(rule.n, rule.trail + [self.n]) if isinstance(rule, SigmaRule) else rule
            if not isinstance(rule, SigmaRule):
                rule.trail.append(self.n)
            return out

    rules6 = [SigmaRule("r1"), _CorrRule("c1"), SigmaRule("r2")]
    env6 = {"SigmaRule": SigmaRule, "reduce": _reduce}
    me6 = _P6(prog, "sigma.collection.SigmaCollection", env6, {"rules": list(rules6), "filters": []}, interp_kwargs={"max_steps": 6000})
    try:
        _cm6(prog, "sigma.collection.SigmaCollection", "apply_filters", me6, env6, [_Flt("f1"), _Flt("f2")], interp_kwargs={"max_steps": 6000})
        got6 = [(x.n, x.trail) for x in me6.rules]
    except _R6 as ex:
        got6 = f"raises {ex}"
    want6 = [("r1", ["f1", "f2"]), ("c1", []), ("r2", ["f1", "f2"])]
    if got6 == want6:
        r.ok("C11.R6", af.qual, "every rule is folded through every filter, in order; the result of one filter is the input of the next; correlation rules are left alone (interpreted)", af.loc)
    else:
        r.violation("C11.R6", af.qual, f"reduce(lambda r, f: f.apply_on_rule(r) ..., filters, rule) for rule in self.rules: rules become {got6}", f"expected {want6}: apply_filters no longer folds each rule through all filters", af.loc)
    lr = prog.func("sigma.collection.SigmaCollection.load_ruleset")
    # load_ruleset interpreted (sa.tabulate, ClassProxy) on two stand-in files (shared with C09.R3)
    from .standins import load_ruleset_outcome
    o6 = load_ruleset_outcome(ctx)
    if o6.raised is None and len(o6.per_file) == 2 and all(d_.get("collect_filters") is True for d_ in o6.per_file):
        r.ok("C11.R6", lr.qual, "per-file collections built with collect_filters=True", lr.loc)
    else:
        r.violation("C11.R6", lr.qual, "SigmaCollection.from_yaml(..., collect_filters=True, ...)", f"per-file collections apply filters before the rule set is merged: a filter in one file never reaches rules of other files (or is applied twice) — per-file calls {[d_.get('collect_filters', '<default>') for d_ in o6.per_file] if o6.raised is None else o6.raised}", lr.loc)
    if o6.raised is None and len(o6.merge) == 1 and o6.merge[0].get("collect_filters", False) is not True and o6.merge[0].get("collections") == ["collection-1", "collection-2"]:
        r.ok("C11.R6", lr.qual, "merged collection applies the collected filters", lr.loc)
    else:
        r.violation("C11.R6", lr.qual, "cls.merge(sigma_collections, ...)", f"merged collection does not apply the collected filters (merge calls {o6.merge})", lr.loc)
    # ---------------------------------------------------------------- R7 (shared with C02.R4)
    from . import c02
    before = len(r.obligations)
    c02.r4_selector(ctx, cm, "".join(pat_alpha))
    for o in r.obligations[before:]:
        o["rule"] = "C11.R7"
    for f in r.findings:
        if f.rule == "C02.R4":
            f.rule = "C11.R7"
    r.rule_counts["C11.R7"] = r.rule_counts.pop("C02.R4", 0)
    r.rule_text["C11.R7"] = "selector resolution keeps the two sides apart: " + r.rule_text.pop("C02.R4")
    # which rules a filter names: the rule list is resolved through the collection's lookup (shared with C09.R6)
    from . import c09
    c09.r6_lookup_table(ctx, "C11.R8")
    for rid, n in (("C11.R1", 2), ("C11.R2", 2), ("C11.R3", 8), ("C11.R4", 1), ("C11.R5", 3), ("C11.R6", 4)):
        r.floor(rid, n)


def _fstring_shape(e: ast.AST) -> str:
    """Text of an f-string / concatenation with {name} placeholders."""
    if isinstance(e, ast.JoinedStr):
        out = ""
        for v in e.values:
            if isinstance(v, ast.Constant):
                out += str(v.value)
            elif isinstance(v, ast.FormattedValue):
                out += "{" + unparse(v.value) + "}"
        return out
    if isinstance(e, ast.BinOp) and isinstance(e.op, ast.Add):
        return _fstring_shape(e.left) + _fstring_shape(e.right)
    if isinstance(e, ast.Constant):
        return str(e.value)
    if isinstance(e, ast.Name):
        return "{" + e.id + "}"
    return "<" + unparse(e) + ">"
